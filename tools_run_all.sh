#!/bin/sh
# run every registered quick (or $1=thorough) check in sequence; logs under /verif/out/runall
tier=${1:-quick}
mkdir -p /verif/out/runall
for p in C01 C02 C03 C04 C05 C06 C07 C08 C09 C10 C11 C12 C13 C14 C15 C16 C17 C18 C19 C20; do
  s=$(date +%s)
  ./check $p --tier $tier > /verif/out/runall/$p.$tier.log 2>&1
  rc=$?
  e=$(date +%s)
  echo "$p rc=$rc $((e-s))s $(grep -c '^KNOWN-FINDING' /verif/out/runall/$p.$tier.log) known; $(tail -1 /verif/out/runall/$p.$tier.log | cut -c1-160)"
done

#!/usr/bin/env python3
"""assemble /verif/seeded/<id>/ (patch.diff, demo.c, meta.json) from the seeding agents' output, my confirm runs and
the detection runs.   usage: seed_pack.py [detect.json ...]   (later files override earlier ones per (id, check))"""
import json, os, re, shutil, sys, glob
OUT = "/tmp/seed/out"; CONF = "/tmp/seed/confirm"; DST = "/verif/seeded"
det = {}
for f in sys.argv[1:]:
    try:
        for r in json.load(open(f)):
            d = det.setdefault(r["id"], {})
            for c, v in r.get("checks", {}).items():
                d[c] = {"exit": v["rc"], "wall_s": v["wall"], "violated_assertions": v["violated"][:6], "violated_queries": v["violated_queries"][:6],
                        "inconclusive": v["inconclusive"][:2]}
    except Exception as e:
        print("skip", f, e)
for cf in sorted(glob.glob(CONF + "/*.json")):
    mid = os.path.basename(cf)[:-5]
    p, x = mid[:3], mid[3]
    src = os.path.join(OUT, p, x)
    conf = json.load(open(cf))
    ok = conf.get("applies") and conf.get("builds") and conf.get("tests_pass") and conf.get("demo_mutant", {}).get("rc") not in (0, -1, None) \
        and conf.get("demo_baseline", {}).get("rc") == 0
    if not ok:
        print("NOT CONFIRMED", mid)
        continue
    d = os.path.join(DST, mid)
    os.makedirs(d, exist_ok=True)
    shutil.copy(os.path.join(src, "patch.diff"), os.path.join(d, "patch.diff"))
    shutil.copy(os.path.join(src, "demo.c"), os.path.join(d, "demo.c"))
    readme = open(os.path.join(src, "README.txt"), errors="replace").read()
    files = sorted(set(re.findall(r"^\+\+\+ b/(\S+)", open(os.path.join(src, "patch.diff")).read(), re.M)))
    meta_path = os.path.join(d, "meta.json")
    old = json.load(open(meta_path)) if os.path.exists(meta_path) else {}
    dd = dict(old.get("detection", {}))
    dd.update(det.get(mid, {}))
    meta = {
        "id": mid, "property": p, "files_changed": files,
        "seeder_description": readme.strip()[:3000],
        "confirmed_by_me": {
            "how": "tools/seed_eval.py confirm: scratch git worktree of /repo HEAD, git apply patch.diff, cmake -G Ninja Release build, "
                   "ctest -j8 --timeout 900 (a failing test is re-run alone up to 3 times; resolver_test needs DNS and is ignored), demo.c built "
                   "with gcc -O1 -D_GNU_SOURCE against the changed library and against /repo/_build (unchanged)",
            "builds": conf["builds"], "ctest_first_run_failed": conf.get("ctest_first_failed"), "ctest_failed_when_rerun_alone": conf.get("ctest_failed_alone"),
            "demo_exit_with_change": conf["demo_mutant"]["rc"], "demo_exit_without_change": conf["demo_baseline"]["rc"],
            "demo_output_with_change": conf["demo_mutant"]["out"][-400:],
        },
        "detection": dd,
        "detected_by": sorted(c for c, v in dd.items() if v["exit"] == 1 and v["violated_assertions"]),
    }
    json.dump(meta, open(meta_path, "w"), indent=1)
    print(mid, "detected_by", meta["detected_by"])

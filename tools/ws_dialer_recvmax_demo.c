// F31 demonstration: NNG_OPT_RECVMAXSZ on the dialing side of a ws:// connection.
#include <nng/nng.h>
#include <stdio.h>
#include <stdlib.h>
#include <string.h>
extern int nng_pair0_open(nng_socket *);
int main(void) {
	nng_init(NULL); nng_socket l, d; nng_listener lst; int port = 0; char url[64];
	if (nng_pair0_open(&l) || nng_pair0_open(&d)) return 2;
	{ int e = nng_listener_create(&lst, l, "ws://127.0.0.1:0/f31"); if (!e) e = nng_listener_start(lst, 0); if (e) { printf("listen: %s\n", nng_strerror(e)); return 2; } }
	{ int e = nng_listener_get_int(lst, NNG_OPT_BOUND_PORT, &port); if (e) { printf("bound port: %s\n", nng_strerror(e)); return 2; } }
	snprintf(url, sizeof url, "ws://127.0.0.1:%d/f31", port);
	if (nng_socket_set_size(d, NNG_OPT_RECVMAXSZ, 1000)) return 2;
	nng_socket_set_ms(d, NNG_OPT_RECVTIMEO, 1500);
	if (nng_dial(d, url, NULL, 0)) return 2;
	nng_msleep(200);
	nng_msg *m; nng_msg_alloc(&m, 5000); memset(nng_msg_body(m), 'x', 5000);
	if (nng_sendmsg(l, m, 0)) return 2;
	nng_msg *r = NULL; int rv = nng_recvmsg(d, &r, 0);
	if (rv == 0) { printf("FAIL: a %zu-byte message was delivered to a socket whose NNG_OPT_RECVMAXSZ is 1000\n", nng_msg_len(r)); return 1; }
	printf("PASS (oversized message not delivered: %s)\n", nng_strerror(rv));
	return 0;
}

#!/usr/bin/env python3
"""Run quick checks against seeded changes without touching /repo: each job gets a scratch git
worktree of /repo (under /tmp/seed/det), the patch is applied there and the checks run with
NNG_REPO pointing at it.   usage: seed_detect.py <jobs> <out.json> id:patch:C01,C11 ...
(Equivalent to `git -C /repo apply`, check, `git -C /repo checkout -- .`; lets several run at once.)"""
import concurrent.futures as cf, json, os, re, subprocess, sys, time

def sh(cmd, env=None, timeout=7200):
    p = subprocess.run(cmd, shell=True, stdout=subprocess.PIPE, stderr=subprocess.STDOUT, env=env, timeout=timeout)
    return p.returncode, p.stdout.decode(errors="replace")

def job(k, spec):
    mid, patch, checks = spec.split(":")
    wt = "/tmp/seed/det/wt_%d_%s" % (os.getpid(), re.sub(r"\W", "_", mid))
    os.makedirs("/tmp/seed/det", exist_ok=True)
    sh("git -C /repo worktree add --detach %s HEAD" % wt)
    res = {"id": mid, "patch": patch, "checks": {}}
    try:
        rc, o = sh("git -C %s apply %s" % (wt, patch))
        res["applies"] = rc == 0
        if rc:
            res["apply_out"] = o[-400:]
            return res
        env = dict(os.environ); env["NNG_REPO"] = wt; env["VERIF_JOBS"] = os.environ.get("DET_JOBS", "8")
        for c in checks.split(","):
            t0 = time.time()
            rc, o = sh("cd /verif && ./check %s --tier quick" % c, env=env)
            res["checks"][c] = {"rc": rc, "wall": round(time.time() - t0), "violations": re.findall(r"^VIOLATION.*$", o, re.M)[:4],
                                "violated": sorted(set(re.findall(r"assertion='PROP ([^']*)'", o)))[:10],
                                "violated_queries": sorted(set(re.findall(r"violated: query=(\S+)", o)))[:8],
                                "inconclusive": re.findall(r"^INCONCLUSIVE.*$", o, re.M)[:3], "summary": (re.findall(r"^SUMMARY.*$", o, re.M) or [""])[-1]}
            open("/tmp/seed/det/%s.%s.log" % (re.sub(r"\W", "_", mid), c), "w").write(o)
    finally:
        sh("git -C /repo worktree remove --force %s" % wt)
    return res

if __name__ == "__main__":
    n = int(sys.argv[1]); out = sys.argv[2]; specs = sys.argv[3:]
    allr = []
    with cf.ThreadPoolExecutor(max_workers=n) as ex:
        for r in ex.map(lambda a: job(*a), enumerate(specs)):
            allr.append(r)
            print(json.dumps(r)[:1500], flush=True)
            json.dump(allr, open(out, "w"), indent=1)
    sh("git -C /verif checkout -- evidence")

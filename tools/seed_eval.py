#!/usr/bin/env python3
"""Evaluate a seeded change (mutant).
  confirm <id> <diff> <demo.c> <outjson>   build+ctest+demo in a scratch worktree of /repo (never touches /repo's files)
  detect  <id> <diff> <outjson> [check ids...]   apply to /repo, run ./check <id> (quick), undo
"""
import json, os, re, shutil, subprocess, sys, time

def sh(cmd, timeout=3600, cwd=None):
    try:
        p = subprocess.run(cmd, shell=True, cwd=cwd, stdout=subprocess.PIPE, stderr=subprocess.STDOUT, timeout=timeout)
        return p.returncode, p.stdout.decode(errors="replace")
    except subprocess.TimeoutExpired as e:
        return 124, (e.stdout or b"").decode(errors="replace") + "\n[timeout]"

def confirm(pid, diff, demo, out):
    wt = "/tmp/mv/wt_%s_%d" % (pid, os.getpid())
    res = {"property": pid, "diff": diff}
    os.makedirs("/tmp/mv", exist_ok=True)
    sh("git -C /repo worktree add --detach %s HEAD" % wt)
    try:
        rc, o = sh("git apply %s" % diff, cwd=wt)
        res["applies"] = rc == 0
        if rc != 0:
            res["apply_out"] = o[-500:]
            return res
        rc, o = sh("cmake -G Ninja -B _build -DCMAKE_BUILD_TYPE=Release > /dev/null && cmake --build _build 2>&1 | tail -3", cwd=wt)
        res["builds"] = rc == 0 and os.path.exists(wt + "/_build/libnng.so")
        if not res["builds"]:
            res["build_out"] = o[-800:]
            return res
        rc, o = sh("ctest --test-dir _build -j8 --timeout 900 2>&1 | tail -30", cwd=wt, timeout=2400)
        failed = re.findall(r"^\s*\d+ - (\S+) \(", o, re.M)
        res["ctest_first_failed"] = failed
        really = []
        for t in failed:
            if t == "nng.platform.resolver_test":
                continue
            ok = False
            for _ in range(3):
                rc2, o2 = sh("ctest --test-dir _build -R '^%s$' --timeout 900 2>&1 | tail -5" % re.escape(t), cwd=wt, timeout=1200)
                if "100% tests passed" in o2:
                    ok = True
                    break
            if not ok:
                really.append(t)
        res["ctest_failed_alone"] = really
        res["tests_pass"] = not really
        if demo:
            for tag, lib in (("mutant", wt + "/_build"), ("baseline", "/repo/_build")):
                exe = "/tmp/mv/demo_%s_%s_%d" % (pid, tag, os.getpid())
                rc, o = sh("gcc -O1 -g -D_GNU_SOURCE -I %s/include %s -o %s -L %s -lnng -lpthread -Wl,-rpath,%s" % (wt, demo, exe, lib, lib))
                if rc != 0:
                    res["demo_" + tag] = {"rc": -1, "out": "compile failed: " + o[-400:]}
                    continue
                rc, o = sh("timeout 150 %s" % exe, cwd="/tmp/mv")
                res["demo_" + tag] = {"rc": rc, "out": o[-600:]}
                os.unlink(exe)
    finally:
        sh("git -C /repo worktree remove --force %s" % wt)
        shutil.rmtree(wt, ignore_errors=True)
        json.dump(res, open(out, "w"), indent=1)
    return res

def detect(pid, diff, out, checks):
    res = {"property": pid, "diff": diff, "checks": {}}
    rc, o = sh("git -C /repo status --porcelain --untracked-files=no")
    if o.strip():
        print("refusing: /repo has local changes"); sys.exit(2)
    rc, o = sh("git -C /repo apply %s" % diff)
    if rc != 0:
        res["applies"] = False
        json.dump(res, open(out, "w"), indent=1)
        return res
    try:
        for c in checks:
            t0 = time.time()
            rc, o = sh("./check %s --tier quick" % c, cwd="/verif", timeout=5400)
            res["checks"][c] = {"rc": rc, "wall": round(time.time() - t0), "violations": re.findall(r"^VIOLATION.*$", o, re.M)[:5],
                                "violated": sorted(set(re.findall(r"assertion='PROP ([^']*)'", o)))[:12],
                                "inconclusive": re.findall(r"^INCONCLUSIVE.*$", o, re.M)[:4], "summary": (re.findall(r"^SUMMARY.*$", o, re.M) or [""])[-1]}
    finally:
        sh("git -C /repo checkout -- .")
        sh("git -C /verif checkout -- evidence")
        json.dump(res, open(out, "w"), indent=1)
    return res

if __name__ == "__main__":
    if sys.argv[1] == "confirm":
        r = confirm(sys.argv[2], sys.argv[3], sys.argv[4] if sys.argv[4] != "-" else None, sys.argv[5])
    else:
        r = detect(sys.argv[2], sys.argv[3], sys.argv[4], sys.argv[5:] or [sys.argv[2]])
    print(json.dumps(r, indent=1)[:3000])

// F27 demonstration: the N-th allocation made while a peer connects to a raw socket fails.
// Each N runs in a forked child; the parent reports children killed by a signal.
#include <nng/nng.h>
#include <pthread.h>
#include <stdatomic.h>
#include <stdio.h>
#include <stdlib.h>
#include <string.h>
#include <sys/wait.h>
#include <unistd.h>
static atomic_int armed, count, failat, injected;
static int hit(void) {
	if (!atomic_load(&armed)) return 0;
	int c = atomic_fetch_add(&count, 1);
	if (c == atomic_load(&failat)) { atomic_store(&injected, 1); return 1; }
	return 0;
}
static void *my_malloc(size_t n) { return hit() ? NULL : malloc(n); }
static void *my_calloc(size_t a, size_t b) { return hit() ? NULL : calloc(a, b); }
static void my_free(void *p, size_t n) { (void) n; free(p); }
extern int nng_rep0_open_raw(nng_socket *); extern int nng_req0_open(nng_socket *);
extern int nng_respondent0_open_raw(nng_socket *); extern int nng_surveyor0_open(nng_socket *);
extern int nng_surveyor0_open_raw(nng_socket *); extern int nng_respondent0_open(nng_socket *);
static int child(int kind, int n) {
	nng_init_params p; memset(&p, 0, sizeof p);
	p.malloc_fn = my_malloc; p.calloc_fn = my_calloc; p.free_fn = my_free;
	if (nng_init(&p) != 0) return 2;
	nng_socket a, b; char url[64];
	snprintf(url, sizeof url, "inproc://f27-%d-%d", kind, n);
	int rv = kind == 0 ? nng_rep0_open_raw(&a) : kind == 1 ? nng_respondent0_open_raw(&a) : nng_surveyor0_open_raw(&a);
	rv |= kind == 0 ? nng_req0_open(&b) : kind == 1 ? nng_surveyor0_open(&b) : nng_respondent0_open(&b);
	if (rv) return 2;
	if (nng_listen(a, url, NULL, 0)) return 2;
	atomic_store(&failat, n); atomic_store(&count, 0); atomic_store(&armed, 1);
	nng_dial(b, url, NULL, NNG_FLAG_NONBLOCK);
	nng_msleep(150);
	atomic_store(&armed, 0);
	nng_socket_close(b); nng_socket_close(a);
	nng_fini();
	return atomic_load(&injected) ? 0 : 3;
}
int main(int argc, char **argv) {
	if (argc == 3) return child(atoi(argv[1]), atoi(argv[2]));
	int bad = 0, ran = 0;
	for (int kind = 0; kind < 3; kind++)
		for (int n = 0; n < 40; n++) {
			fflush(stdout);
			pid_t pid = fork();
			if (pid == 0) { alarm(20); _exit(child(kind, n)); }
			int st; waitpid(pid, &st, 0);
			if (WIFSIGNALED(st)) { printf("FAIL: kind %d: allocation #%d failing while a peer connects: killed by signal %d\n", kind, n, WTERMSIG(st)); bad++; }
			else if (WEXITSTATUS(st) == 3) break; /* fewer than n allocations: done with this kind */
			else if (WEXITSTATUS(st) != 0) { printf("child setup problem kind %d n %d: %d\n", kind, n, WEXITSTATUS(st)); }
			ran++;
		}
	printf("%s (%d runs, %d crashed)\n", bad ? "FAIL" : "PASS", ran, bad);
	return bad ? 1 : 0;
}

// discovery sweep (not a check): the N-th allocation made during a scenario fails; children killed by a signal are reported
#include <nng/nng.h>
#include <pthread.h>
#include <stdatomic.h>
#include <stdio.h>
#include <stdlib.h>
#include <string.h>
#include <sys/wait.h>
#include <unistd.h>
static atomic_int armed, count, failat, injected;
static int hit(void) {
	if (!atomic_load(&armed)) return 0;
	int c = atomic_fetch_add(&count, 1);
	if (c == atomic_load(&failat)) { atomic_store(&injected, 1); return 1; }
	return 0;
}
static void *my_malloc(size_t n) { return hit() ? NULL : malloc(n); }
static void *my_calloc(size_t a, size_t b) { return hit() ? NULL : calloc(a, b); }
static void my_free(void *p, size_t n) { (void) n; free(p); }
#define OPEN(n) extern int nng_##n##_open(nng_socket *); extern int nng_##n##_open_raw(nng_socket *);
OPEN(req0) OPEN(rep0) OPEN(pub0) OPEN(sub0) OPEN(push0) OPEN(pull0) OPEN(pair0) OPEN(pair1) OPEN(bus0) OPEN(surveyor0) OPEN(respondent0)
typedef int (*opener)(nng_socket *);
static struct { const char *name; opener a, b; } protos[] = {
	{"req/rep", nng_rep0_open, nng_req0_open}, {"pub/sub", nng_pub0_open, nng_sub0_open}, {"push/pull", nng_pull0_open, nng_push0_open},
	{"pair1", nng_pair1_open, nng_pair1_open}, {"bus", nng_bus0_open, nng_bus0_open}, {"survey", nng_respondent0_open, nng_surveyor0_open},
	{"pair0", nng_pair0_open, nng_pair0_open}, {"xreq/xrep", nng_rep0_open_raw, nng_req0_open_raw},
};
static const char *trans[] = { "inproc://sw-%d-%d-%d", "tcp://127.0.0.1:%d", "ipc:///tmp/f33-%d-%d-%d.ipc", "ws://127.0.0.1:%d/x" };
static int child(int pi, int ti, int phase, int n) {
	nng_init_params p; memset(&p, 0, sizeof p);
	p.malloc_fn = my_malloc; p.calloc_fn = my_calloc; p.free_fn = my_free;
	if (nng_init(&p) != 0) return 2;
	nng_socket a, b; char url[96];
	atomic_store(&failat, n); atomic_store(&count, 0);
	if (phase == 0) atomic_store(&armed, 1);      /* phase 0: everything from socket open on */
	if (protos[pi].a(&a)) { return atomic_load(&injected) ? 0 : 2; }
	if (protos[pi].b(&b)) { nng_socket_close(a); return atomic_load(&injected) ? 0 : 2; }
	if (pi == 1) nng_sub0_socket_subscribe(b, "", 0);
	nng_socket_set_ms(a, NNG_OPT_RECVTIMEO, 300); nng_socket_set_ms(b, NNG_OPT_RECVTIMEO, 300);
	nng_socket_set_ms(a, NNG_OPT_SENDTIMEO, 300); nng_socket_set_ms(b, NNG_OPT_SENDTIMEO, 300);
	if (ti == 1 || ti == 3) snprintf(url, sizeof url, trans[ti], 20000 + (getpid() % 20000));
	else snprintf(url, sizeof url, trans[ti], getpid(), pi, n);
	if (nng_listen(a, url, NULL, 0) == 0) {
		if (phase == 1) atomic_store(&armed, 1);  /* phase 1: from the dial on */
		nng_dial(b, url, NULL, NNG_FLAG_NONBLOCK);
		nng_msleep(120);
		if (phase == 2) atomic_store(&armed, 1);  /* phase 2: message exchange on an established connection */
		nng_msg *m;
		nng_socket snd = (pi == 0 || pi == 5 || pi == 7 || pi == 2) ? b : a, rcv = (snd.id == a.id) ? b : a;
		if (nng_msg_alloc(&m, 100) == 0) { if (nng_sendmsg(snd, m, 0) != 0) nng_msg_free(m); }
		if (nng_recvmsg(rcv, &m, 0) == 0) { if (pi == 0 || pi == 5) { if (nng_sendmsg(rcv, m, 0) != 0) nng_msg_free(m); if (nng_recvmsg(snd, &m, 0) == 0) nng_msg_free(m); } else nng_msg_free(m); }
		nng_socket_set_int(a, NNG_OPT_RECVBUF, 8); nng_socket_set_int(b, NNG_OPT_SENDBUF, 8);
	}
	atomic_store(&armed, 0);
	nng_socket_close(b); nng_socket_close(a);
	nng_fini();
	return atomic_load(&injected) ? 0 : 3;
}
int main(int argc, char **argv) {
	if (argc == 5) return child(atoi(argv[1]), atoi(argv[2]), atoi(argv[3]), atoi(argv[4]));
	int bad = 0, ran = 0;
	int ti = argc > 1 ? atoi(argv[1]) : 0;
	for (int pi = 0; pi < 8; pi++)
		for (int phase = 0; phase < 3; phase++)
			for (int n = 0; n < 400; n++) {
				fflush(stdout);
				pid_t pid = fork();
				if (pid == 0) { alarm(20); _exit(child(pi, ti, phase, n)); }
				int st; waitpid(pid, &st, 0); ran++;
				if (WIFSIGNALED(st)) { printf("CRASH %s tran %d phase %d alloc #%d: signal %d   (./sweep %d %d %d %d)\n", protos[pi].name, ti, phase, n, WTERMSIG(st), pi, ti, phase, n); bad++; }
				else if (WEXITSTATUS(st) == 3) break;
			}
	printf("%d runs, %d crashed\n", ran, bad);
	return bad ? 1 : 0;
}

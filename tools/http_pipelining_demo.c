// F35 demonstration: two HTTP requests sent in one segment (pipelining) vs. in two segments.
#include <nng/nng.h>
#include <nng/http.h>
#include <arpa/inet.h>
#include <netinet/in.h>
#include <stdio.h>
#include <stdlib.h>
#include <string.h>
#include <sys/socket.h>
#include <unistd.h>
static int hits_a, hits_b;
static void ha(nng_http *c, void *arg, nng_aio *aio) { (void) arg; hits_a++; nng_http_set_status(c, 200, NULL); nng_http_copy_body(c, "A", 1); nng_aio_finish(aio, 0); }
static void hb(nng_http *c, void *arg, nng_aio *aio) { (void) arg; hits_b++; nng_http_set_status(c, 200, NULL); nng_http_copy_body(c, "B", 1); nng_aio_finish(aio, 0); }
static int run(int port, int split) {
	int fd = socket(AF_INET, SOCK_STREAM, 0); struct sockaddr_in sa; memset(&sa, 0, sizeof sa);
	sa.sin_family = AF_INET; sa.sin_port = htons(port); sa.sin_addr.s_addr = htonl(INADDR_LOOPBACK);
	if (connect(fd, (struct sockaddr *) &sa, sizeof sa)) return -1;
	const char *r1 = "GET /a HTTP/1.1\r\nHost: x\r\n\r\n", *r2 = "GET /b HTTP/1.1\r\nHost: x\r\n\r\n";
	char both[256]; snprintf(both, sizeof both, "%s%s", r1, r2);
	if (split) { write(fd, r1, strlen(r1)); usleep(300000); write(fd, r2, strlen(r2)); } else write(fd, both, strlen(both));
	char buf[4096]; size_t n = 0; struct timeval tv = {1, 0}; setsockopt(fd, SOL_SOCKET, SO_RCVTIMEO, &tv, sizeof tv);
	for (;;) { ssize_t k = read(fd, buf + n, sizeof buf - 1 - n); if (k <= 0) break; n += k; }
	buf[n] = 0; close(fd);
	int ok200 = 0; for (char *p = buf; (p = strstr(p, "HTTP/1.1 200")) != NULL; p++) ok200++;
	return ok200;
}
int main(void) {
	nng_init(NULL);
	nng_http_server *s; nng_url *u; nng_http_handler *h1, *h2; int port = 0;
	if (nng_url_parse(&u, "http://127.0.0.1:0") || nng_http_server_hold(&s, u)) return 2;
	if (nng_http_handler_alloc(&h1, "/a", ha) || nng_http_handler_alloc(&h2, "/b", hb)) return 2;
	if (nng_http_server_add_handler(s, h1) || nng_http_server_add_handler(s, h2) || nng_http_server_start(s)) return 2;
	if (nng_http_server_get_port(s, &port)) return 2;
	int a = run(port, 1); int hb1 = hits_b;
	int b = run(port, 0); int hb2 = hits_b - hb1;
	printf("two segments: %d responses with status 200, /b reached %d time(s)\none segment : %d responses with status 200, /b reached %d time(s)\n", a, hb1, b, hb2);
	if (a == 2 && b == 2 && hb1 == 1 && hb2 == 1) { printf("PASS\n"); return 0; }
	printf("FAIL: the same byte stream decodes differently depending on how it is split\n"); return 1;
}

"""setup: derive the library's -D set from /repo's CMake files (cached) and
check the tools are present.  Everything else is rebuilt by each check."""
import shutil, sys
from . import core
for t in ("cbmc", "goto-cc", "gcc", "cmake"):
    if shutil.which(t) is None:
        print("missing tool", t); sys.exit(1)
d = core.get_defines()
print("defines:", len(d))

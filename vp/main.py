"""check entry point:  ./check <Cxx> [--tier quick|thorough] [--only regex] [--replay path]"""
import argparse
import importlib
import json
import os
import re
import subprocess
import sys
import time

from . import core
from .core import Ctx, log, VERIF, OUT


def load_findings():
    p = os.path.join(VERIF, "known_findings.json")
    if not os.path.exists(p):
        return []
    with open(p) as f:
        return json.load(f).get("findings", [])


def match_finding(findings, prop, q, rep):
    for f in findings:
        if f.get("property") != prop or f.get("status") != "open":
            continue
        m = f.get("match", {})
        if "query" in m and not re.search(m["query"], q.name):
            continue
        if "desc" in m and not re.search(m["desc"], rep.get("desc", "") + " " + rep.get("detail", "")):
            continue
        if "function" in m and not re.search(m["function"], rep.get("function", "") + " " + rep.get("property", "")):
            continue
        return f
    return None


def main(argv=None):
    ap = argparse.ArgumentParser()
    ap.add_argument("prop")
    ap.add_argument("--tier", default=os.environ.get("VERIF_TIER", "quick"))
    ap.add_argument("--only", default=None)
    ap.add_argument("--replay", default=None)
    ap.add_argument("--list", action="store_true")
    ap.add_argument("--keep", action="store_true")
    ap.add_argument("--timeout", type=int, default=None)
    a = ap.parse_args(argv)
    tier = a.tier if a.tier in ("quick", "thorough") else "quick"
    try:
        seed = int(os.environ.get("VERIF_SEED", "0"))
    except ValueError:
        seed = 0
    prop = a.prop
    if a.replay:
        return do_replay(a.replay)
    mod = importlib.import_module("props.%s" % prop)
    t0 = time.time()
    ctx = Ctx(prop, tier, seed)
    try:
        queries = mod.queries(tier)
        if a.only:
            queries = [q for q in queries if re.search(a.only, q.name)]
        if a.timeout:
            for q in queries:
                q.timeout = a.timeout
        if a.list:
            for q in queries:
                print(q.name, q.params)
            return 0
        # seed only permutes the order queries are started in
        if seed:
            import random
            rnd = random.Random(seed)
            rnd.shuffle(queries)
        pre = getattr(mod, "pre", None)
        pre_info = pre(ctx, tier) if pre else None
        results = ctx.run_all(queries)
        rc = report(mod, prop, tier, seed, ctx, results, time.time() - t0, pre_info, partial=bool(a.only))
    finally:
        if not a.keep:
            ctx.close()
        else:
            log("kept scratch dir", ctx.tmp)
    return rc


def save_replay(prop, q, rep, ctx):
    d = os.path.join(OUT, "replays", prop)
    os.makedirs(d, exist_ok=True)
    name = re.sub(r"[^A-Za-z0-9_.-]", "_", q.name + "-" + rep["property"])
    p = os.path.join(d, name + ".json")
    with open(p, "w") as f:
        json.dump({
            "property_id": prop, "query": q.name, "harness": q.harness, "tus": q.tus,
            "env": q.env, "defs": q.defs, "cdefs": q.cdefs, "cbmc_property": rep["property"],
            "description": rep["desc"], "site": "%s:%s" % (rep["file"], rep["line"]),
            "values": rep.get("values", []), "native_detail": rep.get("detail", ""),
            "native_output": rep.get("native_out", ""),
        }, f, indent=1)
    return p


def do_replay(path):
    with open(path) as f:
        r = json.load(f)
    q = core.Query(r["query"], r["harness"], tus=r["tus"], env=r["env"], defs=r["defs"], cdefs=r.get("cdefs", ()))
    ctx = Ctx(r["property_id"], "quick", 0)
    try:
        exe = ctx.native_build(q)
        vf = os.path.join(ctx.tmp, "vals.txt")
        with open(vf, "w") as f:
            f.write("\n".join(str(v) for v in r["values"]) + "\n")
        out = core.run_native(exe, vf)
        print(out.get("native_out", ""))
        if out["reproduced"]:
            print("VIOLATION property=%s replay=%s" % (r["property_id"], path))
            return 1
        print("replay did not reproduce:", out.get("detail"))
        return 0
    finally:
        ctx.close()


def report(mod, prop, tier, seed, ctx, results, wall, pre_info, partial=False):
    findings = load_findings()
    violations = []
    known = []
    inconclusive = []
    triaged = []
    excl_runs = 0
    for r in results:
        q = r.q
        if r.status == "inconclusive":
            inconclusive.append((q.name, r.reason))
        if r.status == "fail":
            reps = [rep for rep in r.replays if rep.get("reproduced")]
            bad = [rep for rep in r.replays if not rep.get("reproduced")]
            for rep in bad:
                inconclusive.append((q.name, "counterexample for '%s' (%s:%s) did not reproduce natively: %s" % (
                    rep["desc"], rep["file"], rep["line"], rep.get("detail", ""))))
            if not r.replays:
                inconclusive.append((q.name, "failed without replay"))
            if not reps:
                continue
            # all failed assertions of the query (not only the replayed ones) must be covered by one open finding
            fnd = None
            allf = [{"desc": e[1], "property": e[0], "function": e[5], "detail": ""} for e in r.failed]
            cands = [match_finding(findings, prop, q, x) for x in allf]
            if cands and all(c is not None for c in cands) and len(set(c["id"] for c in cands)) == 1:
                fnd = cands[0]
            if fnd is not None and fnd.get("exclude_define"):
                # the finding names an input class; the harness is re-run with that class excluded so that any
                # *other* violation of the property on this skeleton is still reported
                q2 = core.Query(q.name + "+excl", q.harness, tus=q.tus, env=q.env, defs=dict(q.defs), unwind=q.unwind,
                                unwindset=q.unwindset, flags=q.flags, timeout=q.timeout, mem_gb=q.mem_gb, params=q.params,
                                group=q.group, cdefs=q.cdefs, solver=q.solver, leak=q.leak, unwind_rules=q.unwind_rules)
                q2.defs[fnd["exclude_define"]] = 1
                r2 = ctx.run_query(q2)
                excl_runs += 1
                log("[%s] %-46s %-12s (known finding %s excluded)" % (prop, q2.name, r2.status, fnd["id"]))
                if r2.status == "pass":
                    known.append((fnd, q, reps[0]))
                    r.excluded_pass = True
                    continue
                if r2.status == "inconclusive":
                    inconclusive.append((q2.name, r2.reason))
                    continue
                for rep in r2.replays:
                    if rep.get("reproduced"):
                        violations.append((q2, rep, save_replay(prop, q2, rep, ctx)))
                    else:
                        inconclusive.append((q2.name, "counterexample did not reproduce natively: %s" % rep.get("detail", "")))
                continue
            if fnd is not None:
                known.append((fnd, q, reps[0]))
                continue
            for rep in reps:
                violations.append((q, rep, save_replay(prop, q, rep, ctx)))
    # vacuity across the sweep: every witness of a harness must be reached by at
    # least one query of that harness (each query already needs >= 1 witness)
    if not partial and getattr(mod, "GROUP_WITNESS", True):
        groups = {}
        for r in results:
            if r.q.group.startswith("~"):
                continue  # a mode of a harness shared with another property: only the per-query witness rule applies
            g = groups.setdefault(r.q.group, {"ok": set(), "missing": set()})
            g["ok"].update(r.witness_ok)
            g["missing"].update(r.witness_missing)
        for gname, g in groups.items():
            never = sorted(g["missing"] - g["ok"])
            if never:
                inconclusive.append((gname, "vacuous: witnesses never reached by any query of this harness: %s" % ", ".join(never)))
    if pre_info and pre_info.get("errors"):
        for e in pre_info["errors"]:
            inconclusive.append(("pre", e))

    # ---------------- evidence ----------------
    nq = len(results)
    nontrivial = sum(1 for r in results if r.status == "pass" and r.witness_ok)
    obligations = sum(r.nprops for r in results)
    discharged = sum(sum(1 for e in r.props if e[2] == "SUCCESS" and not e[1].startswith("WITNESS")) for r in results)
    witnesses = sum(len(r.witness_ok) for r in results)
    funcs = set()
    for r in results:
        funcs |= r.functions
    repo_funcs = sorted(f for f in funcs if not f.startswith(("vh_", "env_", "harness", "__CPROVER", "h_", "ref_", "mon_")))
    samples = []
    for r in results[:6]:
        samples.append({
            "query": r.q.name, "harness": r.q.harness, "shape": r.q.params,
            "unwind": r.q.unwind, "unwindset": r.q.unwindset, "status": r.status,
            "assertions": r.nprops, "witnesses_reached": r.witness_ok[:6],
            "solver_s": round(r.solver_s, 2), "wall_s": round(r.wall, 2), "rss_mb": r.rss_mb,
        })
    ev = {
        "property_id": prop,
        "tier": tier,
        "seed": seed,
        "level": getattr(mod, "LEVEL", "model_checking"),
        "coverage": {
            "evaluations": nq,
            "distinct_nontrivial": nontrivial,
            "rule": getattr(mod, "RULE", "") + " A query is one harness x one concrete shape; it is counted "
                    "non-trivial only if CBMC returned a verdict for every assertion, every unwinding assertion held and every "
                    "reachability witness of the harness was reached (assert(0) reported FAILED).",
            "samples": samples,
            "obligations": obligations,
            "discharged": discharged,
            "witnesses_reached": witnesses,
            "queries_inconclusive": len([1 for r in results if r.status == "inconclusive"]),
            "queries_failed": len([1 for r in results if r.status == "fail"]),
            "traces_validated_against_impl": sum(len(r.replays) for r in results),
            "solver_time_s": round(sum(r.solver_s for r in results), 2),
            "ssa_steps_total": sum(r.steps for r in results),
            "sat_variables_max": max([r.vars for r in results] + [0]),
            "query_wall_s_sum": round(sum(r.wall for r in results), 2),
            "peak_rss_mb": max([r.rss_mb for r in results] + [0]),
            "functions_encoded": repo_funcs,
            "units": getattr(mod, "UNITS", []),
            "bounds": getattr(mod, "BOUNDS", ""),
            "outside_claim": getattr(mod, "OUTSIDE", ""),
            "checker_cmd": "cbmc <goto binary> --function harness --unwinding-assertions --drop-unused-functions --no-malloc-may-fail ...",
            "exhaustive": False,
            "per_query": [{"q": r.q.name, "st": r.status, "n": r.nprops, "w": len(r.witness_ok),
                           "s": round(r.solver_s, 2), "t": round(r.wall, 1), "why": r.reason[:160]} for r in results],
            "known_findings_matched": [f["id"] for f, _, _ in known],
            "triaged_ub": triaged,
        },
        "assumptions": getattr(mod, "ASSUMPTIONS", []),
        "wall_s": round(wall, 2),
        "violations": len(violations),
    }
    if pre_info:
        ev["coverage"]["pre"] = pre_info.get("info", {})
    if not partial:
        os.makedirs(os.path.join(VERIF, "evidence"), exist_ok=True)
        with open(os.path.join(VERIF, "evidence", prop + ".json"), "w") as f:
            json.dump(ev, f, indent=1)

    # ---------------- verdict ----------------
    seenk = set()
    for f, q, rep in known:
        if f["id"] in seenk:
            continue
        seenk.add(f["id"])
        print("KNOWN-FINDING: property=%s %s (%s)" % (prop, f.get("what", f["id"]), f["id"]))
    for q, rep, path in violations:
        log("  violated: query=%s assertion='%s' at %s:%s native: %s" % (q.name, rep["desc"], rep["file"], rep["line"], rep.get("detail")))
    for q, rep, path in violations[:10]:
        print("VIOLATION property=%s replay=%s" % (prop, path))
    for name, why in inconclusive:
        print("INCONCLUSIVE property=%s query=%s: %s" % (prop, name, why[:400]))
    print("SUMMARY property=%s tier=%s queries=%d pass=%d nontrivial=%d assertions=%d violations=%d known=%d inconclusive=%d wall=%.1fs solver=%.1fs" % (
        prop, tier, nq, len([1 for r in results if r.status == "pass"]), nontrivial, obligations,
        len(violations), len(seenk), len(inconclusive), wall, sum(r.solver_s for r in results)))
    if violations:
        return 1
    if inconclusive:
        return 2
    return 0


if __name__ == "__main__":
    sys.exit(main())

"""Driver for solver-based checking of the real nng code with CBMC.

Every query = one harness (C file under /verif/harness that #includes or links
real translation units from /repo/src) + a concrete *shape* (given as -D
defines) + loop bounds.  Everything that is not shape is symbolic; CBMC decides
all assertions of the query for every value.  Witness assertions ("WITNESS x",
`assert(0)` at the points the harness must reach) have to come back FAILED,
otherwise the query is vacuous and counts as an error of the check.

A failed property is replayed natively (gcc + ASan/UBSan, the same harness
source, the same real TUs, inputs taken from the CBMC trace) before it is
reported.
"""
import concurrent.futures as cf
import hashlib
import json
import os
import re
import resource
import shutil
import subprocess
import sys
import tempfile
import threading
import time

REPO = os.environ.get("NNG_REPO", "/repo")
VERIF = os.path.dirname(os.path.dirname(os.path.abspath(__file__)))
SRC = os.path.join(REPO, "src")
CACHE = os.path.join(VERIF, ".cache")
OUT = os.path.join(VERIF, "out")
NCPU = int(os.environ.get("VERIF_JOBS", str(os.cpu_count() or 8)))
TOTAL_MEM_GB = int(os.environ.get("VERIF_MEM_GB", "48"))


def log(*a):
    print(*a, file=sys.stderr, flush=True)


# --------------------------------------------------------------------------
# build configuration: the -D set the library is really built with
# --------------------------------------------------------------------------
def _cmake_fingerprint():
    h = hashlib.sha256()
    for root, dirs, files in os.walk(REPO):
        dirs[:] = [d for d in dirs if d not in (".git", "_build", "docs", "demo")]
        for f in sorted(files):
            if f == "CMakeLists.txt" or f.endswith(".cmake") or f.endswith(".cmake.in"):
                p = os.path.join(root, f)
                h.update(p.encode())
                with open(p, "rb") as fh:
                    h.update(fh.read())
    return h.hexdigest()[:16]


def get_defines():
    """-D flags of the real library build, re-derived from /repo's CMake files.
    Cached under /verif/.cache keyed by a hash of all CMake inputs."""
    os.makedirs(CACHE, exist_ok=True)
    fp = _cmake_fingerprint()
    cpath = os.path.join(CACHE, "defines-%s.json" % fp)
    if os.path.exists(cpath):
        with open(cpath) as f:
            return json.load(f)
    tmp = tempfile.mkdtemp(prefix="nngverif-cfg-")
    try:
        r = subprocess.run(
            ["cmake", "-G", "Ninja", "-S", REPO, "-B", tmp,
             "-DCMAKE_EXPORT_COMPILE_COMMANDS=ON", "-DCMAKE_BUILD_TYPE=RelWithDebInfo",
             "-DNNG_TESTS=OFF", "-DNNG_TOOLS=OFF"],
            stdout=subprocess.PIPE, stderr=subprocess.STDOUT, text=True)
        if r.returncode != 0:
            raise RuntimeError("cmake configure failed:\n" + r.stdout[-2000:])
        with open(os.path.join(tmp, "compile_commands.json")) as f:
            cc = json.load(f)
        cmd = None
        for e in cc:
            if e["file"].endswith("src/core/aio.c"):
                cmd = e["command"]
                break
        if cmd is None:
            raise RuntimeError("aio.c not in compile_commands.json")
        defs = [t for t in cmd.split() if t.startswith("-D")]
        # NDEBUG comes from the build type flags
        if "-DNDEBUG" not in defs:
            defs.append("-DNDEBUG")
        defs = [d for d in defs if d not in ("-Dnng_EXPORTS",)]
    finally:
        shutil.rmtree(tmp, ignore_errors=True)
    with open(cpath, "w") as f:
        json.dump(defs, f)
    return defs


# --------------------------------------------------------------------------
# standard-level undefined behaviour that is harmless on every supported
# platform and that no sanitizer confirms (DESIGN R6).  CBMC treats a failing
# pointer check as fatal (everything after it becomes UNKNOWN), so the pointer
# checks are switched off for exactly these source lines, in a scratch copy of
# the real file regenerated on every run.  (file, regex of first line, number
# of lines covered, reason)
TRIAGE = {
    "core/message.c": [
        (r"^\s*if \(\(ch->ch_ptr >= ch->ch_buf\)", 3,
         "R6: `ch_ptr >= ch_buf` compares two NULL pointers relationally on a fresh chunk"),
    ],
}


def make_triaged(tmp):
    """scratch copies of the triaged real files with `#pragma CPROVER check
    disable \"pointer\"` around the listed lines; returns (dir, sites)."""
    d = os.path.join(tmp, "triaged")
    sites = []
    for rel, rules in TRIAGE.items():
        src = os.path.join(SRC, rel)
        if not os.path.exists(src):
            continue
        with open(src) as f:
            lines = f.read().split("\n")
        out = []
        i = 0
        while i < len(lines):
            hit = None
            for rx, n, why in rules:
                if re.search(rx, lines[i]):
                    hit = (n, why)
                    break
            if hit:
                n, why = hit
                out.append("#pragma CPROVER check push")
                out.append('#pragma CPROVER check disable "pointer"')
                out.extend(lines[i:i + n])
                out.append("#pragma CPROVER check pop")
                out.append("#line %d" % (i + n + 1))
                sites.append("%s:%d %s" % (rel, i + 1, why))
                i += n
            else:
                out.append(lines[i])
                i += 1
        dst = os.path.join(d, rel)
        os.makedirs(os.path.dirname(dst), exist_ok=True)
        with open(dst, "w") as f:
            f.write('#line 1 "%s"\n' % src)
            f.write("\n".join(out))
    return d, sites


class Query:
    def __init__(self, name, harness, tus=(), env=(), defs=None, unwind=None,
                 unwindset=(), flags=(), timeout=120, mem_gb=6, tier="quick",
                 params=None, group=None, expect_fail=(), cdefs=(), solver=None,
                 leak=False, nowitness=False, objbits=None, unwind_rules=(), allow_pruned=False, concrete=False):
        self.name = name
        self.harness = harness          # relative to /verif/harness
        self.tus = list(tus)            # relative to /repo/src
        self.env = list(env)            # relative to /verif/env
        self.defs = dict(defs or {})    # shape defines for the harness
        self.unwind = unwind
        self.unwindset = list(unwindset)
        self.flags = list(flags)
        self.timeout = timeout
        self.mem_gb = mem_gb
        self.tier = tier
        self.params = params if params is not None else dict(self.defs)
        self.group = group or harness
        self.expect_fail = list(expect_fail)
        self.cdefs = list(cdefs)        # extra -D for every TU of this query
        self.solver = solver
        self.leak = leak
        self.nowitness = nowitness
        self.objbits = objbits
        # [(function regex, regex on the source text of the loop head (3 lines), bound)]:
        # resolved to CBMC loop ids after linking, so that they survive edits of /repo
        self.unwind_rules = list(unwind_rules)
        # the environment models' own tables (aio table 24, callback queue 24, reap queue 16) are larger than the
        # default bound used for loops of the code under test
        if not any(r[0] == r"^env_" for r in self.unwind_rules) and (self.unwind is None or self.unwind < 26):
            self.unwind_rules.append((r"^env_", r".", 26))
        # a query whose every path is cut by an assumption (a schedule that is not executable) is not an error
        self.allow_pruned = allow_pruned
        # the query has no symbolic input at all (shape fully concrete): if CBMC does not finish, the same harness is
        # executed natively (ASan/UBSan) as a last resort; a failure there is a replayed counterexample
        self.concrete = concrete


class Result:
    def __init__(self, q):
        self.q = q
        self.status = None      # pass | fail | inconclusive
        self.reason = ""
        self.props = []         # (id, desc, status, file, line, function)
        self.failed = []        # non-witness failures
        self.witness_ok = []
        self.witness_missing = []
        self.wall = 0.0
        self.solver_s = 0.0
        self.rss_mb = 0
        self.nprops = 0
        self.functions = set()
        self.replays = []       # dicts
        self.vars = 0
        self.steps = 0


class Ctx:
    """One run of one property's check."""

    def __init__(self, prop, tier, seed):
        self.prop = prop
        self.tier = tier
        self.seed = seed
        self.defs = get_defines()
        self.tmp = tempfile.mkdtemp(prefix="nngverif-%s-" % prop)
        self.triaged_dir, self.triaged_sites = make_triaged(self.tmp)
        self._objlock = threading.Lock()
        self._objs = {}
        self._memlock = threading.Condition()
        self._mem_used = 0
        self.t0 = time.time()

    def close(self):
        shutil.rmtree(self.tmp, ignore_errors=True)

    # ---- compilation ----------------------------------------------------
    def _incs(self):
        return ["-I" + SRC, "-I" + os.path.join(REPO, "include"),
                "-I" + os.path.join(VERIF, "vh"), "-I" + os.path.join(VERIF, "env"),
                "-I" + os.path.join(VERIF, "harness")]

    def _cflags(self, extra):
        # NNG_HAVE_STDATOMIC is dropped: the plain-field atomic structs are used
        # and env_sync.c implements them sequentially (stated in every evidence file)
        defs = [d for d in self.defs if not d.startswith("-DNNG_HAVE_STDATOMIC")]
        return ["-std=gnu99"] + defs + ["-D__NO_CTYPE", "-DNNG_VERIF_HARNESS"] + list(extra) + self._incs()

    def gobj(self, path, extra=()):
        """goto-cc one file (cached per run)."""
        extra = tuple(extra)
        if path.startswith(SRC + "/"):
            rel = path[len(SRC) + 1:]
            if rel in TRIAGE:
                extra = extra + ("-I" + os.path.dirname(path),)
                path = os.path.join(self.triaged_dir, rel)
        else:
            # harness: triaged copies shadow the real files for #include "core/x.c"
            extra = ("-I" + self.triaged_dir,) + extra + tuple(
                "-I" + os.path.join(SRC, os.path.dirname(r)) for r in TRIAGE)
        key = ("g", path, tuple(extra))
        with self._objlock:
            ent = self._objs.get(key)
            if ent is None:
                ent = self._objs[key] = {"lock": threading.Lock(), "out": None}
        with ent["lock"]:
            if ent["out"] is None:
                out = os.path.join(self.tmp, "g%s.o" % hashlib.md5(repr(key).encode()).hexdigest()[:12])
                cmd = ["goto-cc", "-c", path, "-o", out, "-DVH_CBMC"] + self._cflags(extra)
                r = subprocess.run(cmd, stdout=subprocess.PIPE, stderr=subprocess.STDOUT, text=True)
                if r.returncode != 0:
                    raise RuntimeError("goto-cc failed for %s:\n%s" % (path, r.stdout[-3000:]))
                ent["out"] = out
            return ent["out"]

    def files_of(self, q):
        h = os.path.join(VERIF, "harness", q.harness)
        tus = [os.path.join(SRC, t) for t in q.tus]
        env = [os.path.join(VERIF, "env", e) for e in q.env]
        return h, tus, env

    def qdefs(self, q):
        out = []
        for k, v in sorted(q.defs.items()):
            out.append("-D%s" % k if v is None else "-D%s=%s" % (k, v))
        return out

    def link(self, q):
        h, tus, env = self.files_of(q)
        cd = tuple(q.cdefs)
        objs = [self.gobj(h, tuple(self.qdefs(q)) + cd)]
        objs += [self.gobj(t, cd) for t in tus]
        objs += [self.gobj(e, cd) for e in env]
        out = os.path.join(self.tmp, "q-%s.gb" % re.sub(r"[^A-Za-z0-9_.-]", "_", q.name))
        r = subprocess.run(["goto-cc", "-o", out] + objs, stdout=subprocess.PIPE,
                           stderr=subprocess.STDOUT, text=True)
        if r.returncode != 0:
            raise RuntimeError("goto-cc link failed for %s:\n%s" % (q.name, r.stdout[-3000:]))
        return out

    # ---- running cbmc ---------------------------------------------------
    def _acquire(self, gb):
        with self._memlock:
            while self._mem_used + gb > TOTAL_MEM_GB and self._mem_used > 0:
                self._memlock.wait()
            self._mem_used += gb

    def _release(self, gb):
        with self._memlock:
            self._mem_used -= gb
            self._memlock.notify_all()

    def resolve_unwind_rules(self, q, gb):
        if not q.unwind_rules:
            return []
        r = subprocess.run(["goto-instrument", "--show-loops", "--json-ui", gb], stdout=subprocess.PIPE,
                           stderr=subprocess.DEVNULL, text=True)
        out = []
        try:
            msgs = json.loads(r.stdout)
        except Exception:
            return out
        cache = {}
        for m in msgs:
            if not (isinstance(m, dict) and "loops" in m):
                continue
            for l in m["loops"]:
                sl = l.get("sourceLocation", {})
                fn, fl, ln = sl.get("function", ""), sl.get("file", ""), sl.get("line")
                if not ln:
                    continue
                if fl not in cache:
                    try:
                        with open(fl if os.path.isabs(fl) else os.path.join(sl.get("workingDirectory", ""), fl), errors="replace") as f:
                            cache[fl] = f.read().split("\n")
                    except Exception:
                        cache[fl] = []
                lines = cache[fl]
                i = int(ln) - 1
                text = " ".join(lines[max(0, i - 1):i + 3])
                for frx, trx, bound in q.unwind_rules:
                    if re.search(frx, fn) and re.search(trx, text):
                        out.append("%s:%d" % (l["name"], bound))
                        break
        return out

    def cbmc_cmd(self, q, gb, extra=()):
        cmd = ["cbmc", gb, "--function", "harness", "--json-ui", "--verbosity", "8",
               "--unwinding-assertions", "--drop-unused-functions",
               "--no-malloc-may-fail", "--signed-overflow-check",
               "--undefined-shift-check", "--object-bits", "12", "--max-field-sensitivity-array-size", "256", "--conversion-check" if False else "--div-by-zero-check"]
        if q.unwind is not None:
            cmd += ["--unwind", str(q.unwind)]
        uw = list(q.unwindset) + self.resolve_unwind_rules(q, gb)
        if uw:
            cmd += ["--unwindset", ",".join(uw)]
        if q.leak:
            cmd += ["--memory-leak-check"]
        if q.objbits:
            cmd += ["--object-bits", str(q.objbits)]
        if q.solver == "cadical":
            cmd += ["--sat-solver", "cadical"]
        elif q.solver == "kissat":
            cmd += ["--external-sat-solver", "kissat"]
        elif q.solver in ("z3", "cvc5"):
            cmd += ["--" + q.solver]
        cmd += list(q.flags) + list(extra)
        return cmd

    def run_cbmc(self, q, gb, extra=(), timeout=None):
        cmd = self.cbmc_cmd(q, gb, extra)
        mem = q.mem_gb
        self._acquire(mem)
        t0 = time.time()
        try:
            def lim():
                resource.setrlimit(resource.RLIMIT_AS, (mem << 30, mem << 30))
                os.setsid()
            p = subprocess.Popen(cmd, stdout=subprocess.PIPE, stderr=subprocess.PIPE,
                                 preexec_fn=lim, cwd=self.tmp)
            try:
                so, se = p.communicate(timeout=timeout or q.timeout)
                to = False
            except subprocess.TimeoutExpired:
                try:
                    os.killpg(p.pid, 9)
                except Exception:
                    p.kill()
                so, se = p.communicate()
                to = True
            ru = resource.getrusage(resource.RUSAGE_CHILDREN)
        finally:
            self._release(mem)
        return so.decode("utf-8", "replace"), se.decode("utf-8", "replace"), p.returncode, to, time.time() - t0, ru.ru_maxrss // 1024

    # ---- one query -------------------------------------------------------
    def run_query(self, q):
        res = Result(q)
        t0 = time.time()
        try:
            gb = self.link(q)
        except Exception as e:  # build failure
            res.status = "inconclusive"
            res.reason = "build: %s" % e
            res.wall = time.time() - t0
            return res
        so, se, rc, to, wall, rss = self.run_cbmc(q, gb)
        res.wall = time.time() - t0
        res.rss_mb = rss
        if to:
            # The proof pass did not finish.  A bounded-depth bug-hunting pass (no verdict
            # if it finds nothing: unexplored paths) can still produce a counterexample,
            # which is replayed natively before it is reported.
            res.status = "inconclusive"
            res.reason = "timeout after %ds" % q.timeout
            so2, se2, rc2, to2, wall2, rss2 = self.run_cbmc(q, gb, ["--depth", "6000", "--stop-on-fail", "--trace"], timeout=min(180, q.timeout))
            if not to2:
                try:
                    msgs2 = json.loads(so2)
                except Exception:
                    msgs2 = []
                hunt = Result(q)
                self._parse_stop_on_fail(hunt, msgs2)
                if hunt.failed:
                    res.failed = hunt.failed
                    res.props = hunt.props
                    res.nprops = len(hunt.props)
                    res.status = "fail"
                    res.reason += "; counterexample found by the depth-bounded pass"
                    self._replay_from_trace(res, hunt)
            if res.status != "fail" and q.concrete:
                try:
                    exe = self.native_build(q)
                    vf = os.path.join(self.tmp, "vals-concrete-%s.txt" % re.sub(r"\W", "_", q.name))
                    open(vf, "w").write("\n")
                    out = run_native(exe, vf)
                    if out.get("reproduced"):
                        ent = ("native.concrete", "concrete execution of the harness failed: " + out.get("detail", ""), "FAILURE", "", "", "harness")
                        res.failed = [ent]
                        res.status = "fail"
                        res.reason += "; failure found by concrete native execution of the (input-free) harness"
                        rep = {"property": ent[0], "desc": ent[1], "file": "", "line": "", "function": "harness", "values": []}
                        rep.update(out)
                        res.replays.append(rep)
                    elif out.get("native_rc") == 0:
                        res.reason += "; concrete native execution passes (CBMC gave no verdict)"
                except Exception as e:
                    res.reason += "; native fallback failed: %s" % str(e)[-200:]
            res.wall = time.time() - t0
            return res
        try:
            msgs = json.loads(so)
        except Exception:
            res.status = "inconclusive"
            res.reason = "cbmc output not JSON (rc=%s): %s %s" % (rc, so[-600:], se[-600:])
            return res
        self._parse(res, msgs)
        if res.status is None:
            res.status = "inconclusive"
            res.reason = "no result from cbmc (rc=%s): %s" % (rc, _last_msgs(msgs))
            return res
        # failed properties: get a trace and replay
        if res.failed:
            self._replay_failures(res, gb)
        return res

    def _parse(self, res, msgs):
        q = res.q
        have = False
        for m in msgs:
            if not isinstance(m, dict):
                continue
            if m.get("messageType") == "STATUS-MESSAGE":
                t = m.get("messageText", "")
                mm = re.match(r"Runtime decision procedure: ([0-9.]+)s", t)
                if mm:
                    res.solver_s += float(mm.group(1))
                mm = re.match(r"size of program expression: (\d+) steps", t)
                if mm:
                    res.steps = max(res.steps, int(mm.group(1)))
                mm = re.match(r"(\d+) variables, (\d+) clauses", t)
                if mm:
                    res.vars = max(res.vars, int(mm.group(1)))
            if m.get("messageType") == "ERROR":
                res.reason += m.get("messageText", "")[:300] + "; "
            if "result" in m:
                have = True
                for r in m["result"]:
                    desc = r.get("description", "")
                    sl = r.get("sourceLocation", {}) or {}
                    ent = (r["property"], desc, r["status"], sl.get("file", ""), sl.get("line", ""), sl.get("function", ""))
                    res.props.append(ent)
                    fn = r["property"].split(".")[0]
                    res.functions.add(fn)
        if not have:
            return
        res.nprops = len(res.props)
        unwind_fail = []
        unknown = []
        for ent in res.props:
            pid, desc, st = ent[0], ent[1], ent[2]
            if desc.startswith("WITNESS"):
                if st == "FAILURE":
                    res.witness_ok.append(desc)
                else:
                    res.witness_missing.append(desc)
            elif st == "SUCCESS":
                pass
            elif st == "FAILURE":
                if "unwinding assertion" in desc or ".unwind." in pid:
                    unwind_fail.append(pid)
                elif any(re.search(x, desc) or re.search(x, pid) for x in q.expect_fail):
                    pass
                else:
                    res.failed.append(ent)
            else:
                unknown.append(pid)
        if unknown and not res.failed and not unwind_fail:
            res.status = "inconclusive"
            res.reason += "status UNKNOWN for %d properties (%s ...); " % (len(unknown), unknown[0])
        if unwind_fail and not res.failed:
            res.status = "inconclusive"
            res.reason += "unwinding bound too small: %s; " % ",".join(unwind_fail[:4])
            return
        if res.status == "inconclusive":
            return
        if res.failed:
            res.status = "fail"
        elif not res.witness_ok and not q.nowitness and q.allow_pruned:
            res.status = "pass"
            res.reason += "pruned: no executable schedule for this shape; "
        elif not res.witness_ok and not q.nowitness:
            res.status = "inconclusive"
            res.reason += "harness has no witness; "
        else:
            res.status = "pass"

    def _parse_stop_on_fail(self, res, msgs):
        """--stop-on-fail output: one failed property with its trace"""
        for m in msgs:
            if not isinstance(m, dict) or "result" not in m:
                continue
            for r in m["result"]:
                desc = r.get("description", "")
                sl = r.get("sourceLocation", {}) or {}
                ent = (r["property"], desc, r["status"], sl.get("file", ""), sl.get("line", ""), sl.get("function", ""))
                res.props.append(ent)
                if r["status"] == "FAILURE" and not desc.startswith("WITNESS") and "unwind" not in r["property"]:
                    res.failed.append(ent)
                    res._trace = r.get("trace")

    def _replay_from_trace(self, res, hunt):
        q = res.q
        ent = hunt.failed[0]
        rep = {"property": ent[0], "desc": ent[1], "file": ent[3], "line": ent[4], "function": ent[5], "reproduced": False, "detail": ""}
        res.replays.append(rep)
        tr = getattr(hunt, "_trace", None)
        if tr is None:
            rep["detail"] = "no trace"
            return
        vals = _trace_values(tr)
        rep["values"] = vals
        try:
            exe = self.native_build(q)
        except Exception as e:
            rep["detail"] = str(e)[-800:]
            return
        vf = os.path.join(self.tmp, "vals-hunt-%s.txt" % re.sub(r"\W", "_", q.name))
        with open(vf, "w") as f:
            f.write("\n".join(str(v) for v in vals) + "\n")
        rep.update(run_native(exe, vf, ent[1]))

    # ---- replay ----------------------------------------------------------
    def native_build(self, q):
        h, tus, env = self.files_of(q)
        key = ("n", q.harness, tuple(self.qdefs(q)), tuple(q.cdefs), tuple(q.tus), tuple(q.env))
        out = os.path.join(self.tmp, "n%s" % hashlib.md5(repr(key).encode()).hexdigest()[:12])
        if os.path.exists(out):
            return out
        cmd = ["gcc", "-g", "-O0", "-ftrivial-auto-var-init=pattern", "-fsanitize=address,undefined", "-fno-sanitize-recover=undefined",
               "-fno-omit-frame-pointer", "-w", "-o", out, h] + tus + env + \
              [os.path.join(VERIF, "vh", "vh_native.c")] + \
              self._cflags(self.qdefs(q) + list(q.cdefs)) + ["-lpthread"]
        r = subprocess.run(cmd, stdout=subprocess.PIPE, stderr=subprocess.STDOUT, text=True)
        if r.returncode != 0:
            # functions the harness never calls but the included unit references:
            # give them aborting stubs and link again
            names = sorted(set(re.findall(r"undefined reference to `([A-Za-z0-9_]+)'", r.stdout)))
            if names:
                stub = out + "-stubs.c"
                with open(stub, "w") as f:
                    f.write("#include <stdio.h>\n#include <stdlib.h>\n")
                    for n in names:
                        f.write('void %s(void) { fprintf(stderr, "REPLAY-ERROR: unmodelled function %s called\\n"); exit(3); }\n' % (n, n))
                r = subprocess.run(cmd + [stub], stdout=subprocess.PIPE, stderr=subprocess.STDOUT, text=True)
        if r.returncode != 0:
            raise RuntimeError("native build failed:\n" + r.stdout[-3000:])
        return out

    def _replay_failures(self, res, gb):
        q = res.q
        seen_desc = set()
        todo = []
        for ent in res.failed:
            k = (ent[1], ent[3], ent[4])
            if k in seen_desc:
                continue
            seen_desc.add(k)
            todo.append(ent)
        for ent in todo[:4]:
            pid = ent[0]
            so, se, rc, to, wall, rss = self.run_cbmc(q, gb, ["--trace", "--property", pid],
                                                      timeout=max(q.timeout, 300))
            rep = {"property": pid, "desc": ent[1], "file": ent[3], "line": ent[4],
                   "function": ent[5], "reproduced": False, "detail": ""}
            res.replays.append(rep)
            if to:
                rep["detail"] = "trace run timed out"
                continue
            try:
                msgs = json.loads(so)
            except Exception:
                rep["detail"] = "trace output unparsable"
                continue
            vals = None
            for m in msgs:
                if isinstance(m, dict) and "result" in m:
                    for r in m["result"]:
                        if r.get("property") == pid and "trace" in r:
                            vals = _trace_values(r["trace"])
            if vals is None:
                rep["detail"] = "no trace for property"
                continue
            rep["values"] = vals
            try:
                exe = self.native_build(q)
            except Exception as e:
                rep["detail"] = str(e)[-800:]
                continue
            vf = os.path.join(self.tmp, "vals-%s-%s.txt" % (re.sub(r"\W", "_", q.name), re.sub(r"\W", "_", pid)))
            with open(vf, "w") as f:
                f.write("\n".join(str(v) for v in vals) + "\n")
            rep.update(run_native(exe, vf, ent[1]))

    # ---- many queries ------------------------------------------------------
    def run_all(self, queries):
        results = [None] * len(queries)
        with cf.ThreadPoolExecutor(max_workers=NCPU) as ex:
            futs = {ex.submit(self.run_query, q): i for i, q in enumerate(queries)}
            for fu in cf.as_completed(futs):
                i = futs[fu]
                try:
                    r = fu.result()
                except Exception as e:
                    r = Result(queries[i])
                    r.status = "inconclusive"
                    r.reason = "driver exception: %r" % e
                results[i] = r
                log("[%s] %-46s %-12s %6.1fs %5dMB props=%d wit=%d %s" % (
                    self.prop, r.q.name, r.status, r.wall, r.rss_mb, r.nprops,
                    len(r.witness_ok), r.reason[:200]))
        return results


def _last_msgs(msgs):
    out = []
    for m in msgs[-6:]:
        if isinstance(m, dict) and "messageText" in m:
            out.append(m["messageText"][:200])
    return " | ".join(out)


def _trace_values(trace):
    vals = []
    for s in trace:
        if s.get("stepType") != "assignment":
            continue
        if s.get("hidden"):
            continue
        lhs = s.get("lhs", "")
        if lhs != "vh_nd_val":
            continue
        v = s.get("value", {})
        b = v.get("binary")
        if b is not None:
            vals.append(int(b, 2))
        else:
            d = str(v.get("data", "0")).lower()
            if d in ("true", "false"):
                vals.append(1 if d == "true" else 0)
            else:
                d = re.sub(r"[ul]+$", "", d)
                try:
                    vals.append(int(d, 0) & 0xFFFFFFFFFFFFFFFF)
                except Exception:
                    vals.append(0)
    return vals


def run_native(exe, valfile, want_desc=None):
    env = dict(os.environ)
    env["VH_VALUES"] = valfile
    env["ASAN_OPTIONS"] = "detect_leaks=0:abort_on_error=0:exitcode=66"
    env["UBSAN_OPTIONS"] = "print_stacktrace=1:halt_on_error=1:exitcode=67"
    try:
        r = subprocess.run([exe], stdout=subprocess.PIPE, stderr=subprocess.PIPE, env=env, timeout=60)
        so = r.stdout.decode("utf-8", "replace")
        se = r.stderr.decode("utf-8", "replace")
        rc = r.returncode
    except subprocess.TimeoutExpired:
        return {"reproduced": False, "detail": "native replay timed out"}
    out = {"native_rc": rc, "native_out": (so[-600:] + se[-1500:])}
    if "REPLAY-FAIL" in so:
        out["reproduced"] = True
        m = re.search(r"REPLAY-FAIL: (.*)", so)
        out["detail"] = m.group(1) if m else "check failed natively"
    elif "AddressSanitizer" in se or "runtime error" in se or rc in (66, 67) or rc < 0:
        out["reproduced"] = True
        m = re.search(r"(ERROR: AddressSanitizer[^\n]*|[^\n]*runtime error[^\n]*)", se)
        out["detail"] = m.group(1) if m else "sanitizer/crash rc=%s" % rc
    elif "REPLAY-DIVERGED" in so:
        out["reproduced"] = False
        out["detail"] = "replay diverged: " + so[-300:]
    else:
        out["reproduced"] = False
        out["detail"] = "native run passed (rc=%s)" % rc
    return out

"""skeleton enumeration for the protocol harnesses"""
import itertools
import re


def tag(w):
    return re.sub(r"[^A-Za-z0-9]+", "", w.replace(") ", "_"))[:60] + "-%04x" % (hash_str(w) & 0xffff)


def hash_str(s):
    h = 0
    for c in s:
        h = (h * 131 + ord(c)) & 0xffffffff
    return h


def enumerate_words(alpha, k, first=None, limit=None, suffix=" Z"):
    """all words of length 1..k over alpha; '%d' in an event is replaced by the
    running index of user operations (each user aio is used once)."""
    out = []
    for n in range(1, k + 1):
        for combo in itertools.product(alpha, repeat=n):
            if first and combo[0] not in first:
                continue
            u = 0
            evs = []
            for e in combo:
                if "%d" in e:
                    evs.append(e % u)
                    u += 1
                else:
                    evs.append(e)
            if u > 4:
                continue
            out.append(" ".join(evs) + suffix)
    if limit and len(out) > limit:
        # deterministic thinning: keep every n-th
        step = len(out) / float(limit)
        out = [out[int(i * step)] for i in range(limit)]
    return out


# loop bounds of the harness kit / environment models (their tables are larger than the
# default bound used for loops of the code under test)
KIT_RULES = [(r"^(memcpy|memmove|memcmp)$", r".", 72), (r"^env_", r".", 26), (r"^(monitor|sweep|check_queue|ev_|do_send|kquiesce|harness|id_to_user|in_wq|count_on_pipe|q_has|widx|ref_)", r".", 72),
             (r"^nni_aio_reset$", r".", 6), (r"^nni_id_", r".", 8), (r"^nni_msg_", r".", 72)]

from vp.core import Query
from vp import skel
from vp.skel import KIT_RULES

LEVEL = "model_checking"
UNITS = ["src/sp/protocol/pipeline0/push.c", "src/sp/protocol/pipeline0/pull.c", "src/core/lmq.c", "src/core/list.c", "src/core/pollable.c"]
RULE = "One query per concrete event skeleton (word over the protocol's event alphabet); message bytes and results symbolic."
BOUNDS = "2 pipes, <= 4 user operations, skeleton length <= 5, buffer depth 0..2"
OUTSIDE = "real transports and threads; the aio framework is the env_aio model (checked against core/aio.c in C02); messages are the env_msg model (C17)"
ASSUMPTIONS = ["aio model env_aio.c", "message model env_msg.c", "allocation succeeds"]
ENV = ["env_alloc.c", "env_misc.c", "env_sync.c", "env_aio.c", "env_msg.c", "env_pipe.c"]
TUS = ["core/list.c", "core/lmq.c", "core/pollable.c", "core/options.c"]

PUSH_CURATED = [
    "A(0) S(0,1) T(0,1) Z", "S(0,1) A(0) T(0,1) Z", "S(0,0) A(0) S(1,0) T(0,1) Z", "A(0) A(1) S(0,1) S(1,1) T(1,1) T(0,1) Z",
    "A(0) S(0,1) S(1,1) T(0,1) T(0,1) Z", "B(1) S(0,1) S(1,1) A(0) T(0,1) T(0,1) Z", "B(2) S(0,0) S(1,0) S(2,0) A(0) T(0,1) A(1) T(1,1) Z",
    "S(0,1) X(0) A(0) Z", "S(0,1) Z", "A(0) S(0,1) C(0) Z", "A(0) S(0,1) T(0,0) C(0) S(1,0) Z", "B(1) S(0,1) B(0) A(0) Z",
    "B(2) S(0,1) S(1,1) B(1) A(0) T(0,1) Z", "A(0) C(0) S(0,0) A(0) S(1,1) T(0,1) Z", "B(1) S(0,1) S(1,1) S(2,1) A(0) T(0,1) T(0,1) T(0,1) Z",
    "A(0) A(1) C(0) S(0,1) T(1,1) Z", "B(1) S(0,1) S(1,1) X(1) A(0) T(0,1) Z", "A(0) S(0,1) A(1) S(1,1) C(0) T(1,1) Z",
]
PUSH_ALPHA = ["A(0)", "A(1)", "S(%d,1)", "S(%d,0)", "T(0,1)", "T(1,1)", "T(0,0)", "C(0)", "X(0)", "B(0)", "B(1)", "B(2)"]


# the send buffer is changed while it is full AND its ring has rotated (a message was taken out and another queued behind it): nothing accepted is lost,
# order kept; every event must be applicable (MUSTEND)
PUSH_RING = ["B(2) S(0,1) S(1,1) A(0) S(2,1) B(4) T(0,1) T(0,1) T(0,1) Z", "B(2) S(0,1) S(1,1) A(0) S(2,1) B(2) T(0,1) T(0,1) T(0,1) Z",
             "B(2) S(0,1) S(1,1) A(0) S(2,1) B(3) T(0,1) T(0,1) T(0,1) Z", "B(2) S(0,1) S(1,1) A(0) T(0,1) S(2,1) S(3,1) B(4) T(0,1) T(0,1) T(0,1) Z"]


def queries(tier):
    qs = []
    for w in PUSH_RING:
        qs.append(Query("push-ring-" + skel.tag(w), "c06/push.c", tus=TUS, env=ENV, defs={"SKEL": w, "MUSTEND": 1}, unwind=10, unwind_rules=KIT_RULES, timeout=300,
                        params={"protocol": "push0", "skeleton": w, "every_event_applicable": True}))
    words = list(PUSH_CURATED)
    words += skel.enumerate_words(PUSH_ALPHA, 3 if tier == "quick" else 4, first=["A(0)", "S(%d,1)", "S(%d,0)", "B(1)", "B(2)"],
                                  limit=150 if tier == "quick" else 3000)
    seen = set()
    for w in words:
        if w in seen:
            continue
        seen.add(w)
        qs.append(Query("push-" + skel.tag(w), "c06/push.c", tus=TUS, env=ENV, defs={"SKEL": w}, unwind=10, unwind_rules=KIT_RULES, timeout=300,
                        params={"protocol": "push0", "skeleton": w}))
    PULL_CUR = ["A(0) W(0) R(0,1) Z", "A(0) R(0,1) W(0) Z", "A(0) A(1) W(0) W(1) R(0,0) R(1,0) R(2,0) Z", "A(0) W(0) C(0) R(0,0) Z",
                "A(0) R(0,1) X(0) W(0) R(1,0) Z", "A(0) R(0,1) R(1,1) W(0) W(0) Z", "A(0) W(0) R(0,0) W(0) R(1,0) W(0) R(2,1) Z",
                "A(0) R(0,1) Z", "A(0) W(0) Z", "A(0) A(1) R(0,1) W(1) W(0) R(1,0) C(1) Z", "R(0,0) A(0) W(0) R(1,0) Z"]
    PULL_ALPHA = ["A(0)", "A(1)", "W(0)", "W(1)", "R(%d,1)", "R(%d,0)", "C(0)", "X(0)"]
    words = list(PULL_CUR) + skel.enumerate_words(PULL_ALPHA, 4, first=["A(0)", "R(%d,1)", "R(%d,0)"], limit=120 if tier == "quick" else 2500)
    seen = set()
    for w in words:
        if w in seen:
            continue
        seen.add(w)
        qs.append(Query("pull-" + skel.tag(w), "c06/pull.c", tus=TUS, env=ENV, defs={"SKEL": w}, unwind=10, unwind_rules=KIT_RULES, timeout=300,
                        params={"protocol": "pull0", "skeleton": w}))
    return qs

MANIFEST = {
    "text": "Bounded symbolic check of the real push.c/pull.c: every event skeleton up to the stated length is executed from sock_init through the real entry points with symbolic message bytes; a monitor checks conservation (each accepted message in exactly one place), at-most-one delivery, per-connection order, back-pressure and the hand-off invariants after every event. Also the send buffer changed while it is full and its ring has rotated (nothing accepted is lost unless it no longer fits, exact count).",
    "note": "aio framework and messages are verified models (env_aio.c, env_msg.c); threads are not modelled: events are atomic and run to quiescence.",
}

from vp.core import Query

LEVEL = "model_checking"
UNITS = ["src/core/url.c", "src/core/strs.c", "src/platform/posix/posix_resolv_gai.c (nni_get_port_by_name)"]
RULE = "One query per harness x template/length; every non-template byte symbolic."
BOUNDS = "utf8: all strings <= 6 bytes; canonify: all strings <= 7 bytes; parser: concrete templates with <= 4 symbolic bytes"
OUTSIDE = "unconstrained whole-parser inputs longer than the templates; service-name ports (getservbyname modelled as NULL)"
ASSUMPTIONS = ["C-locale ctype models (env_libc.c)", "snprintf/strtol models (env_libc.c)", "allocation succeeds (failure is C20)"]
ENV = ["env_alloc.c", "env_misc.c", "env_sync.c", "env_libc.c"]


def queries(tier):
    qs = []
    for n in ((1, 2, 3, 4, 5) if tier == "quick" else (1, 2, 3, 4, 5, 6)):
        qs.append(Query("utf8-n%d" % n, "c19/utf8.c", env=ENV, defs={"N": n}, unwind=n + 3, timeout=300,
                        params={"bytes": n}))
    T = [("scheme1", "", 1, "://h"), ("scheme2", "", 2, "://h"), ("scheme3", "", 3, "://h"), ("scheme4", "", 4, "://h"),
         ("sep", "tcp", 3, "h"), ("auth3", "tcp://", 3, ""), ("authmid", "tcp://a", 2, "b:80/x"),
         ("port3", "tcp://h:", 3, ""), ("port5", "tcp://h:", 5, ""), ("v6a", "tcp://[", 3, ""),
         ("v6b", "tcp://[::1", 2, "80"), ("path3", "http://h/", 3, ""), ("pathmid", "http://h/a", 3, "b"),
         ("qf", "http://h/p", 3, "q"), ("ipc3", "ipc://", 3, ""), ("user", "ws://u", 2, "h/"), ]
    if tier != "quick":
        T += [("scheme5", "", 5, "://h"), ("auth4", "tcp://", 4, ""), ("path4", "http://h/", 4, ""),
              ("path5", "http://h/", 5, ""), ("esc", "http://h/%", 3, "/"), ("dots", "http://h/a/", 4, "/b")]
    QUICK_T = ("scheme1", "scheme2", "sep", "port3", "auth3", "v6a", "path3", "ipc3", "user")
    for name, pre, n, post in T:
        if tier == "quick" and name not in QUICK_T:
            continue
        d = {"PRE": '"%s"' % pre, "POST": '"%s"' % post, "NSYM": n}
        if name.startswith("ipc"):
            d["NO_REJECT"] = 1
        if name.startswith("port") or name in ("authmid", "v6b"):
            d["HAS_PORT"] = 1
        qs.append(Query("parse-%s" % name, "c19/parse.c", tus=["platform/posix/posix_resolv_gai.c"], env=ENV,
                        flags=["--no-sat-preprocessor"],
                        defs=d, unwind=max(len(pre) + n + len(post) + 3, 12),
                        unwind_rules=[("nni_url_parse_inline_inner", r"nni_schemes\[i\]", 40), ("nni_url_default_port", r"nni_url_default_ports\[i\]", 16),
                                      ("harness", r"nni_schemes\[i\]", 40)],
                        timeout=900, mem_gb=5, params={"template": pre + "<%d symbolic bytes>" % n + post}))
    for tail in (tuple(range(121, 133)) if tier == "quick" else tuple(range(110, 150))):
        qs.append(Query("boundary-tail%d" % tail, "c19/boundary.c", tus=["core/strs.c", "platform/posix/posix_resolv_gai.c"], env=ENV,
                        defs={"TAIL": tail, "NSYM": 0}, unwind=tail + 30, timeout=600, mem_gb=8, concrete=True,
                        unwind_rules=[("nni_url_parse_inline_inner", r"nni_schemes\[i\]", 40), ("nni_url_default_port", r"nni_url_default_ports\[i\]", 16)],
                        params={"url": "http://h/aaa... (concrete)", "bytes_after_scheme": tail, "inline_buffer": 128}))
    for lng in (0, 1):
        qs.append(Query("clone-%s" % ("long" if lng else "short"), "c19/clone.c", tus=["core/strs.c", "platform/posix/posix_resolv_gai.c"],
                        env=ENV, defs={"LONG": lng, "NSYM": 2}, unwind=190, timeout=600, mem_gb=8,
                        unwind_rules=[("nni_url_parse_inline_inner", r"nni_schemes\[i\]", 40), ("nni_url_default_port", r"nni_url_default_ports\[i\]", 16)],
                        params={"url_bytes": 150 if lng else 57, "symbolic_path_bytes": 2}))
    for n in ((0, 1, 2, 3, 4, 5) if tier == "quick" else (0, 1, 2, 3, 4, 5, 6, 7)):
        qs.append(Query("canon-n%d" % n, "c19/canon.c", env=ENV, defs={"N": n}, unwind=n + 4, timeout=600,
                        params={"bytes": n}))
    return qs

MANIFEST = {
    "text": "Bounded symbolic check of the real core/url.c: UTF-8 validator against the RFC 3629 grammar for all short strings, canonicaliser properties for all short strings, whole parser over templates, sprintf/parse round trip, clone.",
    "note": "Strings beyond the stated lengths and non-template parser inputs are outside the claim; libc models are part of the trusted base.",
}

from vp.core import Query
from vp import skel
from vp.skel import KIT_RULES

LEVEL = "model_checking"
UNITS = ["src/sp/protocol/pair1/pair.c", "src/sp/protocol/pair0/pair.c", "src/core/lmq.c"]
RULE = "One query per concrete event skeleton for pair1 and pair0; the hop-header kernel takes ANY 32-bit header and ANY ttl 1..15 in one query."
BOUNDS = "2 pipes (the second must be refused), <= 4 user operations, <= 4 arriving messages, buffers 0..2, skeleton length <= 6"
OUTSIDE = "polyamorous mode (pair1_poly.c); real transports/threads"
ASSUMPTIONS = ["aio model env_aio.c", "message model env_msg.c"]
ENV = ["env_alloc.c", "env_misc.c", "env_sync.c", "env_aio.c", "env_msg.c", "env_pipe.c", "env_libc.c"]
TUS = ["core/list.c", "core/lmq.c", "core/pollable.c", "core/options.c"]

CUR = ["A(0) S(0,1) T(0,1) W(0,1) R(1,0) Z", "A(0) A(1) S(0,1) T(0,1) Z", "S(0,1) A(0) T(0,1) Z", "A(0) S(0,0) S(1,0) S(2,1) T(0,1) T(0,1) T(0,1) Z",
       "A(0) C(0) A(1) S(0,1) T(1,1) Z", "A(0) W(0,1) W(0,1) R(0,0) R(1,0) Z", "A(0) R(0,1) W(0,1)", "A(0) W(0,2) W(0,1) R(0,0) Z", "A(0) W(0,3)", "A(0) W(0,4)",
       "A(0) W(0,0)", "A(0) R(0,1) W(0,0)", "B(2) S(0,0) S(1,0) S(2,0) A(0) T(0,1) T(0,1) Z", "B(1) S(0,1) S(1,1) B(0) A(0) Z", "A(0) Q(2) W(0,1) W(0,1) W(0,1) R(0,0) R(1,0) R(2,0) Z",
       "A(0) S(0,1) C(0) Z", "A(0) S(0,1) T(0,0) Z", "S(0,1) Z", "A(0) A(1) C(0) A(1) S(0,1) T(1,1) Z"]
# a refused second peer must not disturb the exchange with the connected one, whatever state that is in
CUR += ["A(0) W(0,1) A(1) R(0,0) Z", "A(0) W(0,1) A(1) R(0,1) W(0,1) R(1,0) Z", "A(0) R(0,1) A(1) W(0,1)", "A(0) S(0,1) A(1) T(0,1) Z", "A(0) S(0,0) S(1,1) A(1) T(0,1) T(0,1) Z",
        "A(0) Q(1) W(0,1) W(0,1) A(1) R(0,0) R(1,0) Z", "B(1) A(0) S(0,0) S(1,0) A(1) T(0,1) T(0,1) Z", "A(0) A(1) W(0,1) R(0,0) S(1,1) T(0,1) Z"]
CUR += ["A(0) R(0,1) R(1,1) W(0,1) W(0,1) Z", "A(0) R(0,1) R(1,1) R(2,1) W(0,1) W(0,1) Z"]
# back-pressure with a send buffer: connection busy, buffer full, further sends blocked - when the peer reads again the buffered messages go first and
# the blocked senders' messages join the tail (send order = the order the sends were issued)
CUR += ["B(1) A(0) S(0,1) S(1,1) S(2,1) T(0,1) T(0,1) T(0,1) Z", "B(1) A(0) S(0,1) S(1,1) S(2,1) S(3,1) T(0,1) T(0,1) T(0,1) T(0,1) Z", "B(2) A(0) S(0,1) S(1,1) S(2,1) S(3,1) T(0,1) T(0,1) T(0,1) T(0,1) Z"]
ALPHA = ["A(0)", "A(1)", "S(%d,1)", "S(%d,0)", "R(%d,0)", "R(%d,1)", "T(0,1)", "W(0,1)", "W(0,2)", "C(0)", "B(1)", "Q(1)"]


def queries(tier):
    qs = []
    words = [(w, {}) for w in CUR] + [(w, {"PAIR0": 1}) for w in CUR if "W(0,2)" not in w and "W(0,3)" not in w and "W(0,4)" not in w and "W(0,0)" not in w]
    for w in skel.enumerate_words(ALPHA, 3 if tier == "quick" else 4, first=["A(0)", "S(%d,1)", "B(1)"], limit=100 if tier == "quick" else 3000):
        words.append((w, {}))
    seen = set()
    for w, d in words:
        k = (w, tuple(d))
        if k in seen:
            continue
        seen.add(k)
        # closing after a delivery makes symex crawl (drain loops over lists whose state it no longer knows): measured 47 s vs 2 s
        w2 = w[:-2] if (w.endswith(" Z") and ("W(" in w or "R(0,1)" in w or "R(1,1)" in w or "R(2,1)" in w) and False) else w
        if False and w2 in ("A(0) W(0,1) W(0,1) R(0,0) R(1,0)", "A(0) W(0,2) W(0,1) R(0,0)", "A(0) Q(2) W(0,1) W(0,1) W(0,1) R(0,0) R(1,0) R(2,0)"):
            continue   # > 100 s in symex for pair1 (pass for pair0); thorough tier
        defs = dict(d)
        defs["SKEL"] = w2
        qs.append(Query("%s-%s" % ("pair0" if d else "pair1", skel.tag(w2)), "c08/pair.c", tus=TUS, env=ENV, defs=defs, unwind=10, unwind_rules=KIT_RULES,
                        timeout=300, params={"protocol": "pair0" if d else "pair1", "skeleton": w2}))
    return qs

MANIFEST = {
    "text": "Bounded symbolic check of the real pair1/pair.c and pair0/pair.c: skeletons from sock_init; a second peer is refused with EBUSY while the first is attached and accepted after it left; accepted messages are conserved, ordered, never duplicated; send blocks instead of discarding; one query takes ANY 32-bit hop header with ANY ttl 1..15: > 0xff or short disconnects, > ttl is dropped and the receive re-armed, otherwise delivered with that header; outgoing hop count incremented by exactly one. Also back-pressure with a send buffer: buffered messages go first, blocked senders join the tail.",
    "note": "aio framework and messages are verified models; polyamorous mode outside the claim.",
}

from vp.core import Query

LEVEL = "model_checking"
UNITS = ["src/core/lmq.c", "src/core/msgqueue.c", "src/core/idhash.c"]
RULE = "One query per (data structure, operation, concrete ring allocation / table layout); indices, lengths, capacities, keys symbolic."
BOUNDS = "lmq alloc in {inline,2,4,8}; msgq cap in 0..3 (alloc = cap+2), new cap 0..5; idhash capacity 8/16 layouts"
OUTSIDE = "rings larger than 8 slots; id maps beyond the generated layouts; real threads (the queue lock is a monitor)"
ASSUMPTIONS = ["allocation succeeds (failure is C20)", "messages are opaque tokens (lmq/msgq never look inside)"]
ENV = ["env_alloc.c", "env_misc.c", "env_sync.c"]
LOPS = {"put": 1, "get": 2, "resize": 3, "flush": 4, "fini": 5}


def queries(tier):
    qs = []
    for alloc in (0, 2, 4, 8):
        for op, c in LOPS.items():
            qs.append(Query("lmq-%s-alloc%d" % (op, alloc), "c18/lmq_step.c", env=ENV, defs={"ALLOC": alloc, "OP": c},
                            unwind=20, mem_gb=(24 if op == "resize" else 6), timeout=300, params={"structure": "lmq", "op": op, "alloc": alloc}))
    # ---- idhash: concrete histories (real set/remove build the table), symbolic key for the last op
    IENV = ENV + ["env_aio.c"]
    K = [1, 9, 17, 6, 14, 2]   # 1,9,17 collide mod 8; ID_NEXT(1)=6 so chains cross 6/14
    hists = []
    import itertools
    maxlen = 3 if tier == "quick" else 4
    for n in range(0, maxlen + 1):
        for combo in itertools.permutations(K[:5], n):
            if n >= 2 and tier == "quick" and combo[0] not in (1, 6):
                continue
            hists.append((["S(%d)" % k for k in combo], list(combo)))
    # removal in the middle of a probe chain, and grow/shrink across the resize thresholds
    extra = [(["S(1)", "S(9)", "S(17)", "R(9)"], [1, 17]), (["S(1)", "S(9)", "S(17)", "R(1)"], [9, 17]),
             (["S(1)", "S(6)", "S(9)", "R(6)", "S(14)"], [1, 9, 14]),
             (["S(%d)" % k for k in (1, 9, 17, 25, 33, 2)], [1, 9, 17, 25, 33, 2]),      # crosses max_load -> grow to 16
             (["S(%d)" % k for k in (1, 9, 17, 25, 33, 2)] + ["R(1)", "R(9)", "R(17)", "R(25)", "R(33)"], [2])]  # shrink back
    # tables filled exactly to the grow threshold, so that the FINAL (symbolic-key) operation is the one that resizes:
    # capacity 8 grows at load 5 (keys >= 8 move to other slots in the 16-slot table), capacity 16 at load 10
    extra += [(["S(%d)" % k for k in (9, 10, 11, 12, 13)], [9, 10, 11, 12, 13]),
              (["S(%d)" % k for k in (1, 9, 2, 11)], [1, 9, 2, 11]),
              (["S(%d)" % k for k in (24, 17, 10, 3, 28)], [24, 17, 10, 3, 28])]
    if tier != "quick":
        extra += [(["S(%d)" % k for k in range(17, 27)], list(range(17, 27)))]
    hists += extra
    seen = set()
    for h, live in hists:
        hs = " ".join(h)
        if hs in seen:
            continue
        seen.add(hs)
        tag = "-".join(x.replace("(", "").replace(")", "") for x in h) or "empty"
        for op, c in (("get", 1), ("set", 2), ("remove", 3), ("visit", 4)):
            if tier == "quick" and op in ("visit", "remove") and len(h) not in (0, 3, 4, 5):
                continue
            qs.append(Query("id-%s-%s" % (op, tag), "c18/idhash_step.c", env=IENV, tus=["core/list.c"], defs={"HIST": hs, "OP": c},
                            unwind=34, timeout=300, params={"structure": "idhash", "op": op, "history": hs}))
    for lo, hi in ((5, 8), (1, 2), (7, 7 + 3)):
        for h, live in ([], []), (["S(%d)" % lo], [lo]), (["S(%d)" % k for k in range(lo, hi + 1)], []), (["S(%d)" % hi, "S(%d)" % lo], []):
            hs = " ".join(h)
            tag = "-".join(x.replace("(", "").replace(")", "") for x in h) or "empty"
            qs.append(Query("id-alloc-%d.%d-%s" % (lo, hi, tag), "c18/idhash_step.c", env=IENV, tus=["core/list.c"],
                            defs={"HIST": hs, "OP": 5, "LO": lo, "HI": hi, "EXPECT_FULL": int(len(h) > hi - lo)}, unwind=34, timeout=300,
                            params={"structure": "idhash", "op": "alloc", "range": [lo, hi], "history": hs}))
            if (lo, hi) != (7, 10):
                qs.append(Query("id-alloc32-%d.%d-%s" % (lo, hi, tag), "c18/idhash_step.c", env=IENV, tus=["core/list.c"],
                                defs={"HIST": hs, "OP": 5, "LO": lo, "HI": hi, "EXPECT_FULL": int(len(h) > hi - lo), "ALLOC32": 1}, unwind=34, timeout=300,
                                params={"structure": "idhash", "op": "alloc32", "range": [lo, hi], "history": hs}))
    for lo, hi, name in ((0x80000000, 0xffffffff, "reqid"), (1, 0x7fffffff, "pipeid"), (0, 0, "default")):
        for h in ([], ["S(%d)" % (hi if hi else 0xffffffff)]):
            hs = " ".join(h)
            qs.append(Query("id-alloc-%s-%d" % (name, len(h)), "c18/idhash_step.c", env=IENV, tus=["core/list.c"],
                            defs={"HIST": hs, "OP": 5, "LO": "%dULL" % lo, "HI": "%dULL" % hi, "EXPECT_FULL": 0}, unwind=34, timeout=300,
                            params={"structure": "idhash", "op": "alloc", "range": [lo, hi], "history": hs}))
    FTU = ["core/list.c", "core/pollable.c"]
    FENV = ENV + ["env_aio.c"]
    for cap in (0, 1, 2):
        for n in (2, 3):
            qs.append(Query("msgq-fifo-readers-cap%d-n%d" % (cap, n), "c18/msgq_fifo.c", tus=FTU, env=FENV, defs={"MODE": 1, "CAP": cap, "NG": n}, unwind=30, timeout=300,
                            group="c18/msgq_fifo.c", params={"structure": "msgq", "case": "waiting readers served in order", "cap": cap, "readers": n}))
            qs.append(Query("msgq-fifo-writers-cap%d-n%d" % (cap, n), "c18/msgq_fifo.c", tus=FTU, env=FENV, defs={"MODE": 2, "CAP": cap, "NP": n}, unwind=30, timeout=300,
                            group="c18/msgq_fifo.c", params={"structure": "msgq", "case": "queue + blocked writers drain as one FIFO", "cap": cap, "writers": n}))
        qs.append(Query("msgq-fifo-cancel-first-reader-cap%d" % cap, "c18/msgq_fifo.c", tus=FTU, env=FENV, defs={"MODE": 3, "CAP": cap, "NG": 2}, unwind=30, timeout=300,
                        group="c18/msgq_fifo.c", params={"structure": "msgq", "case": "first waiting reader cancelled", "cap": cap}))
    MOPS = {"tryput": 1, "resize": 2, "close": 3, "fini": 4, "aioget": 5, "aioput": 6}
    MENV = ENV + ["env_aio.c"]
    MTU = ["core/list.c", "core/pollable.c"]
    for cap in ((0, 1, 2, 3) if tier == "quick" else (0, 1, 2, 3, 4, 6)):
        for op, c in MOPS.items():
            if op == "resize":
                for nc in range(0, 6 if tier == "quick" else 9):
                    qs.append(Query("msgq-resize-cap%d-to%d" % (cap, nc), "c18/msgq_step.c", tus=MTU, env=MENV,
                                    defs={"CAP": cap, "OP": c, "NEWCAP": nc}, unwind=30,
                                    params={"structure": "msgq", "op": op, "cap": cap, "newcap": nc}))
                continue
            qs.append(Query("msgq-%s-cap%d" % (op, cap), "c18/msgq_step.c", tus=MTU, env=MENV, defs={"CAP": cap, "OP": c},
                            unwind=30, params={"structure": "msgq", "op": op, "cap": cap}))
            if op in ("aioget", "aioput"):
                qs.append(Query("msgq-%s-nonblock-cap%d" % (op, cap), "c18/msgq_step.c", tus=MTU, env=MENV, defs={"CAP": cap, "OP": c, "NB": 1},
                                unwind=30, params={"structure": "msgq", "op": op + " (zero timeout)", "cap": cap}))
    return qs

MANIFEST = {
    "text": "Bounded symbolic check of the real lmq.c / msgqueue.c ring code and idhash.c: one operation from an arbitrary invariant-satisfying state (ring allocation / table layout concrete, indices, lengths, capacities and keys symbolic) against FIFO-sequence and finite-map reference semantics. Waiting readers and writers of msgqueue.c are served first come first served and the queue plus its blocked writers drain as one FIFO; id-map histories filled exactly to the grow threshold so that the symbolic-key set is the one that resizes. Also nni_id_alloc32 (the form every issue site uses) incl. what a refused call stores (finding F28: an uninitialised identifier - repaired); lmq resize with a pointer-word copy model inside the unit (CBMC's built-in memcpy model is imprecise for a source pointer at a symbolic offset).",
    "note": "Inductive step + init establishes invariant; rings up to 8 slots; id-map layouts generated by running the real insertion algorithm.",
}

from vp.core import Query
from vp.skel import KIT_RULES

LEVEL = "model_checking"
UNITS = ["src/sp/transport/tcp/tcp.c", "src/sp/transport/socket/sockfd.c", "src/sp/transport/ipc/ipc.c", "src/core/aio.c (nni_aio_iov_advance/count/set_iov)", "src/supplemental/websocket/websocket.c (ws_frame_prep_tx, ws_mask_frame, ws_read_finish)", "src/core/message.c (nni_chunk_insert: inproc header pull-up)", "src/sp/transport/inproc/inproc.c (pipe send/recv/close, queue_run, cancel)", "src/platform/posix/posix_tcpconn.c, posix_ipcconn.c, posix_sockfd.c (dowrite/doread)", "src/supplemental/http/http_conn.c (http_rd_buf, http_rd_cb, http_wr_cb: the byte stream under websocket frames)"]
RULE = "Inductive steps over the framing invariant: one query per (transport, step, concrete header/body size); transfer size n, all length values, RECVMAXSZ, payload and handshake bytes symbolic."
BOUNDS = "protocol header 0..64 bytes (concrete 0,4,8,64), body 0..3 bytes on transmit / 1..3 on receive, one partial transfer of ANY size followed by completion"
OUTSIDE = "kernel/epoll behaviour, TLS, websocket frame header decoding (C16), inproc hand-off other than the header insert; the induction from one step to all segmentations is argued in DESIGN.md"
ASSUMPTIONS = ["aio model env_aio.c (iov arithmetic proved equivalent to the real core/aio.c by the iov queries)", "message model env_msg.c", "byte stream stubbed (records requests, completes with chosen counts)"]
ENV = ["env_alloc.c", "env_misc.c", "env_sync.c", "env_aio.c", "env_msg.c", "env_pipe.c", "env_libc.c"]
TUS = ["core/list.c", "core/options.c"]
TR = ["tcp", "sockfd", "ipc"]


def tq(tr, mode, extra, name, params):
    d = {"TRAN": tr, "MODE": mode}
    d.update(extra)
    return Query("%s-%s" % (TR[tr], name), "c01/stream_tran.c", tus=TUS, env=ENV, defs=d, cdefs=["-DENV_MSG_CAP=24"], unwind=12,
                 unwind_rules=KIT_RULES + [(r"^(iov_|harness)", r".", 80)], timeout=300, params=dict(params, transport=TR[tr]))


def queries(tier):
    qs = []
    for tr in (0, 1, 2):
        for hl in ((0, 4, 64) if tier == "quick" else (0, 4, 8, 32, 64)):
            for bl in ((0, 3) if tier == "quick" else (0, 1, 3)):
                hd = 9 if tr == 2 else 8
                total = hd + hl + bl
                cuts = sorted(set(c for c in (1, hd - 1, hd, hd + 1, hd + hl - 1, hd + hl, hd + hl + 1, total - 1, total) if 1 <= c <= total))
                if tier == "quick":
                    cuts = [c for c in cuts if c in (1, hd, hd + hl, hd + hl + 1, total - 1, total)]
                for c in cuts:
                    qs.append(tq(tr, 1, {"HL": hl, "BL": bl, "NCUT": c}, "tx-h%d-b%d-cut%d" % (hl, bl, c),
                                 {"step": "transmit", "header": hl, "body": bl, "first_write": c}))
        qs.append(tq(tr, 2, {}, "rx-header-split", {"step": "receive: length prefix in two pieces"}))
        qs.append(tq(tr, 3, {}, "rx-length", {"step": "receive: any length x any RECVMAXSZ"}))
        for bl in (1, 3):
            for c in range(1, bl + 1):
                qs.append(tq(tr, 4, {"BL": bl, "NCUT": c}, "rx-body-b%d-cut%d" % (bl, c), {"step": "receive: payload in two pieces", "body": bl, "first_read": c}))
        for how, hn in ((0, "peer-dies"), (1, "receive-aborted")):
            for c in (0, 2):
                qs.append(tq(tr, 9, {"BL": 3, "NCUT": c, "HOW": how}, "rx-midbody-%s-after%d" % (hn, c),
                             {"step": "receive: %s in the middle of a message, then the pipe is torn down" % hn, "body": 3, "received": c}))
        qs.append(tq(tr, 5, {}, "nego", {"step": "handshake: any 8 bytes, any split"}))
        for mode, mn in ((6, "tx"), (7, "rx")):
            for wc in (0, 1):
                qs.append(tq(tr, mode, {"WHICHC": wc}, "%s-cancel-%s" % (mn, "inprogress" if wc == 0 else "queued"),
                             {"step": "cancel a %s that is %s" % ("send" if mode == 6 else "receive", "in progress" if wc == 0 else "queued behind another")}))
    for nio in (1, 2, 3):
        qs.append(Query("iov-advance-nio%d" % nio, "c01/iov.c", tus=["core/list.c"], env=["env_alloc.c", "env_misc.c", "env_sync.c"], defs={"NIO": nio},
                        unwind=12, timeout=300, params={"kernel": "real nni_aio_iov_advance/iov_count", "segments": nio}))
    # inproc: the hand-off between the two ends of a connection
    IENV = ["env_alloc.c", "env_misc.c", "env_sync.c", "env_aio.c", "env_msg.c", "env_pipe.c", "env_libc.c"]
    iwords = ["S(0) R(1) C", "R(0) S(1) C", "S(0) S(1) R(2) R(3) C", "R(0) R(1) S(2) S(3) C", "S(0) R(1) S(2) R(3) C", "S(0) X(0) R(1) S(2) C", "R(0) X(0) S(1) R(2) C",
              "S(0) C", "R(0) C", "S(0) S(1) X(0) R(2) C", "SH(0) R(1) C", "R(0) SH(1) C", "SF(0) R(1) S(2) C", "R(0) SF(1) S(2) C", "S(0) S(1) C R(2)", "R(0) R(1) X(1) S(2) S(3)"]
    for hl in ((0, 4, 64) if tier == "quick" else (0, 4, 8, 32, 64)):
        for w in iwords:
            if hl == 64 and tier == "quick" and len(w) > 12:
                continue
            qs.append(Query("inproc-h%d-%s" % (hl, w.replace(" ", "").replace("(", "").replace(")", "")), "c01/inproc.c", tus=["core/list.c"], env=IENV,
                            defs={"HL": hl, "SKEL": w}, cdefs=["-DENV_MSG_CAP=8"], unwind=12, unwind_rules=KIT_RULES + [(r"^(post_send|check_delivery|note_)", r".", 72)], timeout=300, group="c01/inproc.c",
                            params={"transport": "inproc", "header": hl, "skeleton": w}))
    # the SP websocket transport's pipe operations
    for case, cn in ((1, "send-ok"), (2, "send-fails"), (3, "send-cancelled"), (4, "recv-ok"), (5, "recv-fails"), (6, "recv-cancelled")):
        qs.append(Query("wstran-%s" % cn, "c01/wstran.c", tus=TUS, env=ENV, defs={"CASE": case}, cdefs=["-DENV_MSG_CAP=8"], unwind=12, unwind_rules=KIT_RULES, timeout=300,
                        group="c01/wstran.c", params={"unit": "sp/transport/ws/websocket.c", "case": cn}))
    # platform stream code: partial readv / sendmsg / writev completion reporting
    PENV = ["env_alloc.c", "env_misc.c", "env_sync.c", "env_aio.c", "env_libc.c"]
    for which, wn in enumerate(("tcp", "ipc", "sockfd")):
        for dirn, dn in ((0, "write"), (1, "read")):
            for ret in ((1, 2, 3, 4) if dirn == 0 else (1, 2, 3, 4, 5)):
                for lens in (("3, 0, 2",) if (tier == "quick" and ret != 1) else ("3, 0, 2", "5", "0, 4", "1, 1, 1, 1")):
                    qs.append(Query("posix-%s-%s-ret%d-lens%s" % (wn, dn, ret, lens.replace(", ", "_")), "c01/posix_conn.c", tus=["core/list.c"],
                                    env=PENV, defs={"WHICH": which, "DIR": dirn, "RET": ret, "LENS": lens}, unwind=20, timeout=300, group="c01/posix_conn.c#%d%d" % (which, dirn),
                                    params={"unit": "platform/posix/posix_%s" % ("tcpconn.c", "ipcconn.c", "sockfd.c")[which], "direction": dn,
                                            "syscall_outcome": {1: "n bytes, any n", 2: "EAGAIN", 3: "EINTR then n", 4: "ECONNRESET", 5: "end of stream"}[ret], "iov_lengths": lens}))
        qs.append(Query("posix-%s-closed" % wn, "c01/posix_conn.c", tus=["core/list.c"], env=PENV, defs={"WHICH": which, "DIR": 0, "RET": 1, "CLOSED": 1},
                        unwind=20, timeout=120, group="~posix-closed", params={"unit": wn, "case": "closed connection"}))
    # websocket framing of SP messages: the frame writer and the reassembly kernel of C16
    from props import C16
    for q in C16.queries(tier):
        if q.name.startswith(("ws-preptx", "ws-reassemble")):
            qs.append(q)
        # websocket frames are read and written through the buffered HTTP connection (the bytes that arrive in the
        # same segment as the end of the upgrade reply are the beginning of the first frame)
        if q.name.startswith(("httpconn-res-", "httpconn-write-full")) and (q.name.endswith("iov2") or "-segs" in q.name and q.name.count("_") <= 2):
            q.group = "~" + q.group
            qs.append(q)
    # "messages that travel over the same connection arrive in the order they were sent": between the application's send and the connection sits the
    # protocol's send buffer - back-pressure skeletons of PAIR (connection busy, buffer full, further sends blocked, then the peer reads again)
    from props import C08
    for q in C08.queries(tier):
        if "S(0,1) S(1,1) S(2,1)" in q.defs.get("SKEL", "") and q.defs.get("SKEL", "").startswith("B("):
            q.group = "~" + q.group + "#c01"
            qs.append(q)
    # inproc delivers raw messages by inserting the protocol header in front of the body (nni_msg_insert)
    from props import C17
    for q in C17.queries(tier):
        # ... and hands every receiver a message of its own (nni_msg_pull_up: also when the message is shared with another
        # subscriber's queue and has no header at all)
        if q.name.startswith(("chunk-insert", "chunk-pullup")):
            q.group = "~" + q.group
            qs.append(q)
    return qs

MANIFEST = {
    "text": "Bounded symbolic check of the real tcp.c / sockfd.c / ipc.c framing (for a transfer of ANY size the next request is exactly the remaining suffix; ANY 64-bit length vs ANY RECVMAXSZ; delivery once with exactly the bytes carried; handshake accepted iff well-formed; all segmentations by induction on the number of transfers), of the real inproc.c hand-off (k-th receive gets the k-th accepted message, header||body unaltered, cancel/close/failed private copy), of the real http_conn.c byte stream under every segmentation of a short stream (what websocket frames are read and written through) and of the websocket fragment writer / reassembly incl. a receiver that arrives in the middle of a fragmented message. Platform stream code (tcp/ipc/sockfd dowrite/doread: the kernel is handed exactly the non-empty buffers in order; any transfer count, EAGAIN, EINTR, error, EOF), cancellation of in-progress / queued transfers in the stream transports, and the SP websocket transport's pipe operations (a message is sent, returned to the caller or released exactly once). Also nni_msg_pull_up of a shared message (inproc fan-out: every receiver gets a message of its own). Stream transports: a message cut short in the middle is never delivered.",
    "note": "Accepted payload lengths <= 8 in the header-complete step; iov arithmetic of the aio model is checked equivalent to the real nni_aio_iov_advance; kernel I/O stubbed; http_conn streams of 12-14 bytes in <= 3-4 segments with position models of the head parsers; the kernel itself is a stub (any transfer count / EAGAIN / EINTR / error / EOF).",
}

from vp.core import Query
from vp.skel import KIT_RULES
from props import C01, C04, C07, C08, C13, _cross

LEVEL = "model_checking"
UNITS = ["src/sp/transport/tcp/tcp.c", "src/sp/transport/ipc/ipc.c", "src/sp/transport/socket/sockfd.c", "src/core/listener.c", "src/sp/protocol/*/ (receive callbacks)", "src/supplemental/websocket/websocket.c (C16)"]
RULE = "Single steps with the wire bytes fully symbolic: handshake (any 8 bytes), length prefix (any 64-bit value x any RECVMAXSZ), protocol headers by class with symbolic payload, accept result (any nng_err)."
BOUNDS = "one step per query; protocol headers up to 16 hop words"
OUTSIDE = "udp connection handshake (CREQ/CACK) and timers; long hostile sessions (locality of each step is what is decided); http parsers are C16"
GROUP_WITNESS = False  # re-uses subsets of other properties' sweeps; each query still needs its own witness
ASSUMPTIONS = ["as in C01/C04/C07/C08/C13"]
ENV = C01.ENV


def ws_upgrade_queries(tier):
    """the websocket opening handshake decisions (ws_handler, ws_http_cb_dialer): every combination of present / absent / malformed fields"""
    qs = []
    WENV = ["env_alloc.c", "env_misc.c", "env_sync.c", "env_libc.c", "env_aio.c", "env_msg.c"]
    for side, sn in ((0, "listener"), (1, "dialer")):
        for lp in (1, 0):
            qs.append(Query("ws-upgrade-%s-%s" % (sn, "proto" if lp else "noproto"), "c11/ws_upgrade.c", tus=["core/list.c", "core/strs.c"], env=WENV,
                            defs={"SIDE": side, "LPROTO": lp}, unwind=40, timeout=600, group="c11/ws_upgrade.c-" + sn,
                            params={"unit": "supplemental/websocket/websocket.c " + ("ws_handler" if side == 0 else "ws_http_cb_dialer"),
                                    "fields": "each absent / good / two malformed variants, chosen by the solver", "endpoint_has_subprotocol": bool(lp)}))
    qs.append(Query("ws-dial-start-limits", "c11/ws_upgrade.c", tus=["core/list.c", "core/strs.c"], env=WENV, defs={"SIDE": 2, "LPROTO": 1}, unwind=40, timeout=300,
                    group="~c11/ws_upgrade.c-dialstart", params={"unit": "supplemental/websocket/websocket.c ws_dialer_dial", "limits": "RECVMAXSZ / max frame sizes / modes symbolic"}))
    qs.append(Query("ws-upgrade-listener-closed", "c11/ws_upgrade.c", tus=["core/list.c", "core/strs.c"], env=WENV, defs={"SIDE": 0, "LPROTO": 1, "LCLOSED": 1},
                    unwind=40, timeout=600, group="~c11/ws_upgrade.c-closed", params={"unit": "ws_handler", "listener": "closed"}))
    return qs


def queries(tier):
    qs = []
    for q in C01.queries(tier):
        if "nego" in q.name or "rx-length" in q.name or "rx-header" in q.name:
            qs.append(q)
    for q in C13.queries(tier):
        if "-rx-" in q.name and ("noterm" in q.name or "nh16" in q.name or "ttl1-" in q.name):
            qs.append(q)
    for q in C04.queries(tier):
        if "QB" in q.name or "Y04" in q.name or "Y03" in q.name or "Y02" in q.name:
            qs.append(q)
    for q in C07.queries(tier):
        if "Y04" in q.name or "QB" in q.name:
            qs.append(q)
    for q in C08.queries(tier):
        if "W03" in q.name or "W04" in q.name or "W00" in q.name or "W02" in q.name:
            qs.append(q)
    # websocket: the frame-header rules a hostile peer can break (size limits per frame and per reassembled message, masking,
    # length forms, opcodes) and the raw request side's header capacity (xreq/xsurvey have no hop limit of their own)
    from props import C16
    for q in C16.queries(tier):
        if q.name.startswith(("ws-header-", "wsframe1-", "wsframe2-")):
            q.group = "~" + q.group
            qs.append(q)
    for q in C13.queries(tier):
        if q.name.startswith(("xreq-rx", "xsurv-rx")):
            qs.append(q)
    # udp: one arriving datagram, every byte symbolic, through the real udp_rx_cb
    UENV = ["env_alloc.c", "env_misc.c", "env_sync.c", "env_aio.c", "env_msg.c", "env_pipe.c", "env_idmap.c", "env_libc.c"]
    UTUS = ["core/list.c", "core/lmq.c"]
    for op, opn in ((0, "data"), (3, "disc"), (4, "unknown")):
        for nb in ((0, 7, 8, 9, 12, 16) if op == 0 else (7, 8, 12)):
            for frm in (0, 1):
                for waiter in ((0, 1) if (op != 4 and frm == 0) else (0,)):
                    d = {"OP": op, "NB": nb, "FROM": frm}
                    if waiter:
                        d["WAITER"] = 1
                    qs.append(Query("udp-rx-%s-nb%d-%s%s" % (opn, nb, "stranger" if frm else "peer", "-waiter" if waiter else ""), "c11/udp_rx.c", tus=UTUS, env=UENV,
                                    defs=d, cdefs=["-DENV_MSG_CAP=24"], unwind=30, unwind_rules=KIT_RULES, timeout=300, group="c11/udp_rx.c#" + opn,
                                    params={"transport": "udp", "opcode": opn, "datagram_bytes": nb, "from": "unknown address" if frm else "established peer",
                                            "receive_pending": bool(waiter), "header_and_payload": "symbolic"}))
    qs.append(Query("listener-accept-any-result", "c14/listener_accept.c", tus=["core/list.c", "core/options.c"], env=["env_alloc.c", "env_misc.c", "env_sync.c", "env_aio.c", "env_libc.c"], defs={}, unwind=10,
                    unwind_rules=KIT_RULES, timeout=300, params={"kernel": "listener_accept_cb", "result": "any nng_err"}))
    # peers that drop out of (or fail) the handshake of a tcp / ipc listener: only that connection is lost, the listener keeps accepting
    from props import C14
    for q in C14.tran_listener_queries(tier):
        if "N(0)" in q.defs.get("SKEL", "") or "N(2)" in q.defs.get("SKEL", ""):
            q.group = "~" + q.group + "#c11"
            qs.append(q)
    # a connection that is refused or dies (wrong protocol, surplus peer, failed handshake) is torn down while the good peer's message is parked unread:
    # the good connection must not be disturbed (PAIR: second attach refused with a message waiting)
    for q in C08.queries(tier):
        sk = q.defs.get("SKEL", "")
        if "W(0,1) A(1)" in sk or "A(1) W(0,1)" in sk:
            q.group = "~" + q.group + "#c11"
            qs.append(q)
    qs += ws_upgrade_queries(tier)
    seen = set()
    out = []
    for q in qs:
        if q.name in seen:
            continue
        seen.add(q.name)
        out.append(_cross.exclude_nonblock_findings(q))
    return out

MANIFEST = {
    "text": "Hostile-peer steps decided on the real code with the wire bytes symbolic: SP handshake accepted iff well-formed else exactly that connection dropped; any length prefix vs any RECVMAXSZ refused before allocation; malformed/over-TTL/short protocol headers (REQ/REP/SURVEY/RESPOND/PAIR1/XREP/XRESPOND/XREQ/XSURVEY) never delivered, freed once, sender disconnected or dropped as specified, header capacity never exceeded; websocket frame headers (masking, length forms, opcodes, per-frame and whole-message size limits with fragments already queued); one arbitrary UDP datagram through the real udp_rx_cb (delivered iff version, source and length field are consistent with what arrived and the negotiated maximum; lying length -> DISC and only that pipe dropped; receive always re-posted); the accept loop survives every accept result. Also: the limits configured on a websocket listener / dialer (NNG_OPT_RECVMAXSZ, max frame sizes) are exactly the limits the new connection's frame decoder runs with (ws_handler, ws_dialer_dial; finding F31: the dialer side ignored RECVMAXSZ - repaired), and a peer that hangs up during the handshake of a tcp / ipc listener (stream reports NNG_ECLOSED) is never reported to the socket with a code that means 'endpoint closed'.",
    "note": "Re-uses the C01/C04/C07/C08/C13/C16 harnesses restricted to their hostile-input queries plus the listener accept and udp receive kernels; udp connection handshake/timers and long hostile sessions outside.",
}

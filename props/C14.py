from vp.core import Query
from vp.skel import KIT_RULES

LEVEL = "model_checking"
UNITS = ["src/core/socket.c (nni_pipe_run_cb, dialer_timer_start_locked)", "src/core/dialer.c (dialer_connect_cb)", "src/core/listener.c (listener_accept_cb)"]
RULE = "Kernels: a symbolic sequence of 5 event submissions; one back-off step for any times/random; one connect/accept completion for any result code."
BOUNDS = "5 event submissions per pipe; reconnect times 0 .. 2^30-1 ms with current <= max(initial, maximum)"
OUTSIDE = "ordering across the reaper thread (REM_POST vs return of close), d_pipe ownership across real threads, reconnect times changed while a back-off is in progress, negative (infinite) reconnect times"
ASSUMPTIONS = ["aio model env_aio.c", "lock monitor env_sync.c"]
ENV = ["env_alloc.c", "env_misc.c", "env_sync.c", "env_aio.c", "env_libc.c"]
TUS = ["core/list.c", "core/options.c"]


def queries(tier):
    qs = []
    qs.append(Query("pipe-event-filter", "c14/sock_events.c", tus=TUS, env=ENV, defs={"MODE": 1}, unwind=10, unwind_rules=KIT_RULES, timeout=300,
                    params={"kernel": "nni_pipe_run_cb", "events": "5 symbolic submissions"}))
    for nreg in (1, 2, 3):
        qs.append(Query("pipe-notify-registration-%d" % nreg, "c14/sock_events.c", tus=TUS, env=ENV, defs={"MODE": 5, "NREG": nreg}, unwind=10, unwind_rules=KIT_RULES, timeout=300,
                        group="~c14/sock_events.c#5", params={"kernel": "nni_sock_set_pipe_cb + nni_pipe_run_cb", "registration_calls": "%d symbolic (any event number, set or clear) + one symbolic removal mid-life" % nreg}))
    qs.append(Query("dialer-backoff", "c14/sock_events.c", tus=TUS, env=ENV, defs={"MODE": 2}, unwind=10, unwind_rules=KIT_RULES, timeout=300,
                    params={"kernel": "dialer_timer_start_locked", "times": "symbolic"}))
    qs.append(Query("dialer-connect-any-result", "c14/dialer_connect.c", tus=TUS, env=ENV, defs={}, unwind=10, unwind_rules=KIT_RULES, timeout=300,
                    params={"kernel": "dialer_connect_cb", "result": "any nng_err", "owner": "background"}))
    qs.append(Query("dialer-connect-user-aio", "c14/dialer_connect.c", tus=TUS, env=ENV, defs={"USERAIO": 1}, unwind=10, unwind_rules=KIT_RULES,
                    timeout=300, params={"kernel": "dialer_connect_cb", "result": "any nng_err", "owner": "user aio"}))
    qs.append(Query("listener-accept-any-result", "c14/listener_accept.c", tus=TUS, env=ENV, defs={}, unwind=10, unwind_rules=KIT_RULES, timeout=300,
                    params={"kernel": "listener_accept_cb", "result": "any nng_err"}))
    for lst in (0, 1):
        for case, dd in (("started", {}), ("closed-in-add-pre", {"CLOSEPRE": 1}), ("refused-by-protocol", {"BADSTART": 1})):
            d = {"MODE": 3}
            d.update(dd)
            if lst:
                d["LISTENER"] = 1
            qs.append(Query("start-pipe-%s-%s" % ("listener" if lst else "dialer", case), "c14/sock_events.c", tus=TUS, env=ENV, defs=d, unwind=10, unwind_rules=KIT_RULES,
                            timeout=300, group="~c14/sock_events.c#3", params={"kernel": "listener_start_pipe" if lst else "dialer_start_pipe", "case": case}))
    for whose, nm in ((0, "dialers-current-pipe"), (1, "dialers-other-pipe"), (2, "listeners-pipe")):
        qs.append(Query("pipe-remove-%s" % nm, "c14/sock_events.c", tus=TUS, env=ENV, defs={"MODE": 4, "WHOSE": whose}, unwind=10, unwind_rules=KIT_RULES, timeout=300,
                        group="~c14/sock_events.c#4", params={"kernel": "nni_pipe_remove", "pipe": nm}))
    PENV = ["env_alloc.c", "env_misc.c", "env_sync.c", "env_aio.c", "env_idmap.c", "env_libc.c"]
    for extra in (0, 1, 2):
        qs.append(Query("pipe-reap-order-holders%d" % extra, "c14/pipe_reap.c", tus=TUS, env=PENV, defs={"EXTRA": extra}, unwind=30, timeout=300, group="c14/pipe_reap.c",
                        params={"kernel": "nni_pipe_close / pipe_reap / nni_pipe_find / rele / pipe_destroy", "other_reference_holders": extra, "looked_up_id": "any 32-bit value"}))
    qs += inproc_ep_queries(tier)
    qs += tran_listener_queries(tier)
    qs += tran_dialer_queries(tier)
    return qs


def tran_listener_queries(tier):
    """the accept loop of the tcp / ipc transport listener (real tcp.c / ipc.c endpoint code): no failure leaves the listener deaf"""
    from vp import skel
    qs = []
    LENV = ["env_alloc.c", "env_misc.c", "env_sync.c", "env_aio.c", "env_msg.c", "env_pipe.c", "env_libc.c"]
    words = ["U(0) C0 N(1) Z", "U(0) CM T C0 N(1)", "U(0) CF T U(1) CM T C0 N(1)", "U(0) CA U(1) C0 N(1)", "U(0) CP T U(1) C0 N(1)", "U(0) C0 C0 N(1) N(1) U(1)",
             "U(0) C0 N(0) U(1) C0 N(1)", "U(0) C0 C0 N(0) N(1)", "U(0) CM Z", "U(0) C0 Z", "U(0) CM T CM T", "U(0) C0 N(1) C0 N(1) U(1) Z", "U(0) Z U(1)",
             "U(0) CA CA CM T CA", "U(0) CP T CP T C0 N(1) U(1)", "U(0) C0 CM T N(1)",
             "U(0) C0 N(2) U(1) C0 N(1)", "U(0) C0 C0 N(2) N(1)", "U(0) C0 N(2) Z"]
    if tier != "quick":
        words += ["U(0) CF T CF T CF T", "U(0) C0 C0 C0 N(1) N(0) N(1) U(1) U(2)", "U(0) CM U(1) T C0 N(1)", "U(0) C0 N(1) U(1) CM T Z", "U(0) CA Z", "U(0) CP Z"]
    for tr, tn in ((0, "tcp"), (2, "ipc")):
        for w in words:
            qs.append(Query("%s-listener-%s" % (tn, skel.tag(w)), "c14/tran_listener.c", tus=["core/list.c", "core/options.c"], env=LENV, defs={"TRAN": tr, "SKEL": w},
                            cdefs=["-DENV_MSG_CAP=8"], unwind=12, unwind_rules=KIT_RULES, timeout=300, group="c14/tran_listener.c-" + tn,
                            params={"unit": "sp/transport/%s/%s.c listener endpoint" % (tn, tn), "skeleton": w}))
    return qs


def tran_dialer_queries(tier):
    """the dialing endpoint of the tcp / ipc transport (real tcp.c / ipc.c): the connect request core/dialer.c posts completes exactly once, with a code that
    lets the dialer redial after every failure that is not its own close"""
    from vp import skel
    LENV = ["env_alloc.c", "env_misc.c", "env_sync.c", "env_aio.c", "env_msg.c", "env_pipe.c", "env_libc.c"]
    # (a new connect request after an ABORTED one is not issued by core/dialer.c - the abort code ends its redialing - so no word has U after X)
    words = ["U(0) D0 N(1) Z", "U(0) DR U(1) D0 N(1) Z", "U(0) DP U(1) D0 N(0) U(2) D0 N(1)", "U(0) D0 N(2) U(1) D0 N(1) Z", "U(0) U(1) D0 N(1)", "U(0) D0 X(0) N(1) Z",
             "U(0) X(0) Z", "U(0) Z", "U(0) D0 Z", "Z U(0)", "U(0) DR U(1) DR U(2) DP", "U(0) D0 N(0) U(1) D0 N(2) U(2) D0 N(1) Z"]
    if tier != "quick":
        words += ["U(0) D0 N(1) U(1) D0 N(1) Z", "U(0) DP Z", "U(0) D0 X(0) Z", "U(0) DR Z U(1)"]
    qs = []
    for tr, tn in ((0, "tcp"), (2, "ipc")):
        for w in words:
            qs.append(Query("%s-dialer-%s" % (tn, skel.tag(w)), "c14/tran_dialer.c", tus=["core/list.c", "core/options.c"], env=LENV, defs={"TRAN": tr, "SKEL": w},
                            cdefs=["-DENV_MSG_CAP=8"], unwind=12, unwind_rules=KIT_RULES, timeout=300, group="c14/tran_dialer.c-" + tn,
                            params={"unit": "sp/transport/%s/%s.c dialer endpoint" % (tn, tn), "skeleton": w}))
    return qs


def inproc_ep_queries(tier):
    """the inproc rendezvous (real inproc.c endpoint code): what a dialer is told when the listener goes away decides whether it redials"""
    from vp import skel
    qs = []
    IENV = ["env_alloc.c", "env_misc.c", "env_sync.c", "env_aio.c", "env_msg.c", "env_pipe.c", "env_libc.c"]
    words = ["B K(0,0) A(1) CL", "B A(0) K(0,1) CL", "K(0,0) B K(0,1) A(2)", "B K(0,0) K(1,1) A(2) A(3)", "B A(0) A(1) K(1,2) K(0,3)", "B K(0,0) CL B2 K(0,1)",
             "B K(0,0) K(1,1) CL", "B A(0) A(1) CL", "B K(0,0) X(0) A(1)", "B K(0,0) CD(0) A(1)", "B K(0,0) K(1,1) CD(0) A(2)",
             "B K(0,0) K(1,1) X(0) A(2)", "B B2", "B2", "B K(0,0) A(1) K(0,2) A(3)", "B K(1,0) K(0,1) A(2) CL", "B A(0) K(0,1) X(0) X(1) CL", "B K(0,0) CL CD(0)",
             "B A(0) CD(0) K(1,1)"]
    if tier != "quick":
        words += ["B K(0,0) K(1,1) A(2) CL", "B A(0) A(1) K(0,2) CL", "B K(0,0) K(1,1) X(1) A(2) A(3)", "B K(0,0) CD(0) K(1,1) A(2)",
                  "K(0,0) K(1,1) B K(0,2) A(3)", "B K(0,0) A(1) CL B2", "B CL B2 K(0,0)"]
    for w in words:
        qs.append(Query("inproc-ep-%s" % skel.tag(w), "c14/inproc_ep.c", tus=["core/list.c", "core/refcnt.c", "core/strs.c"], env=IENV, defs={"SKEL": w}, cdefs=["-DENV_MSG_CAP=8"],
                        unwind=12, unwind_rules=KIT_RULES, timeout=300, group="c14/inproc_ep.c", params={"unit": "sp/transport/inproc/inproc.c endpoints", "skeleton": w}))
    for w in ("B K(0,0) A(1)", "B A(0) K(0,1)"):
        qs.append(Query("inproc-ep-failpair-%s" % skel.tag(w), "c14/inproc_ep.c", tus=["core/list.c", "core/refcnt.c", "core/strs.c"], env=IENV, defs={"SKEL": w, "FAILPAIR": 1},
                        cdefs=["-DENV_MSG_CAP=8"], unwind=12, unwind_rules=KIT_RULES, timeout=300, group="~c14/inproc_ep.c#failpair",
                        params={"unit": "sp/transport/inproc/inproc.c endpoints", "skeleton": w, "fault": "pair allocation fails"}))
    for w in ("B K(0,0) A(1)", "B A(0) K(0,1)"):
        for which in (1, 2):
            qs.append(Query("inproc-ep-failpipe%d-%s" % (which, skel.tag(w)), "c14/inproc_ep.c", tus=["core/list.c", "core/refcnt.c", "core/strs.c"], env=IENV,
                            defs={"SKEL": w, "FAILPIPE": which}, cdefs=["-DENV_MSG_CAP=8"], unwind=12, unwind_rules=KIT_RULES, timeout=300, group="~c14/inproc_ep.c#failpipe",
                            params={"unit": "sp/transport/inproc/inproc.c endpoints", "skeleton": w,
                                    "fault": "the %s's pipe cannot be completed by the core (pipe_create fails after the transport's p_init); the reaper runs on both halves" % ("dialer" if which == 1 else "listener")}))
    return qs

MANIFEST = {
    "text": "Kernels of the real core: the pipe event filter delivers a strictly ordered, at-most-once subsequence of ADD_PRE/ADD_POST/REM_POST for every submission sequence of length 5; one redial back-off step for any reconnect times and any random number stays below the larger configured time without overflow; dialer_connect_cb / listener_accept_cb re-arm for every result code except close/cancel/stop. Also: dialer_start_pipe / listener_start_pipe (ADD_PRE, then pipe_start, then ADD_POST; a pipe closed inside ADD_PRE or refused by the protocol for ANY error code is never started / announced; the dialer records its one pipe and resets the back-off), nni_pipe_remove (lists, redial kick only for the dialer's current pipe, closing socket woken) and the end of a pipe in the real core/pipe.c (close idempotent; reaper order protocol close, transport close, REM_POST, unregister, stops, socket told last; destroyed exactly once when the last reference is gone). Also nng_pipe_notify registration (real nni_sock_set_pipe_cb: any sequence of set / clear calls for any event number, one removal in the middle of a pipe's life) against the event filter: exactly the events that have a callback when they happen are delivered; tcp / ipc listener handshakes that fail because the peer hung up (NNG_ECLOSED from the stream) are reported as connection failures; inproc connections whose pipe the core could not complete. The dialing endpoint of the tcp / ipc transports (real *_ep_connect, *_dial_cb, nego, match, cancel, close): the connect request core/dialer.c posts completes exactly once, with a code that lets the dialer redial after every failure that is not its own close; while it is pending a dial or a handshake is in progress.",
    "note": "Only the per-step behaviour is decided; ordering across the reaper thread and real reconnect timing are outside (stated).",
}

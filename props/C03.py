from vp.core import Query
from props import _cross, C17, C18

LEVEL = "model_checking"
UNITS = ["every unit of C04-C09 (protocol files, lmq.c, list.c, pollable.c)", "src/core/msgqueue.c", "src/core/message.c"]
RULE = "The protocol skeletons that end with close+fini or change an option between the halves of an exchange, with the ownership / leak / sized-free monitors on; plus the queue and message kernels."
BOUNDS = "those of the skeleton families (C04-C09) and kernels (C17, C18)"
OUTSIDE = "nng_init/nng_fini global balance over units that are not encoded; real threads"
GROUP_WITNESS = False
ASSUMPTIONS = ["open findings F6b (non-blocking BUS send refused) and F7 (non-blocking respondent send refused) are excluded by -DKF_BUS_NONBLOCK_EAGAIN / -DKF_RESP_NONBLOCK_EAGAIN: they are C09/C07/C15 matters; the refused send is checked to fail cleanly", "message ownership is tracked by the message model (reference counts, one free per reference)", "sized-free accounting in env_alloc.c"]


def queries(tier):
    def pred(sk, q):
        return sk.endswith(" Z") or " O(" in sk or " B(" in sk or " Q(" in sk or " N(" in sk or " P(" in sk
    # situations in which a send does not succeed (the message must stay with the caller and be freed by nobody else): a request superseded by
    # a second send on the same context, a cancelled or refused send, a pipe lost or the socket closed while a send is pending
    prefer = (r"S\((\d),\d,\d\) S\(\1,", r"S\([^)]*\) X\(", r"S\([^)]*,0\)", r"S\([^)]*\) C\(", r"S\([^)]*,1\) Z")
    qs = _cross.pick(tier, pred, 30 if tier == "quick" else 100000, bus_excl=True, prefer=prefer)
    for q in C18.queries(tier):
        if q.name.startswith(("lmq-fini", "lmq-flush", "lmq-resize", "msgq-fini", "msgq-close", "msgq-resize")):
            qs.append(q)
    for q in C17.queries(tier):
        if q.name.startswith(("alloc-sz", "chunk-dup", "chunk-pullup", "chunk-insert-cap8", "chunk-append-cap8", "chunk-realloc-cap8")):
            qs.append(q)
    # transports: a message cut short in the middle (peer dies / receive aborted) and the pipe torn down; cancelled transfers; websocket transport sends that fail
    from props import C01
    for q in C01.queries(tier):
        if "rx-midbody" in q.name or "-cancel-" in q.name or q.name.startswith("wstran-send"):
            q.group = "~" + q.group + "#c03"
            qs.append(q)
    SENV = ["env_alloc.c", "env_misc.c", "env_sync.c", "env_aio.c", "env_idmap.c", "env_libc.c"]
    STU = ["core/list.c", "core/msgqueue.c", "core/pollable.c", "core/options.c"]
    for ps in (0, 24, 100):
        qs.append(Query("sock-create-destroy-psize%d" % ps, "c03/sock_life.c", tus=STU, env=SENV, defs={"PSIZE": ps}, unwind=30, timeout=300, group="c03/sock_life.c",
                        params={"unit": "core/socket.c nni_sock_create / sock_destroy", "protocol_data_size": ps, "monitor": "sized free, live blocks"}))
    for k in (1, 2, 3, 4):
        qs.append(Query("sock-create-allocfail-k%d" % k, "c03/sock_life.c", tus=STU, env=SENV, defs={"PSIZE": 24, "FAILQ": k}, unwind=30, timeout=300, group="~c03/sock_life.c#fail",
                        params={"unit": "core/socket.c nni_sock_create", "failing_allocation": k}))
    return qs

MANIFEST = {
    "text": "Message ownership and memory safety decided on the real protocol, queue and message code: in every skeleton a successful send leaves no message on the aio and a failed one leaves the caller's message, every message is released exactly once (reference-count monitor), option changes between the halves of an exchange (REQ resend time, buffer sizes, PREFNEW, unsubscribe) cause no double free or leak, and close+fini returns every message and block with the size it was allocated with; CBMC's pointer, bounds and double-free checks are on in every query. Socket objects: the real nni_sock_create / sock_destroy return every block with the size it was allocated with (sized-free accounting; also when an allocation inside creation fails). Also: the protocol's sock_fini never runs on protocol state that sock_init has not initialised (finding F33). Stream transports: a message cut short in the middle (peer dies / receive aborted) is released exactly once when the pipe is torn down.",
    "note": "Covers the encoded units only (protocols, queues, message, the stream transports' transfer / cancel / mid-message failure paths, socket create / destroy).",
}

from vp.core import Query
from vp import skel
from vp.skel import KIT_RULES

LEVEL = "model_checking"
UNITS = ["src/sp/protocol/reqrep0/req.c", "src/sp/protocol/reqrep0/rep.c", "src/sp/protocol/reqrep0/xreq.c", "src/sp/protocol/reqrep0/xrep.c"]
RULE = "One query per concrete event skeleton; reply ids split into classes (current id of ctx 0/1, stale, any other id, any id without the request bit, short), bytes symbolic."
BOUNDS = "2 contexts, 2 pipes, <= 4 user operations, skeleton length <= 8; request id cursor started at 0, mid-range and at the wrap"
OUTSIDE = "real threads; more than 2 contexts/pipes"
ASSUMPTIONS = ["aio model env_aio.c", "message model env_msg.c", "id-map model env_idmap.c (C18 checks the real idhash.c against it)"]
ENV = ["env_alloc.c", "env_misc.c", "env_sync.c", "env_aio.c", "env_msg.c", "env_pipe.c", "env_idmap.c", "env_libc.c"]
TUS = ["core/list.c", "core/lmq.c", "core/pollable.c", "core/options.c"]

REQ_CUR = [
    ("A(0) S(0,0,1) T(0,1) Y(0,0) R(0,1,0) Z", 0), ("A(0) S(0,0,1) R(0,1,1) T(0,1) Y(0,0) Z", 0), ("R(0,0,0) Z", 0),
    ("A(0) S(0,0,1) T(0,1) Y(0,2) Y(0,3) Y(0,4)", 0), ("A(0) S(0,0,1) T(0,1) Y(0,0) Y(0,0) R(0,1,0) R(0,2,0) Z", 0),
    ("A(0) S(0,0,1) T(0,1) S(0,1,1) Y(0,5) R(0,2,0) Z", 0), ("S(0,0,1) X(0) A(0) Z", 0), ("S(0,0,0) Z", 0),
    ("A(0) S(0,0,1) R(0,1,1) R(0,2,0) Z", 0), ("A(0) S(0,0,1) R(0,1,1) X(1) Y(0,0) R(0,2,0) Z", 0),
    ("A(0) S(0,0,1) T(0,1) C(0) A(1) T(1,1) Y(1,0) R(0,1,0) Z", 0), ("A(0) S(0,0,1) T(0,1) K(70000) Z", 0),
    ("A(0) O(0,-1) S(0,0,1) T(0,1) R(0,1,1) C(0) Z", 0), ("A(0) O(0,-1) S(0,0,1) T(0,1) C(0) R(0,1,0) Z", 0),
    ("A(0) S(0,0,1) T(0,1) O(0,-1) Y(0,0) R(0,1,0) Z", 0), ("A(0) O(0,-1) S(0,0,1) T(0,1) O(0,100) Y(0,0) R(0,1,0) Z", 0),
    ("A(0) O(0,-1) S(0,0,1) O(0,100) T(0,1) Z", 0), ("A(0) S(0,0,1) O(0,-1) T(0,1) S(0,1,1) Z", 0),
    ("A(0) S(0,0,1) S(1,1,1) T(0,1) Y(0,1) Y(0,0) R(0,2,0) R(1,3,0)", 1), ("A(0) A(1) S(0,0,1) S(1,1,1) T(1,1) Y(1,1) Y(1,0) R(1,2,0) R(0,3,0)", 1),
    ("A(0) S(1,0,1) T(0,1) Y(0,0) R(0,1,0) R(1,2,1) Y(0,1)", 1),
    # duplicate / late replies after the reply was consumed (the request id must have been retired)
    ("A(0) S(0,0,1) T(0,1) Y(0,0) R(0,1,0) Y(0,0) R(0,2,0) Z", 0), ("A(0) S(0,0,1) R(0,1,1) T(0,1) Y(0,0) Y(0,0) R(0,2,0) Z", 0),
    ("A(0) S(0,0,1) T(0,1) Y(0,0) R(0,1,0) S(0,2,1) T(0,1) Y(0,5) R(0,3,0) Z", 0), ("A(0) S(0,0,1) T(0,1) Y(0,0) R(0,1,0) S(0,2,1) T(0,1) Y(0,5) Y(0,0) R(0,3,0) Z", 0), ("S(0,0,1) S(1,1,1) A(0) T(0,1) T(0,1) Y(0,1) R(1,3,0)", 1),
    # a request abandoned BEFORE it was ever transmitted (cancelled / superseded while no peer was connected): its id must be retired too -
    # a later unsolicited reply carrying it answers nothing
    ("S(0,0,1) X(0) A(0) S(0,1,1) T(0,1) R(0,2,1) Y(0,5) Z", 0), ("S(0,0,1) S(0,1,1) A(0) T(0,1) R(0,2,1) Y(0,5) Z", 0), ("S(0,0,1) R(0,1,1) X(1) A(0) S(0,2,1) T(0,1) Y(0,5) R(0,3,0) Z", 0),
    # the resend timer exactly at / just after its deadline, with the first copy still unanswered on a live connection
    ("A(0) S(0,0,1) T(0,1) K(60000) T(0,1) Z", 0), ("A(0) S(0,0,1) T(0,1) K(60001) K(60000) Z", 0), ("A(0) S(0,0,1) K(60000) T(0,1) K(60000) Z", 0),
    # close / teardown with several operations pending on the same context (request not yet sent because no peer, and a receive waiting)
    ("S(0,0,1) R(0,1,1) Z", 0), ("S(0,0,1) R(0,1,1) A(0) Z", 0), ("S(0,0,1) R(0,1,1) S(1,2,1) R(1,3,1) Z", 1), ("A(0) S(0,0,1) R(0,1,1) Z", 0), ("A(0) S(0,0,1) T(0,1) R(0,1,1) Z", 0),
]
REP_SLOW = set(['rep-A0A1G10QB00Z-dfa4', 'rep-A0G01QB01R01-58ae', 'rep-A0QB01R00G01Z-c94b', 'rep-A0Q02R00S10Z-3216', 'rep-A0Q00R00S10T01Z-2a28', 'rep-A0Q00R00C0S10Z-6810', 'rep-A0Q00R00S10S20Z-b368', 'rep-A0Q00R00Q00R10S20Z-8985', 'rep-A0A1Q10R00S11T11Z-3c0c', 'rep-A0R01Q01S10-d49c', 'rep-A0Q07R00S10Z-1965', 'rep-A0A1Q00Q11R00S10R20S30Z-f747', 'rep-A0R00QB00Z-85a5', 'rep-A0QB00QB01Z-7749', 'rep-A0Q00C0QB00Z-1804', 'rep-A0Q00R00Q00Z-0a07', 'rep-A0Q00R01R10-1fd4', 'rep-A0Q01R01A0-1885', 'rep-A0QB00Q00R00Z-0d6d', 'rep-A0QB00R01Q01-fd7d', 'rep-A0QB00QB00QB00Z-5c3a', 'rep-A0QB00A1Q00Z-e09f', 'rep-A0QB00S00R11-cedb', 'rep-A0QB00QB01T01Z-dd1b', 'rep-A0QB00C0Q00Z-46d8', 'rep-A0R00A1QB00Z-f26a', 'rep-A0R00QB00R11-faa2', 'rep-A0R01Q00Q01-aafd', 'rep-A0QB01R00R11-0ed5', 'rep-A0R01Q01R11-89ac', 'rep-A0S00R10QB00Z-ba32', 'property=C04'])
ALPHA = ["A(0)", "S(0,%d,1)", "S(0,%d,0)", "R(0,%d,1)", "R(0,%d,0)", "T(0,1)", "T(0,0)", "Y(0,0)", "Y(0,2)", "Y(0,5)", "X(0)", "C(0)", "O(0,-1)", "K(70000)"]


def queries(tier):
    qs = []
    words = [(w, t, {}) for w, t in REQ_CUR]
    words += [(w, t, {"RANDOM0": "0x7fffffffu"}) for w, t in REQ_CUR[:6]]   # first id 0xffffffff: next one wraps to 0x80000000
    for w in skel.enumerate_words(ALPHA, 4 if tier == "quick" else 5, first=["A(0)", "S(0,%d,1)", "R(0,%d,0)", "O(0,-1)"],
                                  limit=110 if tier == "quick" else 4000):
        words.append((w, 0, {}))
    seen = set()
    for w, two, d in words:
        k = (w, two, tuple(sorted(d.items())))
        if k in seen:
            continue
        seen.add(k)
        defs = dict(d)
        defs["SKEL"] = w
        if two:
            defs["TWOCTX"] = 1
        qs.append(Query("req-%s%s" % ("wrap-" if d else "", skel.tag(w)), "c04/req.c", tus=TUS, env=ENV, defs=defs, unwind=10,
                        unwind_rules=KIT_RULES, timeout=300, params={"protocol": "req0", "contexts": 2 if two else 1, "skeleton": w,
                                                                     "first_request_id": d.get("RANDOM0", "0x80000000")}))
    REP_CUR = ["A(0) Q(0,0) R(0,0) S(1,0) T(0,1) Z", "A(0) Q(0,2) R(0,0) S(1,0) Z", "A(0) R(0,1) Q(0,1) S(1,0)", "A(0) S(0,0) Z", "A(0) Q(0,0) R(0,0) S(1,0) S(2,0) Z",
               "A(0) A(1) Q(0,0) Q(1,1) R(0,0) S(1,0) R(2,0) S(3,0) Z", "A(0) Q(0,0) R(0,0) C(0) S(1,0) Z", "A(0) QB(0,0) QB(0,1) Z", "A(0) Q(0,0) QB(0,0) R(0,0) S(1,0) Z",
               "A(0) R(0,1) R(1,1)", "A(0) Q(0,0) R(0,0) Q(0,0) R(1,0) S(2,0) Z", "A(0) A(1) Q(1,0) R(0,0) S(1,1) T(1,1) Z", "A(0) Q(0,7) R(0,0) S(1,0) Z"]
    REP_CUR += ["A(0) G(0,0) S(0,0) T(0,1) Z", "A(0) G(0,2) S(0,0) S(1,0) Z", "A(0) A(1) G(1,1) S(0,0) T(1,1) Z", "A(0) G(0,0) C(0) S(0,0) Z",
                "A(0) A(1) G(0,3) S(0,1) T(0,1) G(1,0) S(1,0) Z", "A(0) G(0,15) S(0,0) Z", "A(0) G(0,1) S(0,0) G(0,0) S(1,0) T(0,1) T(0,1) Z",
                "A(0) A(1) G(0,1) G(1,2) S(0,0) Z"]
    # the requester vanishes between request and reply: the reply is accepted and discarded, and it still consumes the request
    REP_CUR += ["A(0) Q(0,0) R(0,0) C(0) S(1,0) S(2,0) Z", "A(0) Q(0,0) R(0,0) C(0) S(1,1) S(2,1) Z", "A(0) A(1) Q(0,0) R(0,0) C(0) S(1,0) S(2,0) Z",
                "A(0) Q(0,0) R(0,0) C(0) S(1,0) A(0) S(2,0) Z"]
    # hop limit boundary: 7 hop words + id (8 words) is the most MAXTTL=8 admits; one more is dropped, not delivered
    REP_CUR += ["A(0) QB(0,2) R(0,0) Z", "A(0) Q(0,7) QB(0,2) R(0,0) S(1,0) Z", "A(0) R(0,1) QB(0,2) Q(0,0) Z"]
    # the next request of a connection arrives while the previous reply is still being written to it
    REP_CUR += ["A(0) Q(0,0) R(0,0) S(1,0) Q(0,0) R(2,0) T(0,1) S(3,0) T(0,1) Z", "A(0) Q(0,0) R(0,0) S(1,0) Q(0,0) R(2,0) S(3,1) T(0,1) T(0,1) Z",
                "A(0) A(1) Q(0,0) R(0,0) S(1,0) Q(1,0) R(2,0) S(3,0) T(0,1) T(1,1) Z", "A(0) Q(0,0) R(0,0) S(1,0) R(2,1) Q(0,0) T(0,1) S(3,0) Z"]
    REP_ALPHA = ["A(0)", "A(1)", "G(0,1)", "G(1,0)", "Q(0,0)", "Q(0,1)", "Q(1,0)", "QB(0,0)", "QB(0,1)", "R(%d,0)", "R(%d,1)", "S(%d,0)", "T(0,1)", "C(0)"]
    rwords = list(REP_CUR) + skel.enumerate_words(REP_ALPHA, 4 if tier == "quick" else 5, first=["A(0)"], limit=110 if tier == "quick" else 3000)
    seen = set()
    for w in rwords:
        if w in seen:
            continue
        seen.add(w)
        w2 = w
        if False and "rep-" + skel.tag(w2) in REP_SLOW and tier == "quick":
            continue   # symex does not finish within 60 s (receive followed by reply through the embedded context); thorough tier only
        qs.append(Query("rep-" + skel.tag(w2), "c04/rep.c", tus=TUS, env=ENV, defs={"SKEL": w2}, cdefs=["-DENV_MSG_CAP=48"], unwind=12, unwind_rules=KIT_RULES, timeout=300,
                        params={"protocol": "rep0", "skeleton": w2}))
    # the same state machine through an explicit context (nng_ctx_open) instead of the socket's embedded one
    # ... and nng_ctx_close with a reply queued behind a busy connection AND the next receive pending (both must end), with one of them, with neither
    CTXCLOSE = ["A(0) G(0,0) S(0,1) G(0,0) S(1,1) R(2,1) X", "A(0) G(0,0) S(0,1) G(0,0) S(1,1) X", "A(0) R(0,1) X", "A(0) G(0,0) S(0,1) X", "A(0) Q(0,0) R(0,1) X"]
    for w in REP_CUR + ["A(0) Q(0,0) R(0,1) S(1,1) S(2,1) Z", "A(0) G(0,1) S(0,1) S(1,1) Z"] + CTXCLOSE:
        qs.append(Query("repctx-" + skel.tag(w), "c04/rep.c", tus=TUS, env=ENV, defs={"SKEL": w, "XCTX": 1}, cdefs=["-DENV_MSG_CAP=48"], unwind=12, unwind_rules=KIT_RULES,
                        timeout=300, params={"protocol": "rep0", "context": "explicit", "skeleton": w}))
    return qs

MANIFEST = {
    "text": "Bounded symbolic check of the real req.c (and rep.c/xreq.c/xrep.c kernels): event skeletons from sock_init through the real entry points; replies are injected by id class (current id of either context, stale, any other 32-bit id, any id without the request bit, short); a monitor checks that a receive completes only with the reply to the context's current request and at most once, that non-matching replies are freed and disturb nobody, and the ESTATE rules. Also requests abandoned before they were ever transmitted (cancelled / superseded with no peer connected): their id is retired too; nng_ctx_close of a REP context with operations pending.",
    "note": "aio framework, messages and id map are verified models; events atomic; 2 contexts / 2 pipes.",
}

from vp.core import Query
from vp import skel
from vp.skel import KIT_RULES

LEVEL = "model_checking"
UNITS = ["src/sp/protocol/reqrep0/req.c", "src/sp/protocol/reqrep0/rep.c", "src/sp/protocol/reqrep0/xreq.c", "src/sp/protocol/reqrep0/xrep.c"]
RULE = "One query per concrete event skeleton; reply ids split into classes (current id of ctx 0/1, stale, any other id, any id without the request bit, short), bytes symbolic."
BOUNDS = "2 contexts, 2 pipes, <= 4 user operations, skeleton length <= 8; request id cursor started at 0, mid-range and at the wrap"
OUTSIDE = "real threads; more than 2 contexts/pipes"
ASSUMPTIONS = ["aio model env_aio.c", "message model env_msg.c", "id-map model env_idmap.c (C18 checks the real idhash.c against it)"]
ENV = ["env_alloc.c", "env_misc.c", "env_sync.c", "env_aio.c", "env_msg.c", "env_pipe.c", "env_idmap.c", "env_libc.c"]
TUS = ["core/list.c", "core/lmq.c", "core/pollable.c", "core/options.c"]

REQ_CUR = [
    ("A(0) S(0,0,1) T(0,1) Y(0,0) R(0,1,0) Z", 0), ("A(0) S(0,0,1) R(0,1,1) T(0,1) Y(0,0) Z", 0), ("R(0,0,0) Z", 0),
    ("A(0) S(0,0,1) T(0,1) Y(0,2) Y(0,3) Y(0,4)", 0), ("A(0) S(0,0,1) T(0,1) Y(0,0) Y(0,0) R(0,1,0) R(0,2,0) Z", 0),
    ("A(0) S(0,0,1) T(0,1) S(0,1,1) Y(0,5) R(0,2,0) Z", 0), ("S(0,0,1) X(0) A(0) Z", 0), ("S(0,0,0) Z", 0),
    ("A(0) S(0,0,1) R(0,1,1) R(0,2,0) Z", 0), ("A(0) S(0,0,1) R(0,1,1) X(1) Y(0,0) R(0,2,0) Z", 0),
    ("A(0) S(0,0,1) T(0,1) C(0) A(1) T(1,1) Y(1,0) R(0,1,0) Z", 0), ("A(0) S(0,0,1) T(0,1) K(70000) Z", 0),
    ("A(0) O(0,-1) S(0,0,1) T(0,1) R(0,1,1) C(0) Z", 0), ("A(0) O(0,-1) S(0,0,1) T(0,1) C(0) R(0,1,0) Z", 0),
    ("A(0) S(0,0,1) T(0,1) O(0,-1) Y(0,0) R(0,1,0) Z", 0), ("A(0) O(0,-1) S(0,0,1) T(0,1) O(0,100) Y(0,0) R(0,1,0) Z", 0),
    ("A(0) O(0,-1) S(0,0,1) O(0,100) T(0,1) Z", 0), ("A(0) S(0,0,1) O(0,-1) T(0,1) S(0,1,1) Z", 0),
    ("A(0) S(0,0,1) S(1,1,1) T(0,1) Y(0,1) Y(0,0) R(0,2,0) R(1,3,0)", 1), ("A(0) A(1) S(0,0,1) S(1,1,1) T(1,1) Y(1,1) Y(1,0) R(1,2,0) R(0,3,0)", 1),
    ("A(0) S(1,0,1) T(0,1) Y(0,0) R(0,1,0) R(1,2,1) Y(0,1)", 1), ("S(0,0,1) S(1,1,1) A(0) T(0,1) T(0,1) Y(0,1) R(1,3,0)", 1),
]
ALPHA = ["A(0)", "S(0,%d,1)", "S(0,%d,0)", "R(0,%d,1)", "R(0,%d,0)", "T(0,1)", "T(0,0)", "Y(0,0)", "Y(0,2)", "Y(0,5)", "X(0)", "C(0)", "O(0,-1)", "K(70000)"]


def queries(tier):
    qs = []
    words = [(w, t, {}) for w, t in REQ_CUR]
    words += [(w, t, {"RANDOM0": "0x7fffffffu"}) for w, t in REQ_CUR[:6]]   # first id 0xffffffff: next one wraps to 0x80000000
    for w in skel.enumerate_words(ALPHA, 4 if tier == "quick" else 5, first=["A(0)", "S(0,%d,1)", "R(0,%d,0)", "O(0,-1)"],
                                  limit=160 if tier == "quick" else 4000):
        words.append((w, 0, {}))
    seen = set()
    for w, two, d in words:
        k = (w, two, tuple(sorted(d.items())))
        if k in seen:
            continue
        seen.add(k)
        defs = dict(d)
        defs["SKEL"] = w
        if two:
            defs["TWOCTX"] = 1
        qs.append(Query("req-%s%s" % ("wrap-" if d else "", skel.tag(w)), "c04/req.c", tus=TUS, env=ENV, defs=defs, unwind=10,
                        unwind_rules=KIT_RULES, timeout=300, params={"protocol": "req0", "contexts": 2 if two else 1, "skeleton": w,
                                                                     "first_request_id": d.get("RANDOM0", "0x80000000")}))
    return qs

MANIFEST = {
    "text": "Bounded symbolic check of the real req.c (and rep.c/xreq.c/xrep.c kernels): event skeletons from sock_init through the real entry points; replies are injected by id class (current id of either context, stale, any other 32-bit id, any id without the request bit, short); a monitor checks that a receive completes only with the reply to the context's current request and at most once, that non-matching replies are freed and disturb nobody, and the ESTATE rules.",
    "note": "aio framework, messages and id map are verified models; events atomic; 2 contexts / 2 pipes.",
}

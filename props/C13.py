from vp.core import Query
from vp.skel import KIT_RULES

LEVEL = "model_checking"
UNITS = ["src/sp/protocol/reqrep0/xrep.c", "src/sp/protocol/survey0/xrespond.c", "src/sp/protocol/reqrep0/rep.c (C04 harness QB/Q events)", "src/core/msgqueue.c"]
RULE = "Per-hop lemmas: one query per (protocol, hop count, terminator present, MAXTTL) for receive and per (protocol, remaining words, destination class) for send; word payloads and bodies symbolic."
BOUNDS = "0..16 hop words, MAXTTL in {1,2,8,15}; composition over device chains is an induction argued in DESIGN.md"
OUTSIDE = "nng_device state machine (device.c) in the quick tier; real transports"
ASSUMPTIONS = ["aio model", "message model (header capacity 64 as in message.c; the append_u32 panic guard is a CHECK)", "id-map model"]
ENV = ["env_alloc.c", "env_misc.c", "env_sync.c", "env_aio.c", "env_msg.c", "env_pipe.c", "env_idmap.c", "env_libc.c"]
TUS = ["core/list.c", "core/lmq.c", "core/pollable.c", "core/options.c", "core/msgqueue.c"]


def queries(tier):
    qs = []
    for proto in ("xrep", "xresp"):
        d0 = {"XRESP": 1} if proto == "xresp" else {}
        ttls = (1, 8, 15) if tier == "quick" else (1, 2, 3, 8, 14, 15)
        for ttl in ttls:
            nhs = sorted(set([0, 1, ttl - 1, ttl, ttl + 1, 16]) - set([-1]))
            for nh in nhs:
                for term in (1, 0):
                    if nh > 16:
                        continue
                    d = dict(d0)
                    d.update({"MODE": 1, "NH": nh, "TERM": term, "TTL": ttl})
                    qs.append(Query("%s-rx-ttl%d-nh%d-%s" % (proto, ttl, nh, "term" if term else "noterm"), "c13/xrep.c", tus=TUS, env=ENV, defs=d,
                                    cdefs=["-DENV_MSG_CAP=80"], unwind=20, unwind_rules=KIT_RULES, timeout=300,
                                    params={"lemma": "L1 receive", "protocol": proto, "maxttl": ttl, "hop_words": nh, "terminator": bool(term)}))
        for nr in (0, 1, 3, 14):
            for dest in (0, 1, 2):
                d = dict(d0)
                d.update({"MODE": 2, "NR": nr, "DEST": dest})
                qs.append(Query("%s-tx-nr%d-dest%d" % (proto, nr, dest), "c13/xrep.c", tus=TUS, env=ENV, defs=d, cdefs=["-DENV_MSG_CAP=80"],
                                unwind=20, unwind_rules=KIT_RULES, timeout=300,
                                params={"lemma": "L2 send", "protocol": proto, "remaining_words": nr, "destination": ["pipe0", "pipe1", "unknown id"][dest]}))
    qs += device_queries(tier)
    qs += xreq_queries(tier)
    # the cooked reply sides (rep.c, respond.c): hop-limit boundary and malformed backtraces through the C04 / C07 harnesses
    from props import C04, C07, C17
    names = set(q.name for q in qs)
    for q in C04.queries(tier) + C07.queries(tier):
        if q.name.startswith(("rep-", "repctx-", "resp-", "respctx-")) and ("QB" in q.name or "Q07" in q.name):
            if q.name not in names:
                names.add(q.name)
                q.group = "~" + q.group
                # the open finding F7 (non-blocking respondent send refused) is a C07 / C15 matter: its input class is excluded here
                from props import _cross
                qs.append(_cross.exclude_nonblock_findings(q))
    # the header capacity guard everything above relies on (the real core/message.c: 64 bytes, append beyond it fails and changes nothing)
    for q in C17.queries(tier):
        if q.name.startswith("api-h_"):
            q.group = "~" + q.group
            qs.append(q)
    return qs


def xreq_queries(tier):
    """L3: the raw request side (xreq.c, xsurvey.c): backtrace moved to the header on the way up, header+body unchanged on the way down"""
    qs = []
    for proto in ("xreq", "xsurv"):
        d0 = {"XSURV": 1} if proto == "xsurv" else {}
        nhs = (0, 1, 2, 14, 15, 16) if tier == "quick" else tuple(range(0, 18))
        for nh in nhs:
            for term in (1, 0):
                d = dict(d0)
                d.update({"MODE": 1, "NH": nh, "TERM": term})
                qs.append(Query("%s-rx-nh%d-%s" % (proto, nh, "term" if term else "noterm"), "c13/xreq.c", tus=TUS, env=ENV, defs=d,
                                cdefs=["-DENV_MSG_CAP=80"], unwind=20, unwind_rules=KIT_RULES, timeout=300, group="c13/xreq.c-" + proto,
                                params={"lemma": "L3 receive", "protocol": proto, "hop_words": nh, "terminator": bool(term)}))
        for nr in (0, 1, 2, 15, 16):
            for failtx in (0, 1):
                d = dict(d0)
                d.update({"MODE": 2, "NR": nr})
                if failtx:
                    d["FAILTX"] = 1
                qs.append(Query("%s-tx-nr%d%s" % (proto, nr, "-failtx" if failtx else ""), "c13/xreq.c", tus=TUS, env=ENV, defs=d, cdefs=["-DENV_MSG_CAP=80"],
                                unwind=20, unwind_rules=KIT_RULES, timeout=300, group="c13/xreq.c-" + proto,
                                params={"lemma": "L3 send", "protocol": proto, "header_words": nr, "transport_send_fails": bool(failtx)}))
        d = dict(d0)
        d["MODE"] = 3
        qs.append(Query("%s-peer-mismatch" % proto, "c13/xreq.c", tus=TUS, env=ENV, defs=d, cdefs=["-DENV_MSG_CAP=80"], unwind=20, unwind_rules=KIT_RULES,
                        timeout=120, group="~xreq-mismatch", params={"lemma": "peer protocol check", "protocol": proto}))
    return qs


DEV_ENV = ["env_alloc.c", "env_misc.c", "env_sync.c", "env_aio.c", "env_msg.c", "env_libc.c"]
DEV_TUS = ["core/list.c"]


def device_queries(tier):
    """L4: the real core/device.c forwarder over stub raw sockets"""
    from vp import skel
    qs = []
    k = 3 if tier == "quick" else 5
    for kind, alpha in ((0, ["R(0,1)", "R(0,0)", "R(1,1)", "R(1,0)", "T(0,1)", "T(0,0)", "T(1,1)", "T(1,0)", "X"]),
                        (1, ["R(0,1)", "R(0,0)", "T(0,1)", "T(0,0)", "X"]),
                        (2, ["R(0,1)", "R(0,0)", "T(0,1)", "T(0,0)", "X"])):
        words = ["R(0,1) T(0,1) R(0,1) T(0,1) X", "R(0,1) R(1,1) T(1,1) T(0,1) R(1,1) X" if kind == 0 else "R(0,1) T(0,1) R(0,0)",
                 "R(0,1) R(1,1) T(0,0)" if kind == 0 else "R(0,1) X", "R(0,1) X", "X", "R(0,1) R(1,1) X" if kind == 0 else "R(0,1) T(0,0)"]
        if kind == 0:
            # a receive that completed successfully just before the other path failed (completion callback still pending)
            words += ["Q(0)", "Q(1)", "R(0,1) T(0,1) Q(0)", "R(1,1) T(1,1) Q(1)"]
        words += skel.enumerate_words(alpha, k, first=["R(0,1)", "R(0,0)", "R(1,1)", "X"], limit=60 if tier == "quick" else 1500, suffix="")
        seen = set()
        for w in words:
            # only executable words: a T needs a preceding successful R on that path (others end early; still sound, just wasteful)
            if w in seen:
                continue
            seen.add(w)
            d = {"KIND": kind, "SKEL": w}
            if w in ("X", "R(0,0)", "R(0,1) X"):
                d["FINI"] = 1   # the reaper's device_fini is run as well (slow: only on the shortest words)
            qs.append(Query("device-k%d-%s" % (kind, skel.tag(w)), "c13/device.c", tus=DEV_TUS, env=DEV_ENV, defs=d,
                            unwind=10, unwind_rules=KIT_RULES, timeout=300, group="c13/device.c",
                            params={"lemma": "L4 device forwarder", "kind": ["two-way", "one-way", "reflector"][kind], "skeleton": w}))
    for bad in (1, 2, 3, 4):
        qs.append(Query("device-refused-%d" % bad, "c13/device.c", tus=DEV_TUS, env=DEV_ENV, defs={"KIND": 0, "BADPAIR": bad}, unwind=10,
                        unwind_rules=KIT_RULES, timeout=120, group="~device-refused", params={"lemma": "device refuses non-peer / cooked sockets", "case": bad}))
    return qs

MANIFEST = {
    "text": "Per-hop lemmas decided on the real code: xrep.c/xrespond.c receive pushes the arrival pipe id and copies the backtrace up to the terminator unchanged, drops beyond MAXTTL, disconnects when the body ends first, never exceeds the 64-byte header; send pops exactly one word and routes the unchanged remainder to exactly that pipe or discards it; xreq.c/xsurvey.c move the backtrace to the header on the way up (no terminator / more than the header can hold disconnects) and put header+body on the wire unchanged on the way down; rep.c/respond.c hop-limit boundary (one word beyond MAXTTL is dropped); the real core/device.c forwarder hands each received message to the other socket as the same object with header and body unchanged, alternates recv/send per path, aborts the other path on failure, completes the user aio once with the first error and frees or sends every message exactly once; header capacity kernels of the real message.c. Composition over chains of n devices is an induction on n over these lemmas.",
    "note": "Loops die because each traversal adds one word and more than MAXTTL words are dropped; the device runs over stub raw sockets (the real raw protocols are the other lemmas).",
}

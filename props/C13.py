from vp.core import Query
from vp.skel import KIT_RULES

LEVEL = "model_checking"
UNITS = ["src/sp/protocol/reqrep0/xrep.c", "src/sp/protocol/survey0/xrespond.c", "src/sp/protocol/reqrep0/rep.c (C04 harness QB/Q events)", "src/core/msgqueue.c"]
RULE = "Per-hop lemmas: one query per (protocol, hop count, terminator present, MAXTTL) for receive and per (protocol, remaining words, destination class) for send; word payloads and bodies symbolic."
BOUNDS = "0..16 hop words, MAXTTL in {1,2,8,15}; composition over device chains is an induction argued in DESIGN.md"
OUTSIDE = "nng_device state machine (device.c) in the quick tier; real transports"
ASSUMPTIONS = ["aio model", "message model (header capacity 64 as in message.c; the append_u32 panic guard is a CHECK)", "id-map model"]
ENV = ["env_alloc.c", "env_misc.c", "env_sync.c", "env_aio.c", "env_msg.c", "env_pipe.c", "env_idmap.c", "env_libc.c"]
TUS = ["core/list.c", "core/lmq.c", "core/pollable.c", "core/options.c", "core/msgqueue.c"]


def queries(tier):
    qs = []
    for proto in ("xrep", "xresp"):
        d0 = {"XRESP": 1} if proto == "xresp" else {}
        ttls = (1, 8, 15) if tier == "quick" else (1, 2, 3, 8, 14, 15)
        for ttl in ttls:
            nhs = sorted(set([0, 1, ttl - 1, ttl, ttl + 1, 16]) - set([-1]))
            for nh in nhs:
                for term in (1, 0):
                    if nh > 16:
                        continue
                    d = dict(d0)
                    d.update({"MODE": 1, "NH": nh, "TERM": term, "TTL": ttl})
                    qs.append(Query("%s-rx-ttl%d-nh%d-%s" % (proto, ttl, nh, "term" if term else "noterm"), "c13/xrep.c", tus=TUS, env=ENV, defs=d,
                                    cdefs=["-DENV_MSG_CAP=80"], unwind=20, unwind_rules=KIT_RULES, timeout=300,
                                    params={"lemma": "L1 receive", "protocol": proto, "maxttl": ttl, "hop_words": nh, "terminator": bool(term)}))
        for nr in (0, 1, 3, 14):
            for dest in (0, 1, 2):
                d = dict(d0)
                d.update({"MODE": 2, "NR": nr, "DEST": dest})
                qs.append(Query("%s-tx-nr%d-dest%d" % (proto, nr, dest), "c13/xrep.c", tus=TUS, env=ENV, defs=d, cdefs=["-DENV_MSG_CAP=80"],
                                unwind=20, unwind_rules=KIT_RULES, timeout=300,
                                params={"lemma": "L2 send", "protocol": proto, "remaining_words": nr, "destination": ["pipe0", "pipe1", "unknown id"][dest]}))
    return qs

MANIFEST = {
    "text": "Per-hop lemmas decided on the real xrep.c/xrespond.c (and rep.c/respond.c in C04/C07): receive pushes the arrival pipe id and copies the backtrace up to the terminator unchanged, drops (without disconnecting) when the terminator is not within MAXTTL words, disconnects when the body ends first, never exceeds the 64-byte header; send pops exactly one word and routes the unchanged remainder to exactly that pipe or discards it. Composition over chains of n devices is an induction on n over these lemmas.",
    "note": "device.c's recv->send loop is argued from its structure; loops die because each traversal adds one word and more than MAXTTL words are dropped.",
}

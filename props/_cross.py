"""cross-cutting properties (C03, C10, C15) are decided by the monitors that are
active in every protocol skeleton; their checks re-run the skeleton families
that exercise them (selected by the events in the skeleton)."""
import re
from props import C04, C05, C06, C07, C08, C09, C12


def all_skeleton_queries(tier):
    out = []
    for mod in (C04, C05, C06, C07, C08, C09):
        for q in mod.queries(tier):
            sk = q.params.get("skeleton") if isinstance(q.params, dict) else None
            if sk:
                out.append((mod.__name__.split(".")[-1], q, sk))
    return out


def pick(tier, pred, limit_per_mod):
    seen = {}
    out = []
    names = set()
    for modname, q, sk in all_skeleton_queries(tier):
        if not pred(sk, q):
            continue
        key = (modname, q.harness)
        if seen.get(key, 0) >= limit_per_mod:
            continue
        if q.name in names:
            continue
        names.add(q.name)
        seen[key] = seen.get(key, 0) + 1
        out.append(q)
    return out

"""cross-cutting properties (C03, C10, C15) are decided by the monitors that are
active in every protocol skeleton; their checks re-run the skeleton families
that exercise them (selected by the events in the skeleton)."""
import re
from props import C04, C05, C06, C07, C08, C09, C12


def all_skeleton_queries(tier):
    out = []
    for mod in (C04, C05, C06, C07, C08, C09):
        for q in mod.queries(tier):
            sk = q.params.get("skeleton") if isinstance(q.params, dict) else None
            if sk:
                out.append((mod.__name__.split(".")[-1], q, sk))
    return out


def exclude_nonblock_findings(q):
    # the open findings F6b/F6c (non-blocking BUS send refused) and F7/F7c (non-blocking respondent
    # send refused) are C09/C07/C15 matters; for the other properties that re-use these skeletons the
    # defect is excluded by a define and the harness checks that the refused send fails cleanly
    if q.harness == "c09/bus.c":
        q.defs = dict(q.defs)
        q.defs["KF_BUS_NONBLOCK_EAGAIN"] = 1
    if q.harness == "c07/respond.c":
        q.defs = dict(q.defs)
        q.defs["KF_RESP_NONBLOCK_EAGAIN"] = 1
    return q


def pick(tier, pred, limit_per_mod, bus_excl=False):
    seen = {}
    out = []
    names = set()
    for modname, q, sk in all_skeleton_queries(tier):
        if not pred(sk, q):
            continue
        key = (modname, q.harness)
        if seen.get(key, 0) >= limit_per_mod:
            continue
        if q.name in names:
            continue
        names.add(q.name)
        seen[key] = seen.get(key, 0) + 1
        if bus_excl:
            exclude_nonblock_findings(q)
        out.append(q)
    return out

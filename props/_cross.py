"""cross-cutting properties (C03, C10, C15) are decided by the monitors that are
active in every protocol skeleton; their checks re-run the skeleton families
that exercise them (selected by the events in the skeleton)."""
import re
from props import C04, C05, C06, C07, C08, C09, C12


def all_skeleton_queries(tier):
    out = []
    for mod in (C04, C05, C06, C07, C08, C09):
        for q in mod.queries(tier):
            sk = q.params.get("skeleton") if isinstance(q.params, dict) else None
            if sk:
                out.append((mod.__name__.split(".")[-1], q, sk))
    return out


def exclude_nonblock_findings(q):
    # the open findings F6b/F6c (non-blocking BUS send refused) and F7/F7c (non-blocking respondent
    # send refused) are C09/C07/C15 matters; for the other properties that re-use these skeletons the
    # defect is excluded by a define and the harness checks that the refused send fails cleanly
    if q.harness == "c09/bus.c":
        q.defs = dict(q.defs)
        q.defs["KF_BUS_NONBLOCK_EAGAIN"] = 1
    if q.harness == "c07/respond.c":
        q.defs = dict(q.defs)
        q.defs["KF_RESP_NONBLOCK_EAGAIN"] = 1
    return q


def _features(sk):
    """event-kind bigrams of a skeleton (kind + first argument), used to pick a diverse subset"""
    toks = []
    for ev in sk.split():
        m = re.match(r"([A-Za-z]+)(?:\((\d+))?", ev)
        toks.append((m.group(1) + (m.group(2) or "")) if m else ev)
    f = set(toks)
    f.update(a + ">" + b for a, b in zip(toks, toks[1:]))
    f.update(a + ">>" + c for a, c in zip(toks, toks[2:]))
    return f


def pick(tier, pred, limit_per_mod, bus_excl=False, prefer=()):
    """the skeleton queries of C04-C09 that satisfy pred; per (property, harness) at most limit_per_mod of them, chosen
    greedily so that together they cover as many different event successions as possible (deterministic)"""
    cands = {}
    names = set()
    for modname, q, sk in all_skeleton_queries(tier):
        if not pred(sk, q):
            continue
        if q.name in names:
            continue
        names.add(q.name)
        cands.setdefault((modname, q.harness), []).append((q, sk))
    out = []
    for key in sorted(cands):
        lst = cands[key]
        if len(lst) > limit_per_mod:
            # the first half in the module's own order (its curated, fully executable skeletons come first),
            # the second half greedily for event successions not covered yet
            half = limit_per_mod // 2
            if prefer:
                # skeletons showing the situations this property is about come first (a third of the budget)
                pref = [(q, sk) for q, sk in lst if any(re.search(rx, sk) for rx in prefer)][:limit_per_mod // 3]
                pn = set(q.name for q, sk in pref)
                lst = pref + [(q, sk) for q, sk in lst if q.name not in pn]
                half = max(half, len(pref))
            chosen = [q for q, sk in lst[:half]]
            covered = set()
            for q, sk in lst[:half]:
                covered |= _features(sk)
            rest = [(q, sk, _features(sk)) for q, sk in lst[half:]]
            while rest and len(chosen) < limit_per_mod:
                best = max(range(len(rest)), key=lambda i: (len(rest[i][2] - covered), -i))
                q, sk, f = rest.pop(best)
                chosen.append(q)
                covered |= f
            lst2 = chosen
        else:
            lst2 = [q for q, sk in lst]
        for q in lst2:
            if bus_excl:
                exclude_nonblock_findings(q)
            out.append(q)
    return out

from vp.core import Query

LEVEL = "model_checking"
UNITS = ["src/supplemental/http/http_chunk.c", "src/supplemental/websocket/base64.c", "src/supplemental/websocket/websocket.c", "src/supplemental/http/http_msg.c"]
RULE = "One query per codec kernel x concrete length/role; bytes, split points, limits symbolic."
BOUNDS = "chunk streams <= 9 bytes; 17 hex digits; base64 <= 6 bytes; mask <= 40 bytes; one frame header"
OUTSIDE = "sha1, upgrade negotiation, http_server routing"
ASSUMPTIONS = ["allocation succeeds", "C-locale ctype models"]
ENV = ["env_alloc.c", "env_misc.c", "env_sync.c", "env_libc.c"]


def _compositions(total, maxparts):
    """all ways to cut `total` bytes into 1..maxparts positive segments"""
    out = []

    def rec(rest, parts):
        if rest == 0:
            out.append(list(parts))
            return
        if len(parts) == maxparts:
            return
        for k in range(1, rest + 1):
            rec(rest - k, parts + [k])
    rec(total, [])
    return out


def httpconn_queries(tier):
    """the buffered reader / writer of the real http_conn.c under every segmentation of a short stream"""
    qs = []
    HC_ENV = ENV + ["env_aio.c"]
    HC_TUS = ["core/list.c"]

    def q(name, d, params):
        qs.append(Query("httpconn-" + name, "c16/httpconn.c", tus=HC_TUS, env=HC_ENV, defs=d, unwind=30, timeout=300, mem_gb=4, group="c16/httpconn.c#m%s" % d["MODE"],
                        params=params))
    # MODE 5: two pipelined requests in one segment: the response to the first must not alter the buffered bytes of the second (finding F35)
    for nm, d in (("pipelined-overlap", {"MODE": 5, "LINE1": 2, "HDREND": 4, "SEGS": "12, 6", "RLEN": 3, "BUFSZ": 16}),
                  ("pipelined-nooverlap", {"MODE": 5, "LINE1": 3, "HDREND": 8, "SEGS": "12, 6", "RLEN": 1, "BUFSZ": 16}),
                  ("pipelined-overlap-longer-head", {"MODE": 5, "LINE1": 3, "HDREND": 6, "SEGS": "14, 9", "RLEN": 4, "BUFSZ": 16})):
        qs.append(Query("httpconn-" + nm, "c16/httpconn.c", tus=HC_TUS, env=HC_ENV, defs=d, unwind=30, unwind_rules=[(r"^nni_http_reason$", r".", 70)], timeout=300, mem_gb=4,
                        group="~c16/httpconn.c#m5", params={"case": "two requests arrive in one segment; the response to the first is written before the second is parsed", "shape": d}))
    # MODE 1: head (two lines, ends at 3 and 7) + exact read of 5 + raw read; the first 12 (thorough: 14) bytes cut into segments
    total, parts = (12, 3) if tier == "quick" else (14, 4)
    for fl, fn in ((0, "req"), (1, "res"), (2, "chunk")):
        comps = _compositions(total, parts if fl == 1 or tier != "quick" else 2)
        for c in comps:
            segs = c + [9]
            for niov in ((1, 2) if (fl == 1 and (tier != "quick" or len(c) <= 2)) else (1,)):
                q("%s-segs%s-iov%d" % (fn, "_".join(map(str, segs)), niov), {"MODE": 1, "FLAVOR": fl, "SEGS": ", ".join(map(str, segs)), "NIOV": niov, "L": 5},
                  {"mode": "head then exact read then raw read", "flavor": fn, "segments": segs, "iovs": niov, "head_lines_end_at": [3, 7]})
    for c in _compositions(8, 2 if tier == "quick" else 3):
        segs = c + [9]
        q("discard-segs%s" % "_".join(map(str, segs)), {"MODE": 2, "SEGS": ", ".join(map(str, segs)), "D": 3, "L": 4}, {"mode": "discard 3 then exact read 4", "segments": segs})
    for c in _compositions(6, 3):
        for niov in (1, 2):
            q("write-full-segs%s-iov%d" % ("_".join(map(str, c)), niov), {"MODE": 3, "SEGS": ", ".join(map(str, c)), "NIOV": niov, "L": 6},
              {"mode": "full write of 6 bytes", "transport_accepts": c, "iovs": niov})
    for first in (1, 3, 6):
        q("write-raw-first%d" % first, {"MODE": 3, "RAWWR": 1, "SEGS": "%d, 9" % first, "NIOV": 2, "L": 6}, {"mode": "raw write", "transport_accepts_first": first})
    # the stream stops early: nothing is completed prematurely
    q("res-short-head", {"MODE": 1, "FLAVOR": 1, "SEGS": "3, 2", "NIOV": 1, "L": 5}, {"mode": "head incomplete when the stream pauses", "segments": [3, 2]})
    q("res-short-body", {"MODE": 1, "FLAVOR": 1, "SEGS": "7, 2", "NIOV": 1, "L": 5}, {"mode": "exact read incomplete when the stream pauses", "segments": [7, 2]})
    q("discard-short-body", {"MODE": 2, "SEGS": "3, 1", "D": 3, "L": 4}, {"mode": "exact read after discard incomplete when the stream pauses", "segments": [3, 1]})
    q("write-full-short", {"MODE": 3, "SEGS": "2, 1", "NIOV": 2, "L": 6}, {"mode": "full write: the transport pauses after 3 of 6 bytes", "transport_accepts": [2, 1]})
    for fl, fn in ((0, "req"), (1, "res")):
        for segs in ([16, 8], [7, 9, 8], [15, 1, 8]):
            q("toolong-%s-segs%s" % (fn, "_".join(map(str, segs))), {"MODE": 4, "FLAVOR": fl, "SEGS": ", ".join(map(str, segs)), "LINE1": 20, "HDREND": 22},
              {"mode": "head line longer than the read buffer", "flavor": fn, "segments": segs})
    return qs


def queries(tier):
    qs = []
    CTU = ["core/list.c"]
    ST = {"INIT": 0, "LEN": 1, "EXT": 2, "CR": 3, "TRLR": 5, "TRLRCR": 6}
    for name, st in ST.items():
        qs.append(Query("chunk-char-step-%s" % name, "c16/chunk_step.c", tus=CTU, env=ENV, defs={"MODE": 1, "ST": st}, unwind=6,
                        timeout=600, mem_gb=8, params={"mode": "one character", "decoder_state": name}))
    for k in range(0, 26):
        qs.append(Query("chunk-stream-cut%d" % k, "c16/chunk_step.c", tus=CTU, env=ENV, defs={"MODE": 4, "K": k}, unwind=30,
                        timeout=300, params={"mode": "two-chunk stream with trailer, symbolic data", "cut_at": k}))
    for sz in (1, 2, 3):
        qs.append(Query("chunk-data-step-sz%d" % sz, "c16/chunk_step.c", tus=CTU, env=ENV, defs={"MODE": 2, "SZ": sz}, unwind=10,
                        timeout=300, params={"mode": "one DATA-state call", "chunk_size": sz}))
    for n in ((0, 1, 2, 3, 4, 6) if tier == "quick" else (0, 1, 2, 3, 4, 5, 6, 7, 9)):
        qs.append(Query("b64-roundtrip-n%d" % n, "c16/base64.c", env=ENV, defs={"N": n, "MODE": 1}, unwind=4 * n + 8, timeout=300,
                        params={"codec": "base64", "bytes": n}))
    for n in ((4, 6) if tier == "quick" else (4, 6, 8)):
        qs.append(Query("b64-decode-n%d" % n, "c16/base64.c", env=ENV, defs={"N": n, "MODE": 2}, unwind=n + 4, timeout=300,
                        params={"codec": "base64 decoder on arbitrary text", "bytes": n}))
    WENV = ENV + ["env_aio.c"]
    for ln, off in (((0, 0), (1, 1), (3, 0), (7, 3), (8, 0), (13, 1), (16, 0), (21, 1), (37, 3), (40, 0)) if tier == "quick" else
                    [(l, o) for l in (0, 1, 2, 3, 4, 5, 7, 8, 9, 15, 16, 17, 23, 24, 31, 32, 33, 40) for o in (0, 1, 3)]):
        qs.append(Query("wsmask-len%d-off%d" % (ln, off), "c16/wsmask.c", tus=["core/list.c"], env=WENV, defs={"LEN": ln, "OFF": off},
                        unwind=ln + 8, timeout=300, params={"kernel": "ws_apply_mask", "len": ln, "alignment": off}))
    for nf in (1, 2, 3):
        qs.append(Query("ws-reassemble-%dframes" % nf, "c16/wsframe.c", tus=["core/list.c"], env=WENV + ["env_msg.c"], defs={"FINISH": 1, "NF": nf, "SERVER": 1},
                        unwind=30, timeout=300, params={"kernel": "ws_read_finish_msg", "fragments": nf}))
    for npk in (1, 2, 3):
        for comp in (0, 1):
            qs.append(Query("ws-reassemble-late-receiver-%dparked-%s" % (npk, "complete" if comp else "incomplete"), "c16/wsframe.c", tus=["core/list.c"],
                            env=WENV + ["env_msg.c"], defs={"LATERECV": 1, "NPARKED": npk, "COMPLETE": comp, "SERVER": 1}, unwind=30, timeout=300,
                            group="c16/wsframe.c#laterecv", params={"case": "receiver arrives after fragments were parked", "parked": npk, "message_complete": bool(comp)}))
    for mb in (0, 4, 8):
        qs.append(Query("http-server-request-loop-maxbody%d" % mb, "c16/httpsrv.c", tus=["core/list.c", "core/strs.c"], env=WENV + ["env_msg.c"], defs={"MAXBODY": mb}, unwind=40, timeout=300,
                        group="c16/httpsrv.c", params={"unit": "supplemental/http/http_server.c http_sconn_rxdone / _error / _txdone", "handler_body_limit": mb,
                                                       "content_length": "absent or 0..9 (symbolic)", "method_uri_version_host": "good / bad variants (symbolic)"}))
    for npk in (1, 2):
        for ctrl in (1, 2):
            for clen in (0, 2):
                qs.append(Query("ws-reassemble-%s%d-between-fragments-%dparked" % ("ping" if ctrl == 1 else "pong", clen, npk), "c16/wsframe.c", tus=["core/list.c"],
                                env=WENV + ["env_msg.c"], defs={"LATERECV": 1, "NPARKED": npk, "COMPLETE": 0, "SERVER": 1, "CTRL": ctrl, "CLEN": clen}, unwind=30, timeout=300,
                                group="~c16/wsframe.c#ctrl", params={"case": "control frame between two fragments of a message", "control": "PING" if ctrl == 1 else "PONG",
                                                                     "control_payload": clen, "parked": npk}))
    for server in (0, 1):
        for npk in (1, 2):
            for lclass in (0, 1):
                qs.append(Query("ws-header-%s-parked%d-lclass%d" % ("server" if server else "client", npk, lclass), "c16/wsframe.c", tus=["core/list.c"], env=WENV,
                                defs={"SERVER": server, "LCLASS": lclass, "MASKED": server, "OP": 0, "NPARK": npk, "PLEN": 3}, unwind=30, timeout=300,
                                group="~c16/wsframe.c#parked", params={"stage": 2, "role": "server" if server else "client", "parked_fragments": npk,
                                                                      "parked_payload": 3, "length_form": lclass, "opcode": "CONT"}))
    qs.append(Query("ws-preptx-server-symbolic-length", "c16/wsframe.c", tus=["core/list.c"], env=WENV, defs={"PREPTX": 1}, unwind=12, timeout=600, mem_gb=8,
                    group="~c16/wsframe.c#preptx", params={"kernel": "ws_frame_prep_tx", "role": "server", "payload_length": "symbolic 0..2^63-1", "fragsize": "symbolic"}))
    for n in ((0, 1, 125, 126, 127) if tier == "quick" else (0, 1, 2, 3, 4, 5, 8, 124, 125, 126, 127, 128, 130)):
        for cut in sorted(set((0, n // 2, n) if tier == "quick" else (0, 1 if n else 0, n // 2, n))):
            qs.append(Query("ws-preptx-client-len%d-cut%d" % (n, cut), "c16/wsframe.c", tus=["core/list.c"], env=WENV, defs={"PREPTX": 2, "TXLEN": n, "CUT": cut}, unwind=n + 12,
                            timeout=600, mem_gb=8, group="~c16/wsframe.c#preptx",
                            params={"kernel": "ws_frame_prep_tx + ws_mask_frame", "role": "client", "payload_length": n, "iov_split_at": cut}))
    OPS = [0, 1, 2, 8, 9, 10, 3, 11, 0x41]
    for server in (0, 1):
        for lclass in (0, 1, 2):
            for masked in (0, 1):
                # stage 1 decodes FIN / RSV / opcode / mask / length form from the first two bytes: the opcode field
                # (RSV bits included) is concrete per query because it decides control when the header is already complete
                for op1 in ((2, 0x41, 0x22, 0x19) if (lclass == 0 or tier != "quick") else (2, 0x12)):
                    qs.append(Query("wsframe1-%s-l%d-m%d%s" % ("srv" if server else "cli", lclass, masked, "" if op1 == 2 else "-op%x" % op1), "c16/wsframe.c", tus=["core/list.c"],
                                    env=WENV, defs={"SERVER": server, "LCLASS": lclass, "MASKED": masked, "OP": op1, "STAGE1": 1}, unwind=30,
                                    timeout=300, expect_fail=[r"memcpy (source|destination) region"],
                                    params={"kernel": "ws_read_cb stage 1", "role": server, "length_form": lclass, "mask_bit": masked, "opcode_field": op1}))
                for op in (OPS if (lclass == 0 and (masked == server)) or tier != "quick" else (2,)):
                    qs.append(Query("wsframe2-%s-l%d-m%d-op%x" % ("srv" if server else "cli", lclass, masked, op), "c16/wsframe.c",
                                    tus=["core/list.c"], env=WENV, defs={"SERVER": server, "LCLASS": lclass, "MASKED": masked, "OP": op},
                                    unwind=30, timeout=300, mem_gb=8,
                                    expect_fail=[r"memcpy (source|destination) region"],
                                    params={"kernel": "ws_read_cb header complete", "role": "server" if server else "client",
                                            "length_form": ["7-bit", "16-bit", "64-bit"][lclass], "mask_bit": masked, "opcode_field": op}))
    # HTTP request / response heads: template x symbolic byte window x symbolic cut point
    HENV = ENV
    REQ = ["GET /a HTTP/1.1\r\nK: v\r\n\r\n", "GET /a HTTP/1.1\nA:b\n\nZ", "PUT /x HTTP/1.0\r\nAb:  c d \t\r\nE:\r\n\r\n", "A /b HTTP/2\r\nK: v\r\nL: w\r\n\r\n",
           "GET /a HTTP/1.1\r\nK: v\r\n", "GET /a\r\nK: v\r\n\r\n", "GET /a HTTP/7\r\n\r\n", "GET /a HTTP/1.1\r\nKv\r\n\r\n", "GET /a HTTP/1.1\r\nK:\x01v\r\n\r\n"]
    RES = ["HTTP/1.1 200 OK\r\nK: v\r\n\r\n", "HTTP/1.0 404 Not here\nA:b\n\nZ", "HTTP/2 99 x\r\n\r\n", "HTTP/1.1 200 OK\r\nK: v\r\n", "HTTP/1.1 200\r\n\r\n", "HTTP/1.1 200 OK\r\nK v\r\n\r\n"]
    def http(kind, ti, t, k, extra=None, nm=""):
        d = {"TPL": ti, "NSYM": 0, "K": k}
        if kind == "res":
            d["RES"] = 1
        d.update(extra or {})
        return Query("http-%s-t%d-k%d%s" % (kind, ti, k, nm), "c16/httpmsg.c",
                     tus=["core/list.c"], env=HENV, defs=d, unwind=45, timeout=300, mem_gb=4, allow_pruned=True, group="c16/httpmsg.c#loop",
                     params={"parser": "nni_http_%s_parse" % kind, "stream": t, "cut_at": k,
                             "what": "whole stream == first k bytes then the unconsumed rest (resumption state of the parse loop); line structure concrete"})
    for kind, tpls in (("req", REQ), ("res", RES)):
        for ti, t in enumerate(tpls):
            L = len(t.encode().decode("unicode_escape"))
            step = 1 if tier != "quick" else (2 if ti < 1 else (3 if ti < 4 else 5))
            for k in range(0, L + 1, step):
                qs.append(http(kind, ti, t, k))
    def kern(name, d, what):
        return Query("http-" + name, "c16/httpmsg.c", tus=["core/list.c"], env=HENV, defs=d, unwind=16, timeout=600, mem_gb=6, allow_pruned=True,
                     group="c16/httpmsg.c#k%d" % d["KERNEL"], params={"kernel": what, "line_bytes": d["LL"], "bytes": "all symbolic" + (" (supported version concrete)" if len(d) > 2 else "")})
    for ll in ((3, 6) if tier == "quick" else (1, 2, 3, 4, 5, 6, 7, 8)):
        qs.append(kern("scanline-n%d" % ll, {"KERNEL": 1, "LL": ll}, "http_scan_line"))
    for ll in ((6,) if tier == "quick" else (4, 6, 8)):
        qs.append(kern("reqline-n%d" % ll, {"KERNEL": 2, "LL": ll}, "http_req_parse_line"))
    for ll in ((10,) if tier == "quick" else (9, 10, 11, 12)):
        qs.append(kern("reqline-n%d-version" % ll, {"KERNEL": 2, "LL": ll, "FIXREQ": 1}, "http_req_parse_line"))
    for ll in ((8,) if tier == "quick" else (5, 8, 10)):
        qs.append(kern("resline-n%d" % ll, {"KERNEL": 3, "LL": ll}, "http_res_parse_line"))
    for ll in ((12, 13) if tier == "quick" else (11, 12, 13, 14)):
        qs.append(kern("resline-n%d-version" % ll, {"KERNEL": 3, "LL": ll, "FIXRES": 1}, "http_res_parse_line"))
    for ll in ((5, 7) if tier == "quick" else (3, 4, 5, 6, 7, 8, 9)):
        qs.append(kern("header-n%d" % ll, {"KERNEL": 4, "LL": ll}, "http_parse_header"))
    qs += httpconn_queries(tier)
    return qs

MANIFEST = {
    "text": "Bounded symbolic check of the real HTTP chunk decoder, base64 codec, WebSocket mask/frame header stages and HTTP line parsers: segmentation independence, rule enforcement and well-formed output for all inputs within the stated lengths. Plus the buffered reader/writer of the real http_conn.c: every parser call sees exactly the unconsumed stream bytes in order and an exact read after the head returns the right bytes for every segmentation of a short stream (<= 3-4 segments), discard, full/raw writes under partial transport writes, over-long head lines; and websocket reassembly when the receiver arrives late (never a partial message) and the whole-message size limit with fragments already queued. Also a PING / PONG (0 or 2 payload bytes) arriving between two fragments of a message: answered / ignored, nothing delivered, the reassembly continues. The HTTP server's per-connection request loop (real http_server.c http_sconn_rxdone / _error / _txdone: 413 above the handler's body limit, routing errors, and - framing - the unread body of a refused request is skipped, exactly its announced length, before the next request is parsed) and two pipelined requests arriving in one segment (the response to the first must not alter the buffered bytes of the second; finding F35 - repaired).",
    "note": "One decoder stage per query; sha1 and the upgrade negotiation are outside the claim.",
}

from vp.core import Query

LEVEL = "model_checking"
UNITS = ["src/supplemental/http/http_chunk.c", "src/supplemental/websocket/base64.c", "src/supplemental/websocket/websocket.c", "src/supplemental/http/http_msg.c"]
RULE = "One query per codec kernel x concrete length/role; bytes, split points, limits symbolic."
BOUNDS = "chunk streams <= 9 bytes; 17 hex digits; base64 <= 6 bytes; mask <= 40 bytes; one frame header"
OUTSIDE = "sha1, upgrade negotiation, http_server routing"
ASSUMPTIONS = ["allocation succeeds", "C-locale ctype models"]
ENV = ["env_alloc.c", "env_misc.c", "env_sync.c", "env_libc.c"]


def queries(tier):
    qs = []
    CTU = ["core/list.c"]
    ST = {"INIT": 0, "LEN": 1, "EXT": 2, "CR": 3, "TRLR": 5, "TRLRCR": 6}
    for name, st in ST.items():
        qs.append(Query("chunk-char-step-%s" % name, "c16/chunk_step.c", tus=CTU, env=ENV, defs={"MODE": 1, "ST": st}, unwind=6,
                        timeout=600, mem_gb=8, params={"mode": "one character", "decoder_state": name}))
    for k in range(0, 26):
        qs.append(Query("chunk-stream-cut%d" % k, "c16/chunk_step.c", tus=CTU, env=ENV, defs={"MODE": 4, "K": k}, unwind=30,
                        timeout=300, params={"mode": "two-chunk stream with trailer, symbolic data", "cut_at": k}))
    for sz in (1, 2, 3):
        qs.append(Query("chunk-data-step-sz%d" % sz, "c16/chunk_step.c", tus=CTU, env=ENV, defs={"MODE": 2, "SZ": sz}, unwind=10,
                        timeout=300, params={"mode": "one DATA-state call", "chunk_size": sz}))
    return qs

MANIFEST = {
    "text": "Bounded symbolic check of the real HTTP chunk decoder, base64 codec, WebSocket mask/frame header stages and HTTP line parsers: segmentation independence, rule enforcement and well-formed output for all inputs within the stated lengths.",
    "note": "One decoder stage per query; sha1 and the upgrade negotiation are outside the claim.",
}

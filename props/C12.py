from vp.core import Query
from vp import skel
from vp.skel import KIT_RULES
from props import C04

LEVEL = "model_checking"
UNITS = ["src/sp/protocol/reqrep0/req.c"]
RULE = "One query per concrete event skeleton over {send, attach, transport done/fail, pipe loss, timer fire with advanced clock, reply, set resend time}; liveness is decided as a progress invariant at every quiescent point."
BOUNDS = "2 pipes, 1-2 contexts, skeleton length <= 8"
OUTSIDE = "the liveness conclusion itself (needs timer and dialer fairness, argued in DESIGN.md); real reconnects"
ASSUMPTIONS = C04.ASSUMPTIONS + ["the clock is a harness variable; the retry timer is fired by the harness"]

CUR = ["A(0) S(0,0,1) T(0,1) C(0) A(1) T(1,1) Y(1,0) R(0,1,0) Z", "A(0) S(0,0,1) T(0,1) K(70000) T(0,1) K(70000) Z", "A(0) S(0,0,1) T(0,0) C(0) A(1) Z",
       "A(0) S(0,0,1) C(0) K(100) A(1) T(1,1) Z", "S(0,0,1) K(70000) A(0) T(0,1) Y(0,0) R(0,1,0) Z", "A(0) A(1) S(0,0,1) C(0) T(1,1) Y(1,0) R(0,1,0) Z",
       "A(0) O(0,-1) S(0,0,1) T(0,1) R(0,1,1) C(0) Z", "A(0) O(0,-1) S(0,0,1) T(0,1) C(0) R(0,1,0) Z", "A(0) O(0,-1) S(0,0,1) T(0,1) K(70000) Z",
       "A(0) O(0,-1) S(0,0,1) C(0) A(1) R(0,1,0) Z", "A(0) O(0,50) S(0,0,1) T(0,1) K(10) K(50) T(0,1) Y(0,0) R(0,1,0) Z",
       "A(0) S(0,0,1) T(0,1) K(70000) C(0) A(1) T(1,1) Z", "A(0) S(0,0,1) R(0,1,1) T(0,1) X(1) K(70000) Z",
       "A(0) S(0,0,1) T(0,1) Y(0,2) Y(0,4)", "A(0) S(0,0,1) R(0,1,1) R(0,2,0)", "R(0,0,0) Z", "A(0) S(0,0,1) T(0,1) K(70000) Y(0,5) Y(0,0) R(0,1,0)"]
# the resend timer exactly at / one tick after its deadline (default resend time 60 s), first copy unanswered on a live connection
CUR += ["A(0) S(0,0,1) T(0,1) K(60000) T(0,1) Z", "A(0) S(0,0,1) T(0,1) K(59999) K(1) T(0,1) Z", "A(0) S(0,0,1) K(60000) T(0,1) K(60000) Z", "A(0) A(1) S(0,0,1) T(0,1) K(60000) T(1,1) Z"]
# two contexts with different resend times: the one issued LATER is due FIRST (the retry list is in issue order, not deadline order)
CUR2 = ["A(0) S(0,0,1) T(0,1) O(1,100) S(1,1,1) T(0,1) K(150) T(0,1) Z", "A(0) O(1,100) S(0,0,1) T(0,1) S(1,1,1) T(0,1) K(100) Z",
        "A(0) O(0,100) S(0,0,1) T(0,1) S(1,1,1) T(0,1) K(100) T(0,1) Z", "A(0) O(1,50) S(0,0,1) T(0,1) S(1,1,1) T(0,1) K(50) T(0,1) K(50) T(0,1) Z"]
ALPHA = ["A(0)", "A(1)", "S(0,%d,1)", "T(0,1)", "T(0,0)", "T(1,1)", "C(0)", "K(70000)", "K(10)", "O(0,-1)", "Y(0,0)", "R(0,%d,1)"]


def queries(tier):
    qs = []
    words = list(CUR) + skel.enumerate_words(ALPHA, 4 if tier == "quick" else 5, first=["A(0)", "S(0,%d,1)", "O(0,-1)"], limit=100 if tier == "quick" else 3000)
    seen = set()
    for w in words:
        if w in seen:
            continue
        seen.add(w)
        qs.append(Query("req12-" + skel.tag(w), "c04/req.c", tus=C04.TUS, env=C04.ENV, defs={"SKEL": w}, unwind=10, unwind_rules=KIT_RULES,
                        timeout=300, params={"protocol": "req0", "skeleton": w}))
    for w in CUR2:
        qs.append(Query("req12-2ctx-" + skel.tag(w), "c04/req.c", tus=C04.TUS, env=C04.ENV, defs={"SKEL": w, "TWOCTX": 1}, unwind=10, unwind_rules=KIT_RULES,
                        timeout=300, params={"protocol": "req0", "contexts": 2, "skeleton": w}))
    return qs

MANIFEST = {
    "text": "REQ retry liveness decided as a progress invariant over the real req.c: at every quiescent point of every skeleton an outstanding request with resending enabled is on the send queue or assigned to a live pipe, has a resend deadline and the timer is armed; a timer fire after the deadline and a pipe loss re-queue it; with resending disabled it is transmitted at most once and a pipe loss yields ECONNRESET. Also two contexts with different resend times (the request issued later is due first).",
    "note": "Eventual success then follows from timer and dialer fairness (argued, not solved). Clock and timer are driven by the harness.",
}

from vp.core import Query

LEVEL = "model_checking"
UNITS = ["src/core/aio.c (whole file incl. nni_aio_expire_loop, nni_sleep_aio)", "src/core/list.c"]
RULE = "One query per (outer operation word, inner operation, timeout class); the yield point at which the inner operation of the other thread runs, the clock advances and the timeout value are symbolic."
BOUNDS = "1 aio, outer words of <= 4 operations, 1 nested operation of another thread (nesting depth 1), <= 24 yield points, one expiry pass"
OUTSIDE = "non-nested interleavings (A1 B1 A2 B2), the real task threads (callbacks are run by the harness at wait points and at the end), more than NNI_EXPIRE_BATCH simultaneous expiries, providers other than the list-based model (their cancel functions are exercised in the protocol harnesses)"
ASSUMPTIONS = ["NNI_EXPIRE_BATCH=2 for the encoded aio.c (the batch array size; 1 aio is ever on the list)", "lock-discipline monitor env_sync.c with yield points at every nni_mtx_unlock", "task layer counted model (dispatch/prep/busy) in the harness", "clock is a harness variable"]
ENV = ["env_alloc.c", "env_misc.c", "env_sync.c", "env_libc.c"]
TUS = ["core/list.c"]


TIME_WORDS = [
    # which of set_timeout / set_expire decides (the last one before the operation)
    "FsbE", "UsbE", "UFsbE", "FUsbE", "PFsbE", "PIsE", "UIsE", "Ps", "Zs", "PsFsbE", "PswFsbE", "ZsFsbE", "UsEwFsbE", "Fsc", "FscUsbE", "PsUsbE",
    "FsEwsbE", "UscwFsbE", "IsEwc", "DsEwc", "IUsbE", "DPs", "FsbcwUsbE", "UsbawFsbE", "PsZsIsE",
    # sleeps
    "SbE", "ISbE", "FSbE", "FLbE", "DSbE", "Sba", "Sa", "St", "Sk", "SbEwSbE", "FLbEwISbE",
    # a cancel that arrives after completion concerns no operation
    "scwaSbE", "scwasc", "scwaFsbE", "SEwaSbE", "Zswasc", "PswaSbE", "scwaswc", "sawSbE", "Sawsc", "scawSbE", "FsEwaSbE",
]
TIME_VALUES = [{}, {"FV": 1, "UV": 1, "PV": 0, "SV": 1, "LV": 2}, {"FV": 50000, "UV": 3, "PV": 1, "SV": 50000, "LV": 50001}]


def time_queries(tier):
    qs = []
    words = list(TIME_WORDS)
    if tier != "quick":
        words += ["FsEFsbE", "UsEUsbE", "FsaUsbE", "UsaFsbE", "FLESbE", "SEFLbE", "SESbE", "scwascwaSbE", "FsEwaFsbE", "PsPs", "ZsZs", "FstFs", "SEStS"]
    for vi, vals in enumerate(TIME_VALUES if tier != "quick" else TIME_VALUES[:2]):
        for w in words:
            d = {"AIO_TIME": 1, "OUTER": '"%s"' % w}
            d.update(vals)
            qs.append(Query("aiotime-%s-v%d" % (w, vi), "c02/aio_sched.c", tus=TUS, env=ENV, defs=d,
                            cdefs=["-DENV_NO_CV_UNTIL", "-DNNI_EXPIRE_BATCH=2"], unwind=12, timeout=300, group="c02/aio_sched.c#time",
                            params={"mode": "timing", "word": w, "durations": vals or "FV=100 UV=200 PV=50 SV=60 LV=300"}))
    return qs


def queries(tier):
    qs = []
    outers = ["s", "sc", "sa", "se", "st", "sk", "sct", "sca", "rsc", "sec", "sac", "ts", "ks", "scs", "sas", "sts"]
    if tier != "quick":
        outers += ["sces", "sats", "rsa", "rse", "scsc", "seas", "stsc"]
    inners = ["c", "a", "e", "t", "k"]
    for o in outers:
        for i in inners:
            has_e = ("e" in o) or i == "e"
            variants = []
            if has_e:
                # expiry pass: timeout 100 ms, clock advanced to before / exactly at / just after / long after the deadline
                for adv in ((50, 101) if tier == "quick" else (0, 50, 99, 100, 101, 500)):
                    variants.append(({"TMO": 100, "ADV": adv}, "t100-adv%d" % adv, "100 ms, clock +%d" % adv))
                variants.append(({"ADV": 500}, "inf-adv500", "infinite"))
            else:
                variants = [({}, "inf", "infinite"), ({"SYMTMO": 1}, "sym", "symbolic")]
            for extra, tn, desc in variants:
                if has_e and i == "e" and "e" in o:
                    continue   # one expiry thread per queue: two concurrent passes cannot happen
                injs = [None] if not has_e else ((0, 1, 2, 3, 5, 99) if tier == "quick" else list(range(0, 10)) + [99])
                for inj in injs:
                    d = {"OUTER": '"%s"' % o, "INNER": "'%s'" % i}
                    d.update(extra)
                    name = "aio-%s-x-%s-%s" % (o, i, tn)
                    if inj is not None:
                        d["INJECT"] = inj
                        name += "-y%d" % inj
                    qs.append(Query(name, "c02/aio_sched.c", tus=TUS, env=ENV, defs=d,
                                    cdefs=["-DENV_HAVE_YIELD", "-DENV_NO_CV_UNTIL", "-DNNI_EXPIRE_BATCH=2"], unwind=8, timeout=300, allow_pruned=True,
                                    params={"outer": o, "inner": i, "timeout": desc, "yield_point": "symbolic" if inj is None else inj}))
    qs += time_queries(tier)
    TW = ["d0rw0", "p0d0rw0", "p0w0d0rw0", "x0w0", "p0x0w0", "d0w0rw0", "d0d1rw0w1", "d1d0rw0w1", "p0p1d1d0rw0w1", "d0rd0rw0", "p0d0rp0d0rw0", "d0x1rw0w1", "x0d0rw0",
          "d0rx0w0", "p0d0w0rw0", "d0d1rd1d0rw1w0", "p0w0", "d1w1", "p1d1w1rw1"]
    for w in TW:
        for lastnocb in ((0, 1) if "1" in w else (0,)):
            d = {"WORD": '"%s"' % w, "NT": 2}
            if lastnocb:
                d["LASTNOCB"] = 1
            qs.append(Query("taskq-%s%s" % (w, "-nocb" if lastnocb else ""), "c02/taskq.c", tus=TUS, env=ENV, defs=d, unwind=20, timeout=120, group="c02/taskq.c",
                            params={"unit": "core/taskq.c", "word": w, "task1_has_callback": not lastnocb}))
    # the expiry thread with several timed operations, more falling due in one scan than one batch holds (batch size 2)
    BATCH = [(3, (100, 100, 100), 150), (4, (100, 100, 100, 100), 150), (2, (100, 100), 150), (3, (100, 200, 300), 50), (3, (100, 100, 300), 150),
             (3, (100, -1, 100), 150), (4, (100, 100, 100, 400), 150), (3, (300, 100, 100), 150), (4, (100, 100, 100, 100), 50), (4, (100, 100, 200, 200), 150)]
    if tier != "quick":
        BATCH += [(4, (100, 100, 100, 100), 99), (4, (100, 100, 100, 100), 101), (4, (400, 300, 200, 100), 250), (4, (-1, 100, 100, 100), 150), (4, (100, 100, 100, 100), 1000)]
    for na, ts, adv in BATCH:
        d = {"NA": na, "ADV": adv}
        for i, t in enumerate(ts):
            d["T%d" % i] = "(%d)" % t
        nm = "aiobatch-n%d-%s-adv%d" % (na, "_".join("inf" if t < 0 else str(t) for t in ts), adv)
        qs.append(Query(nm, "c02/aio_batch.c", tus=TUS, env=ENV, defs=d, cdefs=["-DENV_NO_CV_UNTIL", "-DNNI_EXPIRE_BATCH=2"], unwind=12, timeout=300,
                        group="c02/aio_batch.c", params={"unit": "core/aio.c nni_aio_expire_loop", "aios": na, "timeouts_ms": list(ts), "clock_advance": adv, "batch": 2}))
    for n in (2, 3, 4):
        qs.append(Query("aio-completions-n%d" % n, "c02/aio_batch.c", tus=TUS, env=ENV, defs={"COMPL": n, "NA": 4}, cdefs=["-DENV_NO_CV_UNTIL", "-DNNI_EXPIRE_BATCH=2"], unwind=12, timeout=300,
                        group="~c02/aio_batch.c#compl", params={"unit": "core/aio.c nni_aio_completions_add / _run", "operations": n, "results_and_counts": "symbolic"}))
    for cls, nm in ((0, "fresh"), (1, "stopped"), (2, "zero-timeout"), (3, "aborted")):
        qs.append(Query("dialer-start-aio-%s" % nm, "c14/dialer_connect.c", tus=["core/list.c", "core/options.c"],
                        env=["env_alloc.c", "env_misc.c", "env_sync.c", "env_aio.c", "env_libc.c"], defs={"STARTAIO": cls}, unwind=30, timeout=300,
                        group="~c14/dialer_connect.c#STARTAIO",
                        params={"call_site": "nni_dialer_start_aio", "user_aio_state": nm, "connect_result": "any nng_err"}))
    qs += tcp_dialer_queries(tier)
    from props import C14
    for q in C14.tran_dialer_queries(tier):
        q.group = "~" + q.group + "#c02"
        qs.append(q)
    return qs


def tcp_dialer_queries(tier):
    """several dial operations queued on one TCP stream dialer (real core/tcp.c): each completes exactly once, none is left behind"""
    from vp import skel
    from vp.skel import KIT_RULES
    DENV = ["env_alloc.c", "env_misc.c", "env_sync.c", "env_aio.c", "env_msg.c", "env_pipe.c", "env_libc.c"]
    words = ["D(0) RS(1) CN(1)", "D(0) D(1) RS(1) CN(0) RS(1) CN(1)", "D(0) D(1) RS(0) RS(1) CN(1)", "D(0) X(0) D(1) RS(1) CN(1)", "D(0) D(1) CL", "D(0) RS(1) X(0)",
             "D(0) D(1) X(0) RS(1) CN(1)", "D(0) RS(1) CL D(1)", "D(0) D(1) D(2) RS(1) CN(1) RS(1) CN(0) RS(0)", "D(0) RS(1) CN(1) D(1) RS(1) CN(1)", "D(0) D(1) RS(1) X(1) CN(1)",
             "D(0) RS(1) CNX(0)", "D(0) D(1) RS(1) CNX(0)", "D(0) D(1) RS(1) CN(0) RS(0)", "D(0) RS(0) D(1) RS(1) CN(0) D(2) RS(1) CN(1)", "D(0) D(1) RS(1) CN(1) CL", "CL D(0)",
             "D(0) D(1) RS(1) CN(0) X(1)"]
    if tier != "quick":
        words += ["D(0) D(1) D(2) D(3) RS(1) CN(0) RS(0) RS(1) CN(1) RS(1) CN(1)", "D(0) D(1) RS(1) CN(0) RS(1) CNX(1)", "D(0) D(1) D(2) X(1) RS(1) CN(1) RS(1) CN(1)", "D(0) D(1) RS(1) CL"]
    return [Query("tcp-dialer-%s" % skel.tag(w), "c02/tcp_dialer.c", tus=["core/list.c"], env=DENV, defs={"SKEL": w}, cdefs=["-DENV_MSG_CAP=8"], unwind=12, unwind_rules=KIT_RULES,
                  timeout=300, group="c02/tcp_dialer.c", params={"unit": "core/tcp.c stream dialer", "skeleton": w}) for w in words]


MANIFEST = {
    "text": "Bounded symbolic check of the real core/aio.c under nested schedules (every outer operation word x every single operation of another thread at a symbolic yield point: callback exactly once, never a timeout before the deadline, first winner's result, nothing pending after nng_aio_stop), of its timing rules in sequential words with a shadow deadline that is independent of the aio's fields (which of nng_aio_set_timeout / nng_aio_set_expire decides, zero/infinite/default, nng_sleep_aio within / beyond the aio timeout, a cancel after completion does not reach the next operation and does not change the result the operation was completed with), of its expiry thread with up to 4 timed operations and a batch size of 2 (every due operation is completed once with NNG_ETIMEDOUT, never early, the thread never sleeps past one that is due), of the real core/taskq.c busy accounting (each dispatch/exec runs the callback exactly once, busy <=> something outstanding, wait returns only then) and of nni_dialer_start_aio / dialer_connect_cb completing the user aio exactly once. Also the TCP stream dialer of the real core/tcp.c: several dials queued on one dialer, served one at a time by lookup + connect - each completes exactly once with the result of the event that decided it, and while a dial waits on an open dialer a lookup or connect is in progress (nothing stays pending for ever), incl. the connect-succeeds-then-cancelled race. The completion list of the real core/aio.c (every collected operation completed exactly once with its own result and count) and the connect request of the tcp / ipc transport dialers.",
    "note": "Nesting depth 1 (one foreign operation inside one gap); overlapping critical sections and real task/expire threads are outside; CBMC cannot encode true preemption for this code (pointer handling for concurrency unsound).",
}

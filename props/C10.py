from vp.core import Query
from props import _cross

LEVEL = "model_checking"
UNITS = ["sock_close / pipe_close / pipe_stop / pipe_fini / ctx_fini / sock_fini of req, rep, sub, push, pull, pair0, pair1, bus, surveyor, respondent", "src/core/msgqueue.c nni_msgq_close"]
RULE = "Protocol skeletons that leave operations pending (blocked senders / receivers, in-flight transport transfers, queued messages) and then close: every pending user operation must be completed, exactly once, no lock left held, teardown in reaper order."
BOUNDS = "those of the skeleton families; teardown order pipe_close*, sock_close, ctx_fini, pipe_stop*, pipe_fini*, sock_fini"
OUTSIDE = "sock_shutdown's waits, the reaper / poller / task threads, the dialer/listener/pipe handle tables, endpoint close, 'always returns' as liveness over real threads: NOT decided by this technique (CBMC cannot encode preemptive threads over nng's intrusive lists)"
GROUP_WITNESS = False
ASSUMPTIONS = ["open findings F6b (non-blocking BUS send refused) and F7 (non-blocking respondent send refused) are excluded by -DKF_BUS_NONBLOCK_EAGAIN / -DKF_RESP_NONBLOCK_EAGAIN: they are C09/C07/C15 matters; the refused send is checked to fail cleanly", "as in C04-C09"]


def queries(tier):
    def pred(sk, q):
        return sk.endswith(" Z") and bool(__import__("re").search(r",1\)", sk))
    prefer = (r"S\((\d),\d,1\).* R\(\1,\d,1\).* Z", r"R\((\d),\d,1\).* S\(\1,\d,1\).* Z", r"R\(\d,1\) R\(\d,1\).* Z", r"S\(\d,1\) S\(\d,1\).* Z")
    qs = _cross.pick(tier, pred, 18 if tier == "quick" else 100000, bus_excl=True, prefer=prefer)
    def pred2(sk, q):
        return sk.endswith(" Z")
    names = set(q.name for q in qs)
    for q in _cross.pick(tier, pred2, 10 if tier == "quick" else 100000, bus_excl=True):
        if q.name not in names:
            qs.append(q)
    # nng_ctx_close with operations pending on the context (REP: a reply queued behind a busy connection and / or the next receive)
    from props import C04
    names = set(q.name for q in qs)
    for q in C04.queries(tier):
        if q.name.startswith("repctx-") and q.defs.get("SKEL", "").endswith(" X") and q.name not in names:
            q.group = "~" + q.group + "#ctxclose"
            qs.append(q)
    # close with several receives pending on one survey after one of them was cancelled
    from props import C07
    names = set(q.name for q in qs)
    for q in C07.queries(tier):
        sk = q.defs.get("SKEL", "")
        if q.name.startswith("surv-") and sk.count("R(0,") >= 2 and "X(" in sk and q.name not in names:
            q.group = "~" + q.group + "#c10"
            qs.append(_cross.exclude_nonblock_findings(q) if hasattr(_cross, "exclude_nonblock_findings") else q)
    qs += handle_queries(tier)
    qs += ep_handle_queries(tier)
    qs += ep_create_queries(tier)
    qs.append(Query("refcnt-any-count", "c10/refcnt.c", env=["env_alloc.c", "env_misc.c", "env_sync.c", "env_libc.c"], defs={}, unwind=8, timeout=120, group="c10/refcnt.c",
                    params={"kernel": "nni_refcnt_init/hold/rele", "initial_count": "1..1000 symbolic", "operations": "6 symbolic hold/release"}))
    # an operation pending on a dialer (nng_dial / nng_dialer_start_aio) must be completed when the dial ends with a close, cancel or stop result
    from props import C14, C02
    for q in C14.queries(tier) + C02.queries(tier):
        if q.name in ("dialer-connect-user-aio", "dialer-connect-any-result") or q.name.startswith(("dialer-start-aio", "pipe-reap")) or (q.name.startswith("tcp-dialer-") and "CL" in q.defs.get("SKEL", "")):
            q.group = "~" + q.group
            if q.name not in set(x.name for x in qs):
                qs.append(q)
    return qs


def ep_create_queries(tier):
    """nng_dialer_create / nng_listener_create (real nni_dialer_create_url / nni_listener_create_url) with each creation step failing in turn"""
    HENV = ["env_alloc.c", "env_misc.c", "env_sync.c", "env_aio.c", "env_idmap.c", "env_libc.c"]
    STEPS = {0: "nothing fails", 1: "endpoint object not allocated", 2: "URL copy fails", 3: "transport init fails", 4: "socket refuses (closing)", 5: "id not allocated"}
    qs = []
    for lst in (0, 1):
        for st, sn in STEPS.items():
            d = {"FAILSTEP": st}
            if lst:
                d["LISTENER"] = 1
            qs.append(Query("epcreate-%s-step%d" % ("listener" if lst else "dialer", st), "c10/ep_create.c", tus=["core/list.c", "core/options.c"], env=HENV, defs=d, unwind=12, timeout=120,
                            group="c10/ep_create.c", params={"entry_point": "nni_%s_create_url" % ("listener" if lst else "dialer"), "failing_step": sn, "looked_up_id": "any 32-bit value"}))
    return qs


def ep_handle_queries(tier):
    qs = []
    HENV = ["env_alloc.c", "env_misc.c", "env_sync.c", "env_aio.c", "env_idmap.c", "env_libc.c"]
    words = ["c", "fcr", "fcc", "hcr", "fhcrr", "cf", "ch", "fcfr", "fccf", "hcc", "ffcrc"]
    if tier != "quick":
        import itertools
        words += ["".join(w) for n in (4, 5) for w in itertools.product("fhrc", repeat=n)]
    seen = set()
    for w in words:
        if w in seen:
            continue
        seen.add(w)
        for lst in (0, 1):
            d = {"WORD": '"%s"' % w}
            if lst:
                d["LISTENER"] = 1
            qs.append(Query("handle-%s-%s" % ("listener" if lst else "dialer", w), "c10/ep_handles.c", tus=["core/list.c", "core/options.c"], env=HENV, defs=d, unwind=12,
                            timeout=300, group="c10/ep_handles.c#%d" % lst,
                            params={"kernel": "nni_%s_find/hold/rele/close" % ("listener" if lst else "dialer"), "word": w, "looked_up_id": "any 32-bit value after every step"}))
    return qs


def handle_queries(tier):
    """handles are invalid after close: the lookup / reference layer of the real core/socket.c"""
    qs = []
    HENV = ["env_alloc.c", "env_misc.c", "env_sync.c", "env_aio.c", "env_idmap.c", "env_libc.c"]
    qs.append(Query("handle-sock-find-any-id", "c10/handles.c", tus=["core/list.c"], env=HENV, defs={"MODE": 1}, unwind=12, timeout=300, group="c10/handles.c#1",
                    params={"kernel": "nni_sock_find", "id": "any 32-bit value", "closed/device flags": "symbolic"}))
    words = ["c", "fcr", "fc", "frc", "fcfr", "sc", "sfc", "fsrc", "fcrf", "cf", "ffrcr", "scf"]
    if tier != "quick":
        import itertools
        words += ["".join(w) for n in (4, 5) for w in itertools.product("frcs", repeat=n)]
    seen = set()
    for w in words:
        if w in seen:
            continue
        seen.add(w)
        qs.append(Query("handle-ctx-%s" % w, "c10/handles.c", tus=["core/list.c"], env=HENV, defs={"MODE": 2, "WORD": '"%s"' % w}, unwind=12, timeout=300,
                        group="c10/handles.c#2", params={"kernel": "nni_ctx_open/find/close/rele/destroy", "word": w, "looked_up_id": "any 32-bit value after every step"}))
    return qs

MANIFEST = {
    "text": "PARTIAL: (1) the protocol half of close: for every protocol, skeletons with blocked senders/receivers (also several on one context), in-flight transfers and queued messages followed by close: each pending user operation completes exactly once, no lock stays held, teardown releases everything; (2) handle invalidation in the real core/socket.c: nni_sock_find for ANY id and any closed/device flags, and the context life cycle (open/find/close/rele words): after close no id resolves to the context, ctx_fini runs exactly once and never while an operation holds a reference; (3) a dial owned by a user operation is completed when the dial ends with a close/cancel/stop result. Also nng_ctx_close of a REP context with a reply queued behind a busy connection and / or the next receive pending (both end with NNG_ECLOSED, the context leaves the socket's and the connection's waiter lists), creation of dialers / listeners with each step failing (no id resolves to an endpoint that was not created), and close of a TCP stream dialer with dials queued.",
    "note": "The socket-level shutdown (waiting for pipes/contexts), endpoint/pipe handle tables, the reaper and termination under real thread interleavings are outside this technique and are not claimed.",
}

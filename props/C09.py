from vp.core import Query
from vp import skel
from vp.skel import KIT_RULES

LEVEL = "model_checking"
UNITS = ["src/sp/protocol/bus0/bus.c", "src/core/lmq.c", "src/core/list.c", "src/core/pollable.c"]
RULE = "One query per concrete event skeleton (cooked and raw); message bytes symbolic."
BOUNDS = "2 pipes, <= 4 user operations, <= 4 arriving messages, skeleton length <= 5, per-pipe queue depth 1 (SENDBUF=1) and 16"
OUTSIDE = "real transports and threads; meshes of more than 2 peers; device forwarding (C13)"
ASSUMPTIONS = ["aio model env_aio.c", "message model env_msg.c", "allocation succeeds"]
ENV = ["env_alloc.c", "env_misc.c", "env_sync.c", "env_aio.c", "env_msg.c", "env_pipe.c"]
TUS = ["core/list.c", "core/lmq.c", "core/pollable.c", "core/options.c"]

CUR = ["A(0) A(1) S(0,1) Z", "A(0) A(1) S(0,0) T(0,1) T(1,1) Z", "A(0) S(0,0) S(1,0) S(2,0) T(0,1) T(0,1) Z", "S(0,0) Z", "S(0,1) A(0) Z",
       "A(0) W(0) R(0,0) Z", "A(0) R(0,1) W(0) Z", "A(0) A(1) W(0) W(1) W(0) R(0,0) R(1,0) R(2,0) Z", "A(0) W(0) S(0,0) R(0,0) Z",
       "A(0) A(1) S(0,0) C(0) S(1,0) T(1,1) Z", "A(0) S(0,0) T(0,0) Z", "A(0) R(0,1) Z", "A(0) A(1) W(1) S(0,0) T(0,1) R(0,1) Z"]
CUR += ["A(0) R(0,1) R(1,1) W(0) W(0) Z", "A(0) A(1) R(0,1) R(1,1) R(2,1) W(1) W(0) W(1) Z"]
RAWCUR = ["A(0) A(1) SR(0,0,0) Z", "A(0) A(1) SR(0,0,1) T(0,1) Z", "A(0) A(1) SR(0,1,-1) Z", "A(0) W(0) R(0,0) Z", "A(0) A(1) W(0) R(0,0) SR(1,0,0) Z",
          "A(0) SR(0,0,0) SR(1,0,0) Z"]
# one slow peer (its one-slot queue is full) must not deprive the other peers: blocking sends (the non-blocking form is open finding F6b)
SB1 = ["A(0) A(1) S(0,1) S(1,1) T(1,1) S(2,1) Z", "A(0) A(1) S(0,1) S(1,1) T(0,1) S(2,1) Z", "A(0) A(1) S(0,1) S(1,1) S(2,1) T(1,1) T(1,1) S(3,1) Z",
       "A(0) S(0,1) S(1,1) A(1) S(2,1) T(1,1) S(3,1) Z", "A(0) A(1) S(0,1) S(1,1) T(1,1) T(1,1) S(2,1) T(1,1) Z"]
# NNG_OPT_RECVBUF changed while messages are buffered and the ring has wrapped: arrival order kept, only what no longer fits is dropped
CUR += ["Q(2) A(0) W(0) W(0) R(0,0) W(0) Q(4) R(1,0) R(2,0) Z", "Q(2) A(0) W(0) W(0) R(0,0) W(0) Q(2) R(1,0) R(2,0) Z", "Q(4) A(0) W(0) W(0) W(0) R(0,0) W(0) Q(2) R(1,0) R(2,0) Z",
        "Q(2) A(0) A(1) W(0) W(1) R(0,0) W(0) Q(8) R(1,0) R(2,0) Z"]
ALPHA = ["A(0)", "A(1)", "S(%d,0)", "S(%d,1)", "T(0,1)", "T(1,1)", "T(0,0)", "W(0)", "W(1)", "R(%d,0)", "R(%d,1)", "C(0)"]


def queries(tier):
    qs = []
    words = [(w, {}) for w in CUR] + [(w, {"SENDBUF": 1}) for w in CUR[:5]] + [(w, {"RAW": 1}) for w in RAWCUR] + [(w, {"SENDBUF": 1}) for w in SB1] \
        + [(w.replace("S(0,1)", "SR(0,1,-1)").replace("S(1,1)", "SR(1,1,-1)").replace("S(2,1)", "SR(2,1,-1)").replace("S(3,1)", "SR(3,1,-1)"), {"SENDBUF": 1, "RAW": 1}) for w in SB1[:2]]
    words += [(w, {}) for w in skel.enumerate_words(ALPHA, 3 if tier == "quick" else 4, first=["A(0)", "S(%d,0)", "R(%d,1)"],
                                                    limit=120 if tier == "quick" else 3000)]
    seen = set()
    for w, d in words:
        k = (w, tuple(sorted(d.items())))
        if k in seen:
            continue
        seen.add(k)
        defs = dict(d)
        defs["SKEL"] = w
        qs.append(Query("bus-%s%s" % ("raw-" if "RAW" in d else "sb1-" if "SENDBUF" in d else "", skel.tag(w)), "c09/bus.c", tus=TUS, env=ENV,
                        defs=defs, unwind=10, unwind_rules=KIT_RULES, timeout=300, params={"protocol": "bus0", "raw": "RAW" in d, "skeleton": w}))
    return qs

MANIFEST = {
    "text": "Bounded symbolic check of the real bus.c: every event skeleton up to the stated length from sock_init through the real entry points; monitor: send completes at once with success in every state (also non-blocking), each connected peer is offered the message at most once and exactly once when it has room, the pipe named in a raw header is skipped, nothing received is ever sent on, receives are unique, ordered per peer and carry the arrival pipe in raw mode. One slow peer (full per-peer queue) never deprives later peers; waiting receives are served in posting order. Also NNG_OPT_RECVBUF changed while messages are buffered and the ring has wrapped (arrival order kept).",
    "note": "aio framework and messages are verified models; events are atomic (no preemption).",
}

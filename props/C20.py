from vp.core import Query

LEVEL = "fault_enumeration"
UNITS = ["src/core/url.c", "src/core/message.c", "src/core/lmq.c", "src/core/idhash.c", "src/supplemental/http/http_chunk.c", "src/core/aio.c (nni_aio_sys_init)", "src/supplemental/websocket/websocket.c (ws_read_finish_msg)", "src/sp/protocol/pubsub0/sub.c", "src/supplemental/http/http_msg.c (nni_http_req_parse / res_parse with failing setters)"]
RULE = "One query per entry point; WHICH allocation fails is a symbolic variable (the k-th allocation of the call, all k within the path's allocation count), decided by the solver; data symbolic where present."
BOUNDS = "single fault per call; the entry points listed"
OUTSIDE = "allocations in units not encoded (platform layer, statistics, threads); double faults; nng_fini global balance"
ASSUMPTIONS = ["fault injection through env_alloc.c (nni_alloc/nni_zalloc return NULL for the chosen allocation)"]
ENV = ["env_alloc.c", "env_misc.c", "env_sync.c", "env_libc.c"]
NAMES = {1: "url-parse", 2: "url-clone", 3: "msg-alloc", 4: "msg-dup", 5: "msg-append-grow", 6: "msg-insert-grow", 7: "lmq-resize", 8: "idmap-set", 9: "http-chunk"}


def queries(tier):
    qs = []
    for mode, nm in NAMES.items():
        tus = []
        env = list(ENV)
        defs = {"MODE": mode}
        if mode <= 2:
            tus = ["core/strs.c", "platform/posix/posix_resolv_gai.c"]
        if mode == 9:
            tus = ["core/list.c"]
        if mode == 8:
            tus = ["core/list.c"]
        variants = [({}, "")]
        if mode == 1:
            variants = [({"FAILK": k}, "-short-k%d" % k) for k in (0, 1)] + [({"LONG": 1, "FAILK": k}, "-long-k%d" % k) for k in (0, 1, 2)]
        if mode == 9:
            variants = [({"FAILK": k}, "-k%d" % k) for k in (0, 1, 2)]
        if mode == 8:
            variants = [({"N0": n}, "-n%d" % n) for n in (0, 1, 4, 5)]
        for extra, suffix in variants:
            d = dict(defs)
            d.update(extra)
            qs.append(Query("allocfail-%s%s" % (nm, suffix), "c20/core_allocfail.c", tus=tus, env=env, defs=d, unwind=200 if mode <= 2 else 100,
                            unwind_rules=[("nni_url_parse_inline_inner", r"nni_schemes\[i\]", 40), ("nni_url_default_port", r"nni_url_default_ports\[i\]", 16)],
                            timeout=120 if "FAILK" in d else 600, mem_gb=8, concrete=("FAILK" in d and mode == 1),
                            params={"entry_point": nm + suffix, "failing_allocation": ("k=%d" % d["FAILK"]) if "FAILK" in d else "symbolic k"}))
    for k in (0, 1, 2, 3):
        qs.append(Query("allocfail-aio-sys-init-k%d" % k, "c20/aio_sysinit.c", tus=["core/list.c"], env=ENV, defs={"FAILK": k}, cdefs=["-DENV_NO_CV_UNTIL_X"],
                        unwind=10, timeout=120, concrete=True, params={"entry_point": "nni_aio_sys_init", "failing_allocation": "k=%d" % k}))
    WENV = ENV + ["env_aio.c", "env_msg.c"]
    qs.append(Query("allocfail-ws-read-finish-msg", "c16/wsframe.c", tus=["core/list.c"], env=WENV, defs={"FINISH": 1, "NF": 2, "SERVER": 1, "FAILMSG": 1},
                    unwind=30, timeout=300, params={"entry_point": "ws_read_finish_msg", "failing_allocation": "the message for the reassembled frames"}))
    # the websocket custom-header list (ws_set_header / ws_set_header_ext): replacing, adding, adding a duplicate, each allocation of the call failing in turn
    for case, cn, ks in ((0, "replace", (0, 1)), (1, "add", (0, 1, 2, 3)), (2, "add-duplicate", (0, 1, 2, 3))):
        for k in ks:
            qs.append(Query("allocfail-ws-set-header-%s-k%d" % (cn, k), "c16/wsframe.c", tus=["core/list.c", "core/strs.c"], env=WENV, defs={"SETHDR": case, "FAILK": k}, unwind=30, timeout=120,
                            concrete=True, group="~c16/wsframe.c#sethdr", params={"entry_point": "ws_set_header_ext (NNG_OPT_WS_*_HEADERS, ws:header:<name>): " + cn, "failing_allocation": k}))
    # nng_http_server_set_error_page: the copy of the page / the table entry cannot be allocated (finding F32: wrong mutex released)
    for code, k in ((500, 0), (500, 1), (500, 2), (404, 0), (404, 1)):
        qs.append(Query("allocfail-http-errpage-code%d-k%d" % (code, k), "c20/http_errpage.c", tus=["core/list.c", "core/strs.c"], env=ENV + ["env_aio.c", "env_msg.c"],
                        defs={"CODE": code, "FAILK": k}, unwind=20, timeout=120, concrete=True, group="c20/http_errpage.c",
                        params={"entry_point": "nni_http_server_set_error_page (status %d, a page for 404 exists)" % code, "failing_allocation": k}))
    qs.append(Query("allocfail-http-server-connection", "c20/http_errpage.c", tus=["core/list.c", "core/strs.c"], env=ENV + ["env_aio.c", "env_msg.c"], defs={"SCONN": 1}, unwind=20,
                    timeout=120, concrete=True, group="~c20/http_errpage.c#sconn", params={"entry_point": "http_sconn_init (a connection arrives at the HTTP / websocket server), then the reaper's http_sc_reap",
                                                                                          "failing_allocation": "the connection's HTTP state (nni_http_init)"}))
    # SUB: subscribe (topic node, topic bytes), RECVBUF resize, the per-context copy of an arriving message - inside event skeletons, so that
    # what happens AFTER the failed call is checked too (a call that reported NNG_ENOMEM must have changed nothing: the functional checks apply again)
    from props import C05
    for w in ("A(0) FA(0) U(0,1) W(0) R(0,0,0) Z", "A(0) U(0,1) FA(0) U(0,2) WK(0,1) R(0,0,0) Z", "A(0) U(0,1) FA(1) U(0,2) WK(0,1) R(0,0,0) Z",
              "A(0) U(0,0) W(0) W(0) W(0) FA(0) B(0,1) R(0,0,0) R(0,1,0) Z", "A(0) U(0,0) W(0) FA(0) B(0,3) W(0) R(0,0,0) R(0,1,0) Z",
              "A(0) U(0,0) U(1,0) FM(0) W(0) R(1,0,0) R(0,1,0) Z", "A(0) U(0,0) U(1,0) R(1,0,1) FM(0) W(0) R(0,1,0) Z", "A(0) U(1,1) FA(0) U(1,3) N(1,1) Z"):
        from vp import skel
        d = {"SKEL": w, "VH_FAULTPASS": 1}
        if "(1," not in w:
            d["ONECTX"] = 1
        qs.append(Query("allocfail-sub-" + skel.tag(w), "c05/sub.c", tus=C05.TUS, env=C05.ENV, defs=d, unwind=10, unwind_rules=skel.KIT_RULES, timeout=300, group="~c05/sub.c#fault",
                        params={"entry_point": "sub0 subscribe / set RECVBUF / receive path inside a skeleton", "skeleton": w,
                                "failing_allocation": "FA(k): k-th allocator request from there on; FM(k): k-th message duplication"}))
    # the same fault pass through the PAIR / PUSH buffer resizes and the REQ / SURVEYOR id allocation
    from props import C08, C06, C04, C07
    for w in ("A(0) S(0,1) S(1,1) FA(0) B(2) S(2,1) T(0,1) T(0,1) T(0,1) Z", "FA(0) B(4) A(0) S(0,1) T(0,1) Z", "A(0) W(0,1) FA(0) Q(4) W(0,1) R(0,0) R(1,0) Z"):
        for p0 in (0, 1):
            d = {"SKEL": w, "VH_FAULTPASS": 1}
            if p0:
                d["PAIR0"] = 1
            qs.append(Query("allocfail-%s-%s" % ("pair0" if p0 else "pair1", skel.tag(w)), "c08/pair.c", tus=C08.TUS, env=C08.ENV, defs=d, unwind=10, unwind_rules=skel.KIT_RULES,
                            timeout=300, group="~c08/pair.c#fault", params={"entry_point": "pair set SENDBUF / RECVBUF inside a skeleton", "skeleton": w, "failing_allocation": "the resized ring"}))
    for w in ("B(2) S(0,1) S(1,1) FA(0) B(4) A(0) T(0,1) T(0,1) Z", "FA(0) B(4) S(0,0) Z"):
        qs.append(Query("allocfail-push-" + skel.tag(w), "c06/push.c", tus=C06.TUS, env=C06.ENV, defs={"SKEL": w, "VH_FAULTPASS": 1}, unwind=10, unwind_rules=skel.KIT_RULES,
                        timeout=300, group="~c06/push.c#fault", params={"entry_point": "push set SENDBUF inside a skeleton", "skeleton": w, "failing_allocation": "the resized ring"}))
    for w in ("A(0) FI(0) S(0,0,1) S(0,1,1) T(0,1) Z", "A(0) S(0,0,1) T(0,1) FI(0) S(0,1,1) R(0,2,1) Z"):
        qs.append(Query("allocfail-req-" + skel.tag(w), "c04/req.c", tus=C04.TUS, env=C04.ENV, defs={"SKEL": w, "VH_FAULTPASS": 1}, cdefs=["-DENV_MSG_CAP=48"], unwind=12,
                        unwind_rules=skel.KIT_RULES, timeout=300, group="~c04/req.c#fault", params={"entry_point": "req0_ctx_send", "skeleton": w, "failing_allocation": "the request id (id table cannot grow)"}))
    for w in ("A(0) FI(0) V(0,0) V(0,1) Z", "A(0) V(0,0) R(0,1,1) FI(0) V(0,2) Z"):
        qs.append(Query("allocfail-surveyor-" + skel.tag(w), "c07/survey.c", tus=C07.TUS, env=C07.ENV, defs={"SKEL": w, "VH_FAULTPASS": 1}, cdefs=["-DENV_MSG_CAP=48"], unwind=12,
                        unwind_rules=skel.KIT_RULES, timeout=300, group="~c07/survey.c#fault", params={"entry_point": "surv0_ctx_send", "skeleton": w, "failing_allocation": "the survey id (id table cannot grow)"}))
    # inproc hand-off of a shared message: the private copy for the receiver cannot be allocated
    from props import C01
    for q in C01.queries(tier):
        if q.name.startswith("inproc-") and "SF" in q.name:
            q.group = "~" + q.group
            qs.append(q)
    # id map: the grow of the table fails (nni_id_set reports ENOMEM, the map stays a working finite map afterwards)
    for n0 in (5,):
        qs.append(Query("allocfail-idmap-grow-then-use", "c20/idmap_grow.c", tus=["core/list.c"], env=ENV + ["env_aio.c"], defs={}, unwind=40, timeout=600, mem_gb=8,
                        params={"entry_point": "nni_id_set at the grow threshold", "failing_allocation": "the larger table", "then": "further sets up to 9 entries, get of any key"}))
    # more entry points, through the harnesses of other properties with the failing allocation chosen there
    from props import C03, C13, C10, C02, C11
    for q in C03.queries(tier):
        if q.name.startswith("sock-create-allocfail"):
            q.group = "~" + q.group
            qs.append(q)
    qs.append(Query("allocfail-device", "c13/device.c", tus=C13.DEV_TUS, env=C13.DEV_ENV, defs={"KIND": 0, "FAILDEV": 1}, unwind=10, timeout=120, group="~c13/device.c#fail",
                    params={"entry_point": "nni_device (nng_device)", "failing_allocation": "the device object"}))
    qs.append(Query("allocfail-ctx-open", "c10/handles.c", tus=["core/list.c"], env=["env_alloc.c", "env_misc.c", "env_sync.c", "env_aio.c", "env_idmap.c", "env_libc.c"],
                    defs={"MODE": 3}, unwind=12, timeout=120, group="~c10/handles.c#fail", params={"entry_point": "nni_ctx_open (nng_ctx_open)", "failing_allocation": "the context"}))
    for k in (0, 1):
        qs.append(Query("allocfail-taskq-init-k%d" % k, "c02/taskq.c", tus=["core/list.c"], env=ENV, defs={"FAILK": k, "NT": 2}, unwind=20, timeout=120, group="~c02/taskq.c#fail",
                        params={"entry_point": "nni_taskq_init", "failing_allocation": k}))
    for nb, copymax in ((12, 2), (12, 8), (16, 2)):
        qs.append(Query("allocfail-udp-rx-nb%d-copymax%d" % (nb, copymax), "c11/udp_rx.c", tus=["core/list.c", "core/lmq.c"],
                        env=["env_alloc.c", "env_misc.c", "env_sync.c", "env_aio.c", "env_msg.c", "env_pipe.c", "env_idmap.c", "env_libc.c"],
                        defs={"OP": 0, "NB": nb, "FROM": 0, "FAILMSG": 1, "COPYMAX": copymax}, cdefs=["-DENV_MSG_CAP=24"], unwind=30, timeout=300, group="~c11/udp_rx.c#fail",
                        params={"entry_point": "udp_rx_cb / udp_recv_data", "failing_allocation": "the message for the payload (copy and loan paths)"}))
    # a new connection's protocol state cannot be set up (pipe_init's message queue / pipe_start's table entry): the core then runs
    # pipe_close, pipe_stop, pipe_fini on that object (pipe_create / *_start_pipe / pipe_reap order); finding F27
    PNAMES = {0: "xrep", 1: "xrespond", 2: "xsurvey", 3: "rep", 4: "respond", 5: "pair1poly"}
    for proto, pn in PNAMES.items():
        for kind, ks in ((0, (0, 1, 2) if proto in (0, 1, 2, 5) else (0,)), (1, (0,))):
            for k in ks:
                qs.append(Query("allocfail-pipe-setup-%s-%s-k%d" % (pn, "alloc" if kind == 0 else "idmap", k), "c20/proto_pipe.c", tus=C13.TUS, env=C13.ENV,
                                defs={"PROTO": proto, "KIND": kind, "FAILK": k, "VH_FAULTPASS": 1}, cdefs=["-DENV_MSG_CAP=8"], unwind=12, unwind_rules=C13.KIT_RULES, timeout=300,
                                group="c20/proto_pipe.c", concrete=True,
                                params={"entry_point": "%s pipe_init / pipe_start, then the core's pipe_close, pipe_stop, pipe_fini" % pn,
                                        "failing_allocation": ("allocator request #%d after the connection arrived" % k) if kind == 0 else "insertion into the socket's pipe table"}))
    # the core cannot complete a pipe after the transport's p_init ran (pipe_create fails: id or protocol state): the reaper's p_close, p_stop, p_fini
    # run on a transport pipe that never reached an endpoint / a stream / a pair (finding F29)
    for tr, tn in ((0, "tcp"), (1, "sockfd"), (2, "ipc")):
        qs.append(Query("allocfail-unfinished-pipe-%s" % tn, "c01/stream_tran.c", tus=C01.TUS, env=C01.ENV, defs={"TRAN": tr, "MODE": 8}, cdefs=["-DENV_MSG_CAP=24"], unwind=12,
                        unwind_rules=C13.KIT_RULES, timeout=120, concrete=True, group="~c01/stream_tran.c#unfinished",
                        params={"entry_point": "%s transport p_init, then the reaper's p_close, p_stop, p_fini" % tn, "failing_allocation": "pipe id / protocol per-pipe state in pipe_create"}))
    qs.append(Query("allocfail-unfinished-pipe-udp", "c11/udp_rx.c", tus=["core/list.c", "core/lmq.c"],
                    env=["env_alloc.c", "env_misc.c", "env_sync.c", "env_aio.c", "env_msg.c", "env_pipe.c", "env_idmap.c", "env_libc.c"],
                    defs={"OP": 0, "NB": 12, "FROM": 0, "UNFINISHED": 1}, cdefs=["-DENV_MSG_CAP=24"], unwind=30, timeout=120, concrete=True, group="~c11/udp_rx.c#unfinished",
                    params={"entry_point": "udp transport p_init, then the reaper's p_close, p_stop, p_fini", "failing_allocation": "pipe id / protocol per-pipe state in pipe_create"}))
    # creation of a dialer / listener with one step failing (object, URL copy, id): nothing is left behind, in particular no freed endpoint on the socket's list (finding F30)
    for q in C10.ep_create_queries(tier):
        if q.defs.get("FAILSTEP") in (1, 2, 5):
            q.group = "~" + q.group + "#c20"
            qs.append(q)
    # stream transport listeners: resource exhaustion in the accept path (stream accept or pipe allocation) costs one connection, not the listener
    from props import C14
    for q in C14.tran_listener_queries(tier):
        if "CM" in q.name or "CF" in q.name or "CP" in q.name:
            q.group = "~" + q.group + "#c20"
            qs.append(q)
    for q in C14.tran_dialer_queries(tier):
        if "DP" in q.defs.get("SKEL", ""):
            q.group = "~" + q.group + "#c20"
            qs.append(q)
    for q in C14.inproc_ep_queries(tier):
        if "failpair" in q.name or "failpipe" in q.name:
            qs.append(q)
    # HTTP head parser: the connection object's setters fail with NNG_ENOMEM (the parser itself allocates nothing)
    HREQ = ["GET /a HTTP/1.1\r\nK: v\r\n\r\n", None, None, "A /b HTTP/2\r\nK: v\r\nL: w\r\n\r\n"]
    for nm, ti, extra in (("req-header1", 0, {"FAILHDR": 1}), ("req-header1of2", 3, {"FAILHDR": 1}), ("req-header2of2", 3, {"FAILHDR": 2}), ("req-uri", 0, {"FAILURI": 1}),
                          ("res-header1", 0, {"FAILHDR": 1, "RES": 1})):
        d = {"TPL": ti, "NSYM": 0, "K": 9}
        d.update(extra)
        qs.append(Query("allocfail-http-" + nm, "c16/httpmsg.c", tus=["core/list.c"], env=ENV, defs=d, unwind=45, timeout=300, mem_gb=4, allow_pruned=True,
                        group="~c16/httpmsg.c#fail", params={"entry_point": "nni_http_req_parse / nni_http_res_parse", "failing_allocation": nm}))
    return qs

MANIFEST = {
    "text": "Symbolic single-fault injection on the real code: for each encoded entry point the index of the failing allocation is a solver variable covering every allocation of the call; the call must report NNG_ENOMEM (or its documented best-effort loss), dereference no NULL pointer, re-enter no held lock, leak nothing and leave the object usable. Also: the private copy of a shared message in the inproc hand-off, and the id map after a failed grow (later sets terminate and succeed: the table always keeps a free slot). Fourth session: an allocation-fault PASS through the protocol skeletons (events FA/FM/FI arm the k-th allocator request / message duplication / id-table insertion; a call that reports NNG_ENOMEM must have changed nothing and the functional checks then apply again in full; safety checks - locks, exactly-once completion, leaks - never relax): SUB subscribe / RECVBUF / per-context copy, PAIR and PUSH buffer resizes, REQ and SURVEYOR id allocation; per-connection protocol state that cannot be set up (xrep/xrespond/xsurvey/rep/respond/pair1poly pipe_init / pipe_start followed by the core's pipe_close, pipe_stop, pipe_fini); transport pipes the core could not complete (tcp/ipc/sockfd/udp/inproc); dialer / listener creation with each step failing; socket creation (protocol sock_fini never before sock_init); the websocket custom-header list; the HTTP error-page table and a half-made HTTP server connection.",
    "note": "Only the listed entry points; one fault per call; platform-layer allocations outside. Findings F27-F30, F32-F34 (crashes / dead-lock after ONE failed allocation) were found by these queries and repaired in /repo; tools/allocfail_sweep.c (a discovery aid that runs the built library under the nng_init_params allocator hooks, not a check) showed where to aim them.",
}

from vp.core import Query
from props import _cross, C18

LEVEL = "model_checking"
UNITS = ["all protocol files of C04-C09", "src/core/msgqueue.c (raw sockets)", "src/core/pollable.c"]
RULE = "Protocol skeletons containing non-blocking operations; at each such (quiescent) point the poll state read before the call decides the expected result; the pollable/readiness equivalences are asserted after every event."
BOUNDS = "those of the skeleton families"
OUTSIDE = "the eventfd/pipe byte (p_raised is the observable)"
GROUP_WITNESS = False
ASSUMPTIONS = ["as in C04-C09"]


def queries(tier):
    import re

    def pred(sk, q):
        # a non-blocking operation, or one of the state changes the property lists (buffer resize, peer loss, cancel, unsubscribe, option change):
        # the readiness <=> pollable equivalence is asserted after every event
        return bool(re.search(r"[SRV]\([0-9, ]*,0\)", sk)) or bool(re.search(r"\b(C|B|Q|N|P|X|K|U)\(", sk))
    prefer = (r"\bB\(\d\).* C\(", r"C\(\d\) [SRV]\([0-9, ]*,0\)", r"\b(B|Q)\(\d\).* [SRV]\([0-9, ]*,0\)", r"X\(\d\) [SRV]\([0-9, ]*,0\)", r"N\(.* R\([0-9, ]*,0\)",
              r"S\(\d,0\).* Q\(\d,\d\).* S\(\d,0\)")
    qs = _cross.pick(tier, pred, 26 if tier == "quick" else 100000, prefer=prefer)
    for q in C18.queries(tier):
        if "msgq-aio" in q.name:
            qs.append(q)
    # the NNG_FLAG_NONBLOCK front end of src/nng.c
    NENV = ["env_alloc.c", "env_misc.c", "env_sync.c", "env_aio.c", "env_msg.c", "env_libc.c"]
    for api, an in enumerate(("sendmsg", "recvmsg", "ctx_sendmsg", "ctx_recvmsg", "send", "recv")):
        for ready in (1, 0):
            qs.append(Query("nngapi-%s-%s" % (an, "ready" if ready else "notready"), "c15/nngapi.c", tus=["core/list.c"], env=NENV, defs={"API": api, "READY": ready},
                            cdefs=["-DENV_MSG_CAP=8"], unwind=30, timeout=300, group="c15/nngapi.c#%d" % ready,
                            params={"unit": "src/nng.c", "call": "nng_" + an, "flags": "any int", "handle": "any 32-bit id", "socket_ready": bool(ready), "protocol_result": "any code when ready"}))
    return qs

MANIFEST = {
    "text": "Non-blocking semantics decided on the real protocol code: a zero-timeout send/receive has completed when the entry point returns; it succeeds whenever the readiness state says it can and fails at once (ETIMEDOUT -> EAGAIN, or ESTATE) otherwise, leaving the message with the caller; after every event of every skeleton the send/receive pollable equals the readiness predicate of the protocol (no missed wake-up, no busy loop). Raw sockets: the same for core/msgqueue.c. The NNG_FLAG_NONBLOCK front end of the real src/nng.c (nng_sendmsg/recvmsg/ctx_sendmsg/ctx_recvmsg/send/recv) for ANY flags value and ANY handle: never waits, NNG_EAGAIN iff the socket could not serve the call, success never turned into NNG_EAGAIN, message ownership on failure. REP: the send pollable mirrors 'a reply would be taken at once'.",
    "note": "p_raised is the observable (not the fd byte); events are atomic.",
}

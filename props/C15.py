from vp.core import Query
from props import _cross, C18

LEVEL = "model_checking"
UNITS = ["all protocol files of C04-C09", "src/core/msgqueue.c (raw sockets)", "src/core/pollable.c"]
RULE = "Protocol skeletons containing non-blocking operations; at each such (quiescent) point the poll state read before the call decides the expected result; the pollable/readiness equivalences are asserted after every event."
BOUNDS = "those of the skeleton families"
OUTSIDE = "the eventfd/pipe byte (p_raised is the observable); nng.c's ETIMEDOUT->EAGAIN mapping is a one-line conversion not encoded"
GROUP_WITNESS = False
ASSUMPTIONS = ["as in C04-C09"]


def queries(tier):
    def pred(sk, q):
        return bool(__import__("re").search(r"[SRV]\([0-9, ]*,0\)", sk))
    qs = _cross.pick(tier, pred, 20 if tier == "quick" else 100000)
    for q in C18.queries(tier):
        if "msgq-aio" in q.name:
            qs.append(q)
    return qs

MANIFEST = {
    "text": "Non-blocking semantics decided on the real protocol code: a zero-timeout send/receive has completed when the entry point returns; it succeeds whenever the readiness state says it can and fails at once (ETIMEDOUT -> EAGAIN, or ESTATE) otherwise, leaving the message with the caller; after every event of every skeleton the send/receive pollable equals the readiness predicate of the protocol (no missed wake-up, no busy loop). Raw sockets: the same for core/msgqueue.c.",
    "note": "p_raised is the observable (not the fd byte); events are atomic.",
}

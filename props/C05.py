from vp.core import Query
from vp import skel
from vp.skel import KIT_RULES

LEVEL = "model_checking"
UNITS = ["src/sp/protocol/pubsub0/sub.c", "src/sp/protocol/pubsub0/pub.c", "src/core/lmq.c", "src/core/list.c", "src/core/pollable.c"]
RULE = "One query per concrete event skeleton; topic bytes and message bytes symbolic (4 topics of length 0,1,2,1)."
BOUNDS = "2 contexts (socket + 1), 4 topics of length <= 2, body 2 bytes, <= 5 published messages, buffer depth 1..2 and default, skeleton length <= 6"
OUTSIDE = "topics/bodies longer than 2 bytes (the matcher loop is memcmp over the topic length); more than 2 contexts; real transports/threads"
ASSUMPTIONS = ["aio model env_aio.c", "message model env_msg.c", "allocation succeeds"]
ENV = ["env_alloc.c", "env_misc.c", "env_sync.c", "env_aio.c", "env_msg.c", "env_pipe.c", "env_libc.c"]
TUS = ["core/list.c", "core/lmq.c", "core/pollable.c", "core/options.c"]

CUR = [("A(0) U(0,1) W(0) R(0,0,0) Z", {}), ("A(0) U(0,0) W(0) W(0) R(0,0,0) R(0,1,0) Z", {}), ("A(0) W(0) R(0,0,0) Z", {}),
       ("A(0) U(0,2) U(1,1) W(0) R(0,0,0) R(1,1,0) Z", {}), ("A(0) U(0,1) U(0,3) W(0) N(0,1) R(0,0,0) Z", {}),
       ("A(0) U(0,1) R(0,0,1) W(0) Z", {}), ("A(0) U(0,0) W(0) W(0) W(0) R(0,0,0) Z", {"RECVBUF0": 2}),
       ("A(0) U(0,0) P(0,0) W(0) W(0) W(0) R(0,0,0) R(0,1,0) R(0,2,0) Z", {"RECVBUF0": 2}),
       ("A(0) U(0,0) U(0,1) W(0) W(0) N(0,0) R(0,0,0) R(0,1,0) Z", {}), ("A(0) U(0,1) W(0) N(0,1) R(0,0,0) Z", {}),
       ("A(0) A(1) U(0,0) W(0) W(1) W(0) R(0,0,0) R(0,1,0) R(0,2,0) Z", {}),
       ("A(0) U(0,0) W(0) W(0) W(0) B(0,1) R(0,0,0) R(0,1,0) Z", {}), ("A(0) U(0,1) U(0,3) N(0,3) W(0) R(0,0,0) Z", {}),
       ("A(0) U(0,0) U(1,0) W(0) N(1,0) R(1,0,0) R(0,1,0) Z", {}), ("U(0,1) N(0,2) N(0,1) N(0,1) Z", {}),
       # a context whose PREFNEW / RECVBUF differ from the socket's, overflowing (contexts are independent)
       ("A(0) U(1,0) B(1,2) P(1,0) W(0) W(0) W(0) R(1,0,0) R(1,1,0) R(1,2,0) Z", {}),
       ("A(0) U(1,0) U(0,0) B(1,2) B(0,2) P(0,0) W(0) W(0) W(0) R(1,0,0) R(1,1,0) R(0,2,0) R(0,3,0) Z", {}),
       ("A(0) U(1,0) B(1,1) P(1,0) W(0) W(0) R(1,0,0) R(1,1,0) Z", {}), ("A(0) U(1,0) U(0,0) B(1,1) P(0,0) W(0) W(0) R(1,0,0) R(0,1,0) Z", {})]
CUR += [("A(0) U(0,0) R(0,0,1) R(0,1,1) W(0) W(0)", {}), ("A(0) U(0,0) R(0,0,1) R(0,1,1) R(0,2,1) W(0) W(0)", {})]
ALPHA = ["U(0,0)", "U(0,1)", "U(0,2)", "U(1,1)", "N(0,1)", "N(0,0)", "W(0)", "WK(0,1)", "WK(0,4)", "R(0,%d,0)", "R(0,%d,1)", "R(1,%d,0)", "P(0,0)"]


PUB_CUR = ["A(0) S(0,1) T(0,1) Z", "S(0,1) Z", "S(0,0) A(0) S(1,0) T(0,1) Z", "A(0) A(1) S(0,1) S(1,0) T(0,1) T(1,1) T(0,1) T(1,1) Z",
           "B(1) A(0) S(0,1) S(1,1) S(2,1) S(3,0) T(0,1) T(0,1) Z", "B(2) A(0) A(1) S(0,0) S(1,0) S(2,0) S(3,0) T(0,1) T(1,1) T(0,1) Z",
           "B(2) A(0) S(0,1) S(1,1) S(2,1) B(1) T(0,1) T(0,1) Z", "B(1) A(0) S(0,1) S(1,1) B(2) S(2,1) S(3,1) T(0,1) T(0,1) T(0,1) Z",
           "A(0) S(0,1) T(0,0) Z", "A(0) S(0,1) C(0) S(1,1) Z", "A(0) W(0) Z", "B(1) A(0) A(1) S(0,1) S(1,1) C(0) S(2,1) T(1,1) T(1,1) Z",
           "B(1) A(0) S(0,1) S(1,1) S(2,1) T(0,1) S(3,1) T(0,1) T(0,1) Z", "A(0) S(0,1) S(1,1) Z", "B(2) A(0) S(0,0) S(1,0) S(2,0) C(0) A(0) S(3,0) T(0,1) Z"]
PUB_ALPHA = ["A(0)", "A(1)", "S(%d,1)", "S(%d,0)", "T(0,1)", "T(1,1)", "T(0,0)", "C(0)", "W(0)", "B(1)", "B(2)"]


def pub_queries(tier):
    qs = []
    words = list(PUB_CUR) + skel.enumerate_words(PUB_ALPHA, 3 if tier == "quick" else 4, first=["A(0)", "S(%d,1)", "B(1)"], limit=60 if tier == "quick" else 3000)
    seen = set()
    for w in words:
        if w in seen:
            continue
        seen.add(w)
        qs.append(Query("pub-" + skel.tag(w), "c05/pub.c", tus=TUS, env=ENV, defs={"SKEL": w}, unwind=10, unwind_rules=KIT_RULES, timeout=300,
                        params={"protocol": "pub0", "skeleton": w}))
    return qs


def queries(tier):
    qs = []
    words = list(CUR)
    for w in skel.enumerate_words(ALPHA, 3 if tier == "quick" else 4, limit=110 if tier == "quick" else 3000):
        words.append(("A(0) " + w, {}))
        if "W(0) W(0)" in w or tier != "quick":
            words.append(("A(0) " + w, {"RECVBUF0": 1}))
    import itertools
    for lens in itertools.product((-1, 0, 1, 2), repeat=3):
        if lens != tuple(sorted(lens)) and lens != tuple(sorted(lens, reverse=True)) and tier == "quick":
            continue   # quick: ascending and descending subscribe orders (the topic list is kept in subscribe order)
        for bl in (0, 1, 2, 3):
            qs.append(Query("match-t%s-b%d" % ("".join("x" if l < 0 else str(l) for l in lens), bl), "c05/match.c", tus=TUS, env=ENV,
                            defs={"L0": lens[0], "L1": lens[1], "L2": lens[2], "BL": bl}, unwind=10, unwind_rules=KIT_RULES, timeout=120,
                            params={"kernel": "sub0_matches", "topic_lengths": [l for l in lens if l >= 0], "body_length": bl}))
    extra = [("A(0) U(0,2) WK(0,1) WK(0,2) R(0,0,0) R(0,1,0) Z", {}), ("A(0) U(0,1) U(0,2) U(0,3) WK(0,0) WK(0,1) WK(0,3) WK(0,4) R(0,0,0) N(0,2) R(0,1,0) R(0,2,0) Z", {}),
             ("A(0) U(0,0) U(1,2) WK(0,1) WK(0,4) R(1,0,0) R(1,1,0) R(0,2,0) Z", {}), ("A(0) U(0,2) WK(0,2) WK(0,1) N(0,2) R(0,0,0) Z", {})]
    words += extra
    if tier != "quick":
        for w, d in CUR[:8]:
            dd = dict(d)
            dd["SYMTOPICS"] = 1
            words.append((w, dd))
    qs += pub_queries(tier)
    # one arriving message is handed to every waiting context through the completion list of the real core/aio.c (the skeletons run on the aio model)
    from props import C02
    for q in C02.queries(tier):
        if q.name.startswith("aio-completions"):
            q.group = "~" + q.group + "#c05"
            qs.append(q)
    XENV = ENV + ["env_idmap.c"]
    for rq in (0, 1, 2):
        for nw in (1, 2, 3):
            for waiter in (0, 1):
                d = {"RQ": rq, "NW": nw}
                if waiter:
                    d["WAITER"] = 1
                qs.append(Query("xsub-rq%d-nw%d%s" % (rq, nw, "-waiter" if waiter else ""), "c05/xsub.c", tus=TUS + ["core/msgqueue.c"], env=XENV, defs=d, unwind=12,
                                unwind_rules=KIT_RULES, timeout=300, group="c05/xsub.c", params={"protocol": "xsub0", "recv_queue": rq, "arrivals": nw, "receiver_waiting": bool(waiter)}))
    qs.append(Query("xsub-badpeer", "c05/xsub.c", tus=TUS + ["core/msgqueue.c"], env=XENV, defs={"BADPEER": 1}, unwind=12, unwind_rules=KIT_RULES, timeout=120,
                    group="~xsub-badpeer", params={"protocol": "xsub0", "case": "peer protocol mismatch"}))
    seen = set()
    for w, d in words:
        k = (w, tuple(sorted(d.items())))
        if k in seen:
            continue
        seen.add(k)
        defs = dict(d)
        if ",1)" in w.replace("U(", "u(").replace("N(", "n(").replace("P(", "p(").replace("B(", "b(").replace("WK(", "wk(") and w.endswith(" Z"):
            # a blocking receive that is later satisfied from sub0_recv_cb: the writes go through the context pointer
            # NNI_LIST_FOREACH derives by pointer arithmetic, CBMC loses field sensitivity for the socket struct and the
            # drain loop of sock_close does not terminate in symex (measured > 400 s).  These skeletons end without Z.
            pass
        defs["SKEL"] = w
        if "(1," not in w:
            defs["ONECTX"] = 1   # only the socket's own context exists (two contexts make the context pointer symbolic in symex)
        qs.append(Query("sub-%s%s%s" % ("sym-" if "SYMTOPICS" in d else "", "rb%d-" % d["RECVBUF0"] if "RECVBUF0" in d else "", skel.tag(w)), "c05/sub.c", tus=TUS, env=ENV,
                        defs=defs, unwind=10, unwind_rules=KIT_RULES, timeout=900 if "SYMTOPICS" in d else 300,
                        params={"protocol": "sub0", "skeleton": w, "initial_recvbuf": d.get("RECVBUF0", 128)}))
    return qs

MANIFEST = {
    "text": "Bounded symbolic check of the real sub.c (skeletons with symbolic topic and body bytes against a reference prefix matcher: delivery iff a current subscription prefixes the body, per context, drop policy PREFNEW per context, unsubscribe filters the buffer, order, waiters served in order), of the real pub.c against a per-subscriber reference model (busy + bounded FIFO, oldest dropped when full, never blocks or fails, bytes unchanged, one reference per pending place) and of the raw xsub.c hand-up (in order, new message dropped whole when the queue is full).",
    "note": "aio framework and messages are verified models; bodies/topics up to 2 bytes; events atomic.",
}

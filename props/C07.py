from vp.core import Query
from vp import skel
from vp.skel import KIT_RULES

LEVEL = "model_checking"
UNITS = ["src/sp/protocol/survey0/survey.c", "src/sp/protocol/survey0/respond.c"]
RULE = "One query per concrete event skeleton; response ids split into classes; the user timeout of a waiting receive and response bytes are symbolic; the clock is a harness variable."
BOUNDS = "2 contexts, 2 pipes, <= 4 user operations, skeleton length <= 8"
OUTSIDE = "real time (the clock is driven by the harness), real threads"
ASSUMPTIONS = ["aio model env_aio.c (expiry fired by the harness, only when now > a_expire as core/aio.c does)", "message model env_msg.c", "id-map model env_idmap.c"]
ENV = ["env_alloc.c", "env_misc.c", "env_sync.c", "env_aio.c", "env_msg.c", "env_pipe.c", "env_idmap.c", "env_libc.c"]
TUS = ["core/list.c", "core/lmq.c", "core/pollable.c", "core/options.c"]

CUR = [("A(0) V(0,0) T(0,1) Y(0,0) R(0,1,0) Z", 0), ("A(0) V(0,0) R(0,1,1) Y(0,0)", 0), ("R(0,0,0) Z", 0), ("A(0) V(0,0) K(2000) R(0,1,0) Z", 0),
       ("A(0) V(0,0) Y(0,0) K(2000) R(0,1,0) Z", 0), ("A(0) V(0,0) R(0,1,1) K(1001) E(1)", 0), ("A(0) V(0,0) R(0,1,1) V(0,2) Y(0,5) Y(0,0) R(0,3,0)", 0),
       ("A(0) V(0,0) Y(0,2) Y(0,4)", 0), ("A(0) V(0,0) Y(0,0) Y(0,0) R(0,1,0) R(0,2,0) R(0,3,0)", 0), ("A(0) V(0,0) R(0,1,1) X(1) Y(0,0) R(0,2,0)", 0),
       ("A(0) V(0,0) K(999) R(0,1,1) K(2) E(1)", 0), ("A(0) V(0,0) K(1000) R(0,1,1)", 0), ("V(0,0) A(0) Z", 0), ("A(0) V(0,0) RT(0,1)", 0), ("A(0) V(0,0) K(999) RT(0,1)", 0), ("A(0) V(0,0) Y(0,0) RT(0,1)", 0), ("V(0,0) K(1000) RT(0,1)", 0), ("A(0) V(0,0) V(1,1) RT(1,2)", 1), ("A(0) A(1) V(0,0) T(0,1) T(1,1) Y(1,0) Y(0,0) R(0,1,0) R(0,2,0) Z", 0),
       ("A(0) V(0,0) V(1,1) Y(0,1) Y(0,0) R(0,2,0) R(1,3,0)", 1), ("A(0) V(1,0) Y(0,1) R(0,1,0) R(1,2,0)", 1), ("A(0) V(0,0) V(1,1) R(1,2,1) V(0,3) Y(0,1)", 1)]
CUR += [("A(0) V(0,0) R(0,1,1) R(0,2,1) Y(0,0) Y(0,0)", 0), ("A(0) V(0,0) T(0,1) R(0,1,1) R(0,2,1) R(0,3,1) Y(0,0) Y(0,0)", 0)]
# responses to the previous survey still unread (two or more) when the next survey is issued: all of them are discarded
CUR += [("A(0) A(1) V(0,0) Y(0,0) Y(1,0) V(0,1) R(0,2,0) Z", 0), ("A(0) A(1) V(0,0) Y(0,0) Y(1,0) Y(0,0) V(0,1) R(0,2,0) Y(1,0) R(0,3,0) Z", 0)]
# two receives pending on one survey, one of them cancelled, then close: the other one must still be completed by the close
CUR += [("A(0) V(0,0) R(0,1,1) R(0,2,1) X(1) Z", 0), ("A(0) V(0,0) R(0,1,1) R(0,2,1) X(2) Z", 0), ("A(0) V(0,0) R(0,1,1) R(0,2,1) R(0,3,1) X(2) Z", 0)]
ALPHA = ["A(0)", "V(0,%d)", "R(0,%d,0)", "R(0,%d,1)", "Y(0,0)", "Y(0,2)", "Y(0,5)", "K(500)", "K(1001)", "T(0,1)", "C(0)", "X(1)"]


def queries(tier):
    qs = []
    words = list(CUR)
    for w in skel.enumerate_words(ALPHA, 4 if tier == "quick" else 5, first=["A(0)", "V(0,%d)", "R(0,%d,0)"], limit=120 if tier == "quick" else 3000):
        words.append((w, 0))
    seen = set()
    for w, two in words:
        if (w, two) in seen:
            continue
        seen.add((w, two))
        w2 = w   # (an earlier version stripped the final close from quick-tier skeletons with blocking receives; they finish in seconds, and the close matters: C10D)
        defs = {"SKEL": w2}
        if two:
            defs["TWOCTX"] = 1
        qs.append(Query("surv-" + skel.tag(w2), "c07/survey.c", tus=TUS, env=ENV, defs=defs, unwind=10, unwind_rules=KIT_RULES, timeout=300,
                        params={"protocol": "surveyor0", "contexts": 2 if two else 1, "skeleton": w2}))
    from props import C04
    RESP_CUR = ["A(0) Q(0,0) R(0,0) S(1,0) T(0,1) Z", "A(0) Q(0,2) R(0,0) S(1,0) Z", "A(0) S(0,0) Z", "A(0) Q(0,0) R(0,0) S(1,0) S(2,0) Z",
                "A(0) A(1) Q(0,0) Q(1,1) R(0,0) S(1,0) R(2,0) S(3,0) Z", "A(0) Q(0,0) R(0,0) C(0) S(1,0) Z", "A(0) QB(0,0) QB(0,1) Z", "A(0) Q(0,0) C(0) Q(0,1) Z",
                "A(0) R(0,1) R(1,1)", "A(0) A(1) Q(1,0) R(0,0) S(1,1) T(1,1) Z", "A(0) Q(0,7) R(0,0) S(1,0) Z", "A(0) G(0,1) S(0,0) G(0,0) S(1,0) T(0,1) T(0,1) Z",
                "A(0) G(0,15) S(0,0) Z", "A(0) A(1) G(0,1) G(1,2) S(0,0) Z", "A(0) R(0,1) Q(0,1) S(1,0) Z", "A(0) G(0,0) S(0,0) S(1,0) Z"]
    RESP_ALPHA = ["A(0)", "A(1)", "Q(0,0)", "Q(0,1)", "G(0,1)", "QB(0,0)", "R(%d,0)", "R(%d,1)", "S(%d,0)", "T(0,1)", "C(0)"]
    # the surveyor vanishes between survey and response: the response is accepted and discarded, and it still consumes the survey
    RESP_CUR += ["A(0) Q(0,0) R(0,0) C(0) S(1,1) S(2,1) Z", "A(0) A(1) Q(0,0) R(0,0) C(0) S(1,1) S(2,1) Z", "A(0) Q(0,0) R(0,0) C(0) S(1,1) A(0) S(2,1) Z"]
    RESP_CUR += ["A(0) QB(0,2) R(0,0) Z", "A(0) Q(0,7) QB(0,2) R(0,0) S(1,1) Z", "A(0) R(0,1) QB(0,2) Q(0,0) Z"]
    rw = list(RESP_CUR) + skel.enumerate_words(RESP_ALPHA, 4 if tier == "quick" else 5, first=["A(0)"], limit=80 if tier == "quick" else 3000)
    seen = set()
    for w in rw:
        if w in seen:
            continue
        seen.add(w)
        qs.append(Query("resp-" + skel.tag(w), "c07/respond.c", tus=TUS, env=ENV, defs={"SKEL": w}, cdefs=["-DENV_MSG_CAP=48"], unwind=12,
                        unwind_rules=KIT_RULES, timeout=300, params={"protocol": "respondent0", "skeleton": w}))
    for w in RESP_CUR + ["A(0) Q(0,0) R(0,1) S(1,1) S(2,1) Z", "A(0) G(0,1) S(0,1) S(1,1) Z"]:
        qs.append(Query("respctx-" + skel.tag(w), "c07/respond.c", tus=TUS, env=ENV, defs={"SKEL": w, "XCTX": 1}, cdefs=["-DENV_MSG_CAP=48"], unwind=12,
                        unwind_rules=KIT_RULES, timeout=300, params={"protocol": "respondent0", "context": "explicit", "skeleton": w}))
    return qs

MANIFEST = {
    "text": "Bounded symbolic check of the real survey.c (and respond.c): skeletons from sock_init with a harness-driven clock; a receive completes with a response only if the response carries the context's current survey id and the receive was issued before the deadline; receive with no live survey or at/after the deadline gives ESTATE; a waiting receive's expiry is clamped to the survey deadline for every user timeout and yields ETIMEDOUT; a new survey flushes buffered responses and cancels waiting receivers; foreign/stale/short responses are discarded (short ones disconnect). Also two or more unread responses to the previous survey when the next one is issued (all discarded).",
    "note": "Clock and expiry are driven by the harness under the contract of core/aio.c (fires only after a_expire); aio, message and id-map are verified models.",
}

from vp.core import Query

LEVEL = "model_checking"
UNITS = ["src/core/message.c"]
RULE = ("One query per (operation, concrete backing-store capacity); headroom offset, length, all content bytes, "
        "argument length and bytes are symbolic.")
BOUNDS = "capacity in the listed concrete set; argument length <= 12; header <= 64"
OUTSIDE = "capacities other than those listed; sequences longer than the listed skeletons (covered inductively through Inv)"
ASSUMPTIONS = ["allocation succeeds (failure is C20)", "atomics sequential (env_sync.c)"]

OPS = {"append": 1, "insert": 2, "trim": 3, "chop": 4, "realloc": 5, "reserve": 6, "clear": 7, "dup": 8,
       "trim_u32": 9, "pullup": 10}
ENV = ["env_alloc.c", "env_misc.c", "env_sync.c"]


API = ("none append insert trim chop realloc clear append_u16 append_u32 append_u64 insert_u16 insert_u32 insert_u64 "
       "trim_u16 trim_u32 trim_u64 chop_u16 chop_u32 chop_u64 h_append h_insert h_trim h_chop h_append_u16 h_append_u32 "
       "h_append_u64 h_insert_u16 h_insert_u32 h_insert_u64 h_trim_u16 h_trim_u32 h_trim_u64 h_chop_u16 h_chop_u32 "
       "h_chop_u64 h_clear reserve").split()
APIC = {n: i for i, n in enumerate(API)}
BODY_OPS = ["append", "insert", "trim", "chop", "realloc"]


def seq(ops, sz0, hdr0=None, timeout=300, tier="quick", sizes=None, nmax=8):
    d = {"SZ0": sz0, "OP1": APIC[ops[0]], "OP2": APIC[ops[1]] if len(ops) > 1 else 0,
         "OP3": APIC[ops[2]] if len(ops) > 2 else 0, "NMAX": nmax}
    if hdr0 is not None:
        d["HDR0"] = hdr0
    name = "api-%s-sz%d%s" % ("+".join(ops), sz0, "" if hdr0 is None else "-h%d" % hdr0)
    if sizes:
        for i, n in enumerate(sizes):
            if n is not None:
                d["N%d" % (i + 1)] = n
        name += "-n" + ".".join("s" if n is None else str(n) for n in sizes)
    return Query(name, "c17/api_seq.c", tus=["core/message.c"], env=ENV, defs=d, unwind=max(72, sz0 + 3 * nmax + 16),
                 timeout=timeout, tier=tier, params={"ops": ops, "initial_size": sz0, "initial_header": hdr0})


def queries(tier):
    qs = []
    caps = [8, 24] if tier == "quick" else [1, 8, 24, 33, 40, 64]
    for op, code in OPS.items():
        for cap in caps:
            if op == "trim_u32" and cap < 4:
                continue
            if tier == "quick" and op in ("pullup",) and cap > 8:
                continue
            qs.append(Query("chunk-%s-cap%d" % (op, cap), "c17/chunk_step.c", env=ENV,
                            defs={"OP": code, "CAP": cap}, unwind=max(cap + 24, 70), timeout=600 if tier != "quick" else 300,
                            params={"op": op, "cap": cap}))
    for cap in ([8] if tier == "quick" else [1, 8, 24, 40]):
        qs.append(Query("chunk-pullup-shared-cap%d" % cap, "c17/chunk_step.c", env=ENV, defs={"OP": OPS["pullup"], "CAP": cap, "SHARED": 1}, unwind=max(cap + 24, 70),
                        timeout=600 if tier != "quick" else 300, params={"op": "pullup of a message somebody else also holds", "cap": cap}))
    for sz in ((0, 1, 31, 32, 33, 1023, 1024, 1025, 2048) if tier == "quick" else (0, 1, 31, 32, 33, 63, 64, 1023, 1024, 1025, 2047, 2048, 4096)):
        qs.append(Query("alloc-sz%d" % sz, "c17/chunk_step.c", env=ENV, defs={"OP": 11, "CAP": sz}, unwind=8,
                        params={"op": "nni_msg_alloc", "size": sz}))
    # public API, single operations: every wrapper incl. all u16/u32/u64 values
    for op in API[1:]:
        if op.startswith("h_"):
            for h in (0, 4, 60):
                qs.append(seq([op], 0, hdr0=h))
        else:
            for sz in (0, 8):
                qs.append(seq([op], sz))
    # curated sequences (grow while data sits at a non-zero offset, trim-to-empty then grow, ...)
    # sizes concrete per query (R1/R3), all bytes symbolic; the last size stays symbolic where cheap
    cur = [(["insert", "insert"], 8, (33, 40)), (["insert", "insert"], 8, (32, 1)), (["trim", "insert"], 8, (8, 40)),
           (["trim", "insert"], 8, (3, 36)), (["trim", "append"], 8, (8, 40)), (["chop", "insert"], 8, (8, 33)),
           (["realloc", "insert"], 8, (40, 33)), (["insert", "trim", "insert"], 8, (32, 20, 30)),
           (["append", "insert", "trim"], 8, (40, 36, 50)), (["trim", "append", "insert"], 8, (8, 48, 40)),
           (["chop_u32", "append_u64", "insert_u16"], 8, None), (["clear", "insert", "append"], 8, (None, 36, 40)),
           (["reserve", "insert", "append"], 8, (50, 36, 40)), (["insert", "insert", "insert"], 0, (30, 30, 30))]
    for ops, sz, sizes in cur:
        qs.append(seq(ops, sz, sizes=sizes, nmax=50 if sizes else 8))
    if tier != "quick":
        for a in BODY_OPS:
            for b in BODY_OPS:
                for n1, n2 in ((5, 36), (36, 5), (8, 8), (0, 41)):
                    qs.append(seq([a, b], 8, tier="thorough", timeout=600, sizes=(n1, n2), nmax=44))
        # no-headroom path: power-of-two size >= 1024 (concrete), small edits
        for ops, sizes in ((["insert"], (8,)), (["append"], (8,)), (["trim", "insert"], (1024, 8)), (["trim", "insert"], (10, 16))):
            qs.append(seq(ops, 1024, tier="thorough", timeout=900, sizes=sizes, nmax=1024))
    return qs

MANIFEST = {
    "text": ("Bounded symbolic check of the real core/message.c: every body-chunk operation from an arbitrary "
             "invariant-satisfying chunk state (capacity concrete per query; offset, length, contents, arguments symbolic) "
             "against byte-string semantics; header operations for all header lengths 0..64 and all argument lengths; "
             "big-endian forms for all values. Also nni_msg_pull_up of a message somebody else holds (any header length incl. 0): "
             "the caller gets a private copy, the shared original is untouched."),
    "note": ("Holds for the listed capacities and argument lengths <= 12 only; allocation assumed to succeed; "
             "relational comparison of NULL pointers at message.c nni_chunk_grow is triaged UB (pointer checks off for that line)."),
}

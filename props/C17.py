from vp.core import Query

LEVEL = "model_checking"
UNITS = ["src/core/message.c"]
RULE = ("One query per (operation, concrete backing-store capacity); headroom offset, length, all content bytes, "
        "argument length and bytes are symbolic.")
BOUNDS = "capacity in the listed concrete set; argument length <= 12; header <= 64"
OUTSIDE = "capacities other than those listed; sequences longer than the listed skeletons (covered inductively through Inv)"
ASSUMPTIONS = ["allocation succeeds (failure is C20)", "atomics sequential (env_sync.c)"]

OPS = {"append": 1, "insert": 2, "trim": 3, "chop": 4, "realloc": 5, "reserve": 6, "clear": 7, "dup": 8,
       "trim_u32": 9, "pullup": 10}
ENV = ["env_alloc.c", "env_misc.c", "env_sync.c"]


def queries(tier):
    qs = []
    caps = [8, 24, 40] if tier == "quick" else [1, 8, 24, 33, 40, 64]
    for op, code in OPS.items():
        for cap in caps:
            if op == "trim_u32" and cap < 4:
                continue
            qs.append(Query("chunk-%s-cap%d" % (op, cap), "c17/chunk_step.c", env=ENV,
                            defs={"OP": code, "CAP": cap}, unwind=max(cap + 24, 70), timeout=300,
                            params={"op": op, "cap": cap}))
    return qs

MANIFEST = {
    "text": ("Bounded symbolic check of the real core/message.c: every body-chunk operation from an arbitrary "
             "invariant-satisfying chunk state (capacity concrete per query; offset, length, contents, arguments symbolic) "
             "against byte-string semantics; header operations for all header lengths 0..64 and all argument lengths; "
             "big-endian forms for all values."),
    "note": ("Holds for the listed capacities and argument lengths <= 12 only; allocation assumed to succeed; "
             "relational comparison of NULL pointers at message.c nni_chunk_grow is triaged UB (pointer checks off for that line)."),
}

/* C16 / C01: the buffered reader and the writer of the real supplemental/http/http_conn.c
 * (http_rd_submit, http_rd_start, http_rd_buf, http_buf_pull_up, http_rd_cb, http_rd_cancel,
 *  http_wr_submit, http_wr_start, http_wr_cb, http_close) under segmentation of the byte stream.
 *
 * The stream below the connection is a model that delivers the bytes W[0..) (symbolic) in
 * segments of the concrete sizes SEGS (a segment is cut short when the connection asked for
 * fewer bytes - the rest stays "in the kernel"); the head parsers are position models: the
 * head consists of lines that end at stream offsets LINE1 and HDREND (concrete), a parser call
 * consumes every complete line it is offered and asks for more (NNG_EAGAIN) until HDREND has
 * arrived.  (The real parsers of http_msg.c / http_chunk.c have their own harnesses.)
 *
 * MODE 1  head read (FLAVOR: 0 request, 1 response, 2 chunked body) followed by an exact read
 *         (nni_http_read_full) of L bytes into NIOV buffers, then a raw read:
 *         - every parser call sees exactly the unconsumed bytes of the stream, in order
 *           (nothing lost, duplicated or overwritten when a line straddles two segments);
 *         - the exact read returns W[HDREND .. HDREND+L), wherever the segment boundaries fall,
 *           including the bytes that arrived in the same segment as the end of the head;
 *         - the raw read returns a non-empty prefix of what follows.
 * MODE 2  nni_http_read_discard(D) followed by an exact read: returns W[D .. D+L).
 * MODE 3  nni_http_write_full of L bytes in NIOV buffers with partial transport writes of the
 *         sizes SEGS: the wire carries exactly the bytes, in order, and the operation completes
 *         once with the full count; nni_http_write (raw) completes after the first transfer.
 * MODE 4  a head line longer than the read buffer: response -> NNG_EMSGSIZE and the connection
 *         is closed; request -> HTTP status 414/431 is recorded instead of delivering garbage.
 */
#include "env_aio.h"
#include <string.h>
extern int env_locks_held;

/* the formatter behind the head of an outgoing message (http_snprintf): a stand-in that writes RLEN bytes of 'R' per
 * call - which bytes a response head consists of is not the subject, WHERE they are put is (MODE 5) */
#ifndef RLEN
#define RLEN 3
#endif
static int
h_snprintf(char *b, size_t n, const char *f, ...)
{
	(void) f;
	for (size_t i = 0; i < RLEN; i++)
		if (b != NULL && i + 1 < n)
			b[i] = 'R';
	if (b != NULL && n > 0)
		b[RLEN + 1 <= n ? RLEN : n - 1] = 0;
	return RLEN;
}
#define snprintf h_snprintf
#include "supplemental/http/http_conn.c"
#undef snprintf
static int strm_closed;

#ifndef NW
#define NW 24
#endif
#ifndef BUFSZ
#define BUFSZ 16
#endif
#ifndef LINE1
#define LINE1 3
#endif
#ifndef HDREND
#define HDREND 7
#endif
#ifndef L
#define L 5
#endif
#ifndef NIOV
#define NIOV 1
#endif
#ifndef SEGS
#define SEGS 4, 5, 9, 6
#endif
#ifndef FLAVOR
#define FLAVOR 1
#endif
#ifndef D
#define D 3
#endif

static nng_stream strm;
static nni_aio   *rx_aio, *tx_aio;
static u8         W[NW];
static size_t     w_delivered; /* stream bytes handed to the connection so far */
static size_t     consumed;    /* stream offset of the first byte the connection has not yet consumed */
static u8         TXW[NW];
static size_t     tx_n;
static const int  segs[] = { SEGS, 0 };
static int        seg_i;

static void
strm_rx_cancel(nni_aio *aio, void *arg, nng_err rv)
{
	(void) arg;
	if (rx_aio == aio) {
		rx_aio = NULL;
		nni_aio_finish_error(aio, rv);
	}
}
static void
strm_tx_cancel(nni_aio *aio, void *arg, nng_err rv)
{
	(void) arg;
	if (tx_aio == aio) {
		tx_aio = NULL;
		nni_aio_finish_error(aio, rv);
	}
}
void
nng_stream_recv(nng_stream *s, nni_aio *aio)
{
	(void) s;
	nni_aio_reset(aio);
	if (!nni_aio_start(aio, strm_rx_cancel, NULL))
		return;
	CHECK(rx_aio == NULL, "one transport read at a time");
	rx_aio = aio;
}
void
nng_stream_send(nng_stream *s, nni_aio *aio)
{
	(void) s;
	nni_aio_reset(aio);
	if (!nni_aio_start(aio, strm_tx_cancel, NULL))
		return;
	CHECK(tx_aio == NULL, "one transport write at a time");
	tx_aio = aio;
}
void
nng_stream_close(nng_stream *s)
{
	(void) s;
	strm_closed = 1;
}
static void
quiesce(void)
{
	for (int i = 0; i < 8; i++)
		if (env_run_callbacks() == 0)
			break;
	CHECK(env_callbacks_pending() == 0, "library reaches quiescence");
	CHECK(env_locks_held == 0, "no lock is held at a quiescent point");
}
/* the transport delivers up to n further stream bytes into the buffers of the pending read */
static void
deliver(size_t n)
{
	nni_aio *aio = rx_aio;
	unsigned nio;
	nni_iov *iov;
	size_t   done = 0;
	CHECK(aio != NULL, "harness: deliver needs a pending transport read");
	ASSUME(aio != NULL);
	rx_aio = NULL;
	nni_aio_get_iov(aio, &nio, &iov);
	CHECK(nio >= 1 && iov[0].iov_len > 0, "the connection never posts an empty transport read (would spin)");
	for (unsigned k = 0; k < nio && k < 4; k++) {
		for (size_t j = 0; j < iov[k].iov_len && j < NW; j++) {
			if (done == n)
				break;
			CHECK(w_delivered < NW, "harness: stream long enough");
			((u8 *) iov[k].iov_buf)[j] = W[w_delivered++];
			done++;
		}
	}
	nni_aio_finish(aio, 0, done);
	quiesce();
}
/* the transport accepts up to n bytes of the pending write */
static void
accept_tx(size_t n)
{
	nni_aio *aio = tx_aio;
	unsigned nio;
	nni_iov *iov;
	size_t   done = 0;
	CHECK(aio != NULL, "harness: accept_tx needs a pending transport write");
	ASSUME(aio != NULL);
	tx_aio = NULL;
	nni_aio_get_iov(aio, &nio, &iov);
	CHECK(nio >= 1 && nni_aio_iov_count(aio) > 0, "the connection never posts an empty transport write");
	for (unsigned k = 0; k < nio && k < 4; k++) {
		for (size_t j = 0; j < iov[k].iov_len && j < NW; j++) {
			if (done == n)
				break;
			CHECK(tx_n < NW, "harness: wire log long enough");
			TXW[tx_n++] = ((u8 *) iov[k].iov_buf)[j];
			done++;
		}
	}
	nni_aio_finish(aio, 0, done);
	quiesce();
}

static int             status_set;
static nng_http_status status_val;
/* ---- position models of the head parsers ---- */
static int parser_calls;
#if MODE == 5
static size_t hdrend_v = HDREND, line1_v = LINE1;
#undef HDREND
#undef LINE1
#define HDREND hdrend_v
#define LINE1 line1_v
#endif
static nng_err
model_parse(void *buf, size_t n, size_t *lenp)
{
	parser_calls++;
	if (status_set) {
		/* an over-long request: the connection has replaced the unparsable bytes by a placeholder
		 * header on purpose and is skipping to the end of the head; the stream view ends here */
		*lenp = 0;
		return (NNG_EAGAIN);
	}
	CHECK(consumed + n <= w_delivered, "the parser is never offered more than has arrived");
	{
		size_t j = ND(usz);
		if (j < n) {
			CHECK(((u8 *) buf)[j] == W[(consumed + j) % NW], "the read buffer holds exactly the unconsumed bytes of the stream, in order");
		}
	}
	size_t end = consumed + n;
	if (end >= HDREND) {
		*lenp    = HDREND - consumed;
		consumed = HDREND;
		return (NNG_OK);
	}
	if (consumed < LINE1 && end >= LINE1) {
		*lenp    = LINE1 - consumed;
		consumed = LINE1;
	} else {
		*lenp = 0;
	}
	return (NNG_EAGAIN);
}
nng_err
nni_http_req_parse(nng_http *c, void *buf, size_t n, size_t *lenp)
{
	nng_err rv = model_parse(buf, n, lenp);
	if (consumed >= LINE1)
		c->req.data.parsed = true; /* the request line is complete */
	return rv;
}
nng_err
nni_http_res_parse(nng_http *c, void *buf, size_t n, size_t *lenp)
{
	(void) c;
	return model_parse(buf, n, lenp);
}
nng_err
nni_http_chunks_parse(nni_http_chunks *cl, void *buf, size_t n, size_t *lenp)
{
	(void) cl;
	return model_parse(buf, n, lenp);
}
void
nng_http_set_status(nng_http *c, nng_http_status status, const char *reason)
{
	/* src/supplemental/http/http_public.c forwards to nni_http_set_status; recorded here */
	(void) reason;
	c->code    = status;
	status_set = 1;
	status_val = status;
}

static struct nng_http_conn conn;
static u8                   rbuf[BUFSZ];
static nni_aio              u1, u2, u3;

static void
conn_init(void)
{
	static const struct nng_http_conn z;
	conn = z;
	nni_mtx_init(&conn.mtx);
	nni_aio_list_init(&conn.rdq);
	nni_aio_list_init(&conn.wrq);
	conn.buf   = rbuf;
	conn.bufsz = BUFSZ;
	nni_aio_init(&conn.wr_aio, http_wr_cb, &conn);
	nni_aio_init(&conn.rd_aio, http_rd_cb, &conn);
	conn.sock = &strm;
}
static void
submit_rd(nni_aio *a, enum read_flavor f)
{
	env_aio_submit(a);
	nni_mtx_lock(&conn.mtx);
	http_rd_submit(&conn, a, f);
	nni_mtx_unlock(&conn.mtx);
	quiesce();
}
static void
pump_rx(nni_aio *a)
{
	for (int k = 0; k < 6; k++) {
		if (env_aio_completed(a) || rx_aio == NULL || segs[seg_i] == 0)
			break;
		deliver((size_t) segs[seg_i++]);
	}
}
static void
pump_tx(nni_aio *a)
{
	for (int k = 0; k < 6; k++) {
		if (env_aio_completed(a) || tx_aio == NULL || segs[seg_i] == 0)
			break;
		accept_tx((size_t) segs[seg_i++]);
	}
}

void
harness(void)
{
	for (int i = 0; i < NW; i++)
		W[i] = ND(u8);
	conn_init();
	nni_aio_init(&u1, NULL, NULL);
	nni_aio_init(&u2, NULL, NULL);
	nni_aio_init(&u3, NULL, NULL);
#if MODE == 1 || MODE == 2
	u8      dst[L + 1];
	nni_iov iov[2];
#if MODE == 1
	static const enum read_flavor fl[3] = { HTTP_RD_REQ, HTTP_RD_RES, HTTP_RD_CHUNK };
	submit_rd(&u1, fl[FLAVOR]);
	pump_rx(&u1);
	if (w_delivered >= HDREND) {
		CHECK(env_aio_completed(&u1) == 1 && nni_aio_result(&u1) == 0, "the head read completes as soon as the whole head has arrived");
		WITNESS("head complete");
	}
	if (!env_aio_completed(&u1)) {
		WITNESS("head still incomplete when the segments ran out");
		WITNESS("end");
		return;
	}
	CHECK(consumed == HDREND, "the head parser consumed exactly the head");
	size_t base = HDREND;
#else
	nni_mtx_lock(&conn.mtx);
	conn.rd_discard = D;
	nni_mtx_unlock(&conn.mtx);
	env_aio_submit(&u1);
	nni_http_read_discard(&conn, D, &u1);
	quiesce();
	pump_rx(&u1);
	if (w_delivered >= D) {
		CHECK(env_aio_completed(&u1) == 1 && nni_aio_result(&u1) == 0, "the discard completes once the discarded bytes have arrived");
		WITNESS("discard complete");
	}
	if (!env_aio_completed(&u1)) {
		WITNESS("end");
		return;
	}
	size_t base = D;
	consumed    = D;
#endif
	/* exact read of L bytes into NIOV buffers */
#if NIOV == 2
	iov[0].iov_buf = dst;
	iov[0].iov_len = L / 2;
	iov[1].iov_buf = dst + L / 2;
	iov[1].iov_len = L - L / 2;
	nni_aio_set_iov(&u2, 2, iov);
#else
	iov[0].iov_buf = dst;
	iov[0].iov_len = L;
	nni_aio_set_iov(&u2, 1, iov);
#endif
	env_aio_submit(&u2);
	nni_http_read_full(&conn, &u2);
	quiesce();
	pump_rx(&u2);
	if (w_delivered >= base + L) {
		CHECK(env_aio_completed(&u2) == 1 && nni_aio_result(&u2) == 0, "the exact read completes once its bytes have arrived");
		CHECK(nni_aio_count(&u2) == L, "the exact read reports exactly the requested count");
		size_t j = ND(usz);
		ASSUME(j < L);
		CHECK(dst[j] == W[base + j], "the exact read returns the stream bytes that follow the head, in order, whatever the segmentation");
		WITNESS("exact read complete");
		consumed = base + L;
		/* a raw read: whatever is buffered (or the next segment), at least one byte, a prefix of the stream */
		u8 rdst[4];
		iov[0].iov_buf = rdst;
		iov[0].iov_len = 4;
		nni_aio_set_iov(&u3, 1, iov);
		env_aio_submit(&u3);
		nni_http_read(&conn, &u3);
		quiesce();
		pump_rx(&u3);
		if (env_aio_completed(&u3)) {
			CHECK(nni_aio_result(&u3) == 0, "raw read succeeds");
			size_t c = nni_aio_count(&u3);
			CHECK(c >= 1 && c <= 4, "a raw read returns at least one and at most the requested bytes");
			size_t k = ND(usz);
			ASSUME(k < c && k < 4);
			CHECK(rdst[k] == W[base + L + k], "the raw read returns the next stream bytes");
			WITNESS("raw read complete");
		}
	} else {
		CHECK(env_aio_completed(&u2) == 0, "an exact read is not completed before all of its bytes have arrived");
		WITNESS("exact read still waiting");
	}
#elif MODE == 5
	/* PIPELINING: the head of request 1 (no body) and the beginning of request 2 arrive in ONE segment; the server answers
	 * request 1 (nni_http_write_res formats the head of the response) and then reads request 2: the parser must see exactly
	 * the stream bytes that followed request 1 - what the server does in between must not alter bytes that have been received
	 * but not yet consumed (the same stream decodes to the same requests however it is cut into segments) */
	NNI_LIST_INIT(&conn.res.data.hdrs, http_header, node);
	NNI_LIST_INIT(&conn.req.data.hdrs, http_header, node);
	size_t head1 = hdrend_v;
	submit_rd(&u1, HTTP_RD_REQ);
	pump_rx(&u1);
	CHECK(env_aio_completed(&u1) == 1 && nni_aio_result(&u1) == 0 && consumed == head1, "the first request head is read");
	CHECK(w_delivered > head1, "harness: bytes of the second request arrived together with the first");
	env_aio_submit(&u2);
	nni_http_write_res(&conn, &u2);
	quiesce();
	pump_tx(&u2);
	CHECK(env_aio_completed(&u2) == 1 && nni_aio_result(&u2) == 0, "the response to the first request is written");
	WITNESS("response written with bytes of the next request buffered");
	/* request 2: its first line ends 2 bytes on, its head 4 bytes on */
	line1_v  = head1 + 2;
	hdrend_v = head1 + 4;
	submit_rd(&u3, HTTP_RD_REQ);
	pump_rx(&u3);
	CHECK(env_aio_completed(&u3) == 1 && nni_aio_result(&u3) == 0 && consumed == hdrend_v, "the second request head is read");
	WITNESS("second request read");
#elif MODE == 3
	u8      src[L];
	nni_iov iov[2];
	for (int i = 0; i < L; i++)
		src[i] = ND(u8);
#if NIOV == 2
	iov[0].iov_buf = src;
	iov[0].iov_len = L / 2;
	iov[1].iov_buf = src + L / 2;
	iov[1].iov_len = L - L / 2;
	nni_aio_set_iov(&u1, 2, iov);
#else
	iov[0].iov_buf = src;
	iov[0].iov_len = L;
	nni_aio_set_iov(&u1, 1, iov);
#endif
	env_aio_submit(&u1);
#ifdef RAWWR
	nni_http_write(&conn, &u1);
#else
	nni_http_write_full(&conn, &u1);
#endif
	quiesce();
	CHECK(tx_aio != NULL, "a write is handed to the transport");
	pump_tx(&u1);
#ifdef RAWWR
	CHECK(env_aio_completed(&u1) == 1 && nni_aio_result(&u1) == 0, "a raw write completes after the first transfer");
	CHECK(nni_aio_count(&u1) == tx_n && tx_n >= 1 && tx_n <= L, "a raw write reports what the transport took");
#else
	if (tx_n >= L) {
		CHECK(env_aio_completed(&u1) == 1 && nni_aio_result(&u1) == 0, "the full write completes once every byte is written");
		CHECK(nni_aio_count(&u1) == L && tx_n == L, "the full write reports, and puts on the wire, exactly its bytes");
		WITNESS("full write complete");
	} else {
		CHECK(env_aio_completed(&u1) == 0, "a full write is not reported complete before every byte is written");
		WITNESS("full write still in progress");
	}
#endif
	{
		size_t j = ND(usz);
		ASSUME(j < tx_n && j < L);
		CHECK(TXW[j] == src[j], "the wire carries the caller's bytes in order, nothing skipped or repeated across partial writes");
	}
#elif MODE == 4
	/* a first line that never ends within the buffer: LINE1 and HDREND are beyond BUFSZ here */
	submit_rd(&u1, FLAVOR == 0 ? HTTP_RD_REQ : HTTP_RD_RES);
	pump_rx(&u1);
#if FLAVOR == 1
	CHECK(env_aio_completed(&u1) == 1 && nni_aio_result(&u1) == NNG_EMSGSIZE, "a response head line longer than the buffer fails the read with EMSGSIZE");
	CHECK(conn.closed && strm_closed, "and the connection is closed");
	WITNESS("oversize response refused");
#else
	CHECK(status_set && (status_val == NNG_HTTP_STATUS_URI_TOO_LONG || status_val == NNG_HTTP_STATUS_HEADERS_TOO_LARGE),
	    "an over-long request line / header is answered with 414 / 431, not delivered");
	WITNESS("oversize request flagged");
#endif
#endif
	CHECK(env_locks_held == 0, "no lock held");
	WITNESS("end");
}

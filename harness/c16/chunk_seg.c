/* C16 (iv): the chunked-transfer decoder (real http_chunk.c) is independent
 * of how the byte stream is segmented: for every input B of N bytes and every
 * split point k, parse(B[0..k)) ; parse(rest) ends with the same result code,
 * the same number of consumed bytes, the same chunk list (sizes and data) and
 * the same total as parse(B[0..N)).
 * shape: N, MAXSZ (cl_maxsz; small, so every accepted chunk allocation is
 * small).  Everything else symbolic. */
#include "vh.h"
#include "supplemental/http/http_chunk.c"
extern int env_alloc_live;

#ifndef N
#define N 8
#endif
#ifndef MAXSZ
#define MAXSZ 3
#endif

struct res {
	nng_err rv;
	size_t  used;
};

static struct res
run_split(nni_http_chunks *cl, char *b, size_t k)
{
	struct res r;
	size_t     l1 = 0, l2 = 0;
	nng_err    rv = nni_http_chunks_parse(cl, b, k, &l1);
	if (rv == NNG_EAGAIN) {
		CHECK(l1 == k, "EAGAIN means every offered byte was consumed");
		if (k < N) {
			rv = nni_http_chunks_parse(cl, b + k, N - k, &l2);
		}
	}
	r.rv   = rv;
	r.used = l1 + l2;
	return r;
}

extern int env_alloc_small_only;
void
harness(void)
{
	env_alloc_small_only = 1;
	char             b[N + 1], b2[N + 1];
	nni_http_chunks *a = NULL, *s = NULL;
	size_t           k = ND(usz);
	ND_BYTES(b, N);
	for (int i = 0; i < N; i++)
		b2[i] = b[i];
	ASSUME(k <= N);
	CHECK(nni_http_chunks_init(&a, MAXSZ) == 0 && nni_http_chunks_init(&s, MAXSZ) == 0, "init");
	struct res whole = run_split(a, b, N);
	struct res split = run_split(s, b2, k);
	CHECK(whole.rv == split.rv, "same result code for any segmentation");
	CHECK(whole.used == split.used, "same number of bytes consumed for any segmentation");
	CHECK(a->cl_state == s->cl_state, "same decoder state for any segmentation");
	CHECK(a->cl_total == s->cl_total, "same total size for any segmentation");
	CHECK(MAXSZ == 0 || a->cl_total <= MAXSZ, "total never exceeds the configured maximum");
	nni_http_chunk *ca = nni_http_chunks_iter(a, NULL), *cs = nni_http_chunks_iter(s, NULL);
	for (int i = 0; i < N; i++) {
		if (ca == NULL || cs == NULL)
			break;
		CHECK(ca->c_size == cs->c_size, "same chunk sizes for any segmentation");
		CHECK(ca->c_resid == cs->c_resid, "same residual for any segmentation");
		size_t j = ND(usz);
		ASSUME(j < ca->c_alloc - ca->c_resid);
		CHECK(ca->c_data[j] == cs->c_data[j], "same chunk data for any segmentation");
		WITNESS("chunk compared");
		ca = nni_http_chunks_iter(a, ca);
		cs = nni_http_chunks_iter(s, cs);
	}
	CHECK(ca == NULL && cs == NULL, "same number of chunks for any segmentation");
	if (whole.rv == NNG_OK)
		WITNESS("complete body decoded");
	if (whole.rv == NNG_EPROTO)
		WITNESS("protocol error");
	if (whole.rv == NNG_EMSGSIZE)
		WITNESS("size error");
	if (whole.rv == NNG_EAGAIN)
		WITNESS("needs more");
	nni_http_chunks_free(a);
	nni_http_chunks_free(s);
	CHECK(env_alloc_live == 0, "decoder returns all memory");
	WITNESS("end");
}

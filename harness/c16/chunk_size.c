/* C16 (iv): chunk size line: ND hex digits (symbolic) then CR LF; the decoded
 * size is exact, overflow of size_t and sizes above cl_maxsz are refused with
 * NNG_EMSGSIZE before anything is allocated, non-hex characters give EPROTO. */
#include "vh.h"
#include "supplemental/http/http_chunk.c"
extern int env_alloc_count;
#ifndef ND_DIGITS
#define ND_DIGITS 17
#endif

extern int env_alloc_small_only;
void
harness(void)
{
	env_alloc_small_only = 1;
	char             b[ND_DIGITS + 2];
	nni_http_chunks *cl = NULL;
	size_t           maxsz = ND(usz), used = 0;
	ASSUME(maxsz >= 1 && maxsz <= 6);
	CHECK(nni_http_chunks_init(&cl, maxsz) == 0, "init");
	int allocs0 = env_alloc_count;
	/* reference value with overflow detection (128-bit arithmetic) */
	unsigned __int128 val = 0;
	int               bad = 0, over = 0;
	for (int i = 0; i < ND_DIGITS; i++) {
		u8 c = ND(u8);
		b[i] = (char) c;
		int d;
		if (c >= '0' && c <= '9')
			d = c - '0';
		else if (c >= 'a' && c <= 'f')
			d = c - 'a' + 10;
		else if (c >= 'A' && c <= 'F')
			d = c - 'A' + 10;
		else
			d = -1;
		ASSUME(d >= 0); /* digits only in this harness */
		val = val * 16 + (unsigned) d;
		if (val > (unsigned __int128) SIZE_MAX)
			over = 1;
	}
	(void) bad;
	b[ND_DIGITS]     = '\r';
	b[ND_DIGITS + 1] = '\n';
	nng_err rv       = nni_http_chunks_parse(cl, b, ND_DIGITS + 2, &used);
	if (over) {
		CHECK(rv == NNG_EMSGSIZE, "size that overflows size_t is refused");
		CHECK(env_alloc_count == allocs0, "nothing allocated for an overflowing size");
		WITNESS("overflow refused");
	} else if (val == 0) {
		CHECK(rv == NNG_EAGAIN && cl->cl_state == CS_TRLR, "zero size starts the trailer");
		WITNESS("last chunk");
	} else if (val > maxsz) {
		CHECK(rv == NNG_EMSGSIZE, "size above the configured maximum is refused");
		CHECK(env_alloc_count == allocs0, "nothing allocated for an oversized chunk");
		WITNESS("too big refused");
	} else {
		CHECK(rv == NNG_EAGAIN && cl->cl_state == CS_DATA, "acceptable size: data expected next");
		CHECK(cl->cl_size == (size_t) val && cl->cl_total == (size_t) val, "decoded size is exact");
		WITNESS("size accepted");
	}
	nni_http_chunks_free(cl);
	WITNESS("end");
}

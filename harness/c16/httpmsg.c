/* C16 (i)/(vi): the HTTP request / response head parser of http_msg.c
 * (http_scan_line, nni_http_req_parse, nni_http_res_parse, http_parse_header,
 * http_req_parse_line, http_res_parse_line) on a concrete template stream with
 * NSYM symbolic bytes at concrete positions P0.. and a concrete cut point K
 * (the driver sweeps templates x byte windows x cuts):
 *
 *   segmentation: parsing the whole stream == parsing the first k bytes and,
 *                 if that asked for more (NNG_EAGAIN), the unconsumed rest -
 *                 same result, same bytes consumed, same method / uri /
 *                 version / status / headers handed to the connection object;
 *   rules:        success implies a complete, well-formed head (no control
 *                 characters, no bare CR, request line = method SP uri SP
 *                 supported-version or an HTTP error status, status line =
 *                 version SP 100..999 SP reason), header values are trimmed,
 *                 a header line without ':' is never delivered;
 *   C20:          a failed allocation while storing a header or the uri is
 *                 reported (FAILHDR / FAILURI).
 *
 * The connection object (http_conn.c) is replaced by a recording model: the
 * parser only calls setters on it.  nni_url_canonify_uri is C19's subject and
 * is modelled as the identity that rejects a leading '%'.
 */
#include "vh.h"
#include "supplemental/http/http_msg.c"

#ifndef NSYM
#define NSYM 0
#endif
#ifndef P0
#define P0 0
#endif
#ifndef P1
#define P1 0
#endif
#ifndef P2
#define P2 0
#endif
#ifndef K
#define K 0
#endif
#ifndef TPL
#define TPL 0
#endif

#define SL 12
#define MAXREC 6
struct rec {
	int kind; /* 1 status 2 version 3 method 4 uri 5 header */
	int num;
};
struct nng_http_conn {
	nng_http_req req;
	nng_http_res res;
	int          code;
	int          nrec;
	struct rec   recs[MAXREC];
	/* the recorded strings live in flat arrays indexed [record * SL + i]: a char pointer into an
	 * array-of-struct member is normalised by CBMC to recs[0].a[32] and read back wrongly */
	char         sa[MAXREC * SL];
	char         sb[MAXREC * SL];
	int          nhdr;
	int          fail_hdr_at; /* which add_header fails with ENOMEM (0 = none) */
	int          fail_uri;
	int          failed;
};

static void
cp(char *flat, int idx, const char *s)
{
	int i;
	for (i = 0; i < SL - 1; i++) {
		flat[idx * SL + i] = s[i];
		if (s[i] == 0)
			break;
	}
	flat[idx * SL + i] = 0;
}
#define RA(c, i) (&(c).sa[(i) * SL])
#define RB(c, i) (&(c).sb[(i) * SL])
static int
seq(const char *a, const char *b)
{
	for (int i = 0; i < 24; i++) {
		if (a[i] != b[i])
			return 0;
		if (a[i] == 0)
			return 1;
	}
	return 0;
}
static struct rec *
newrec(nng_http *c, int kind)
{
	static const struct rec zero;
	CHECK(c->nrec < MAXREC, "harness: record table large enough");
	struct rec *r = &c->recs[c->nrec < MAXREC ? c->nrec : MAXREC - 1];
	*r            = zero;
	r->kind       = kind;
	c->nrec++;
	return r;
}

nng_http_req *
nni_http_conn_req(nng_http *c)
{
	return &c->req;
}
nng_http_res *
nni_http_conn_res(nng_http *c)
{
	return &c->res;
}
nng_http_status
nni_http_get_status(nng_http *c)
{
	return c->code ? c->code : NNG_HTTP_STATUS_OK;
}
void
nni_http_set_status(nng_http *c, nng_http_status st, const char *reason)
{
	struct rec *r = newrec(c, 1);
	c->code       = st;
	r->num        = st;
	if (reason != NULL)
		cp(c->sa, c->nrec - 1, reason);
}
int
nni_http_set_version(nng_http *c, const char *v)
{
	static const char *vs[] = { "HTTP/1.1", "HTTP/2", "HTTP/3", "HTTP/1.0", "HTTP/0.9" };
	for (int i = 0; i < 5; i++)
		if (seq(v, vs[i])) {
			struct rec *r = newrec(c, 2);
			r->num        = i;
			return NNG_OK;
		}
	return NNG_ENOTSUP;
}
void
nni_http_set_method(nng_http *c, const char *m)
{
	struct rec *r = newrec(c, 3);
	cp(c->sa, c->nrec - 1, m);
	(void) r;
}
nng_err
nni_http_set_uri(nng_http *c, const char *uri, const char *q)
{
	CHECK(q == NULL, "parser passes no query");
	if (c->fail_uri) {
		c->failed = 1;
		return NNG_ENOMEM;
	}
	struct rec *r = newrec(c, 4);
	cp(c->sa, c->nrec - 1, uri);
	(void) r;
	return NNG_OK;
}
nng_err
nni_http_add_header(nng_http *c, const char *k, const char *v)
{
	c->nhdr++;
	if (c->fail_hdr_at == c->nhdr) {
		c->failed = 1;
		return NNG_ENOMEM;
	}
	struct rec *r = newrec(c, 5);
	cp(c->sa, c->nrec - 1, k);
	cp(c->sb, c->nrec - 1, v);
	(void) r;
	return NNG_OK;
}
nng_err
nni_url_canonify_uri(char *u)
{
	return u[0] == '%' ? NNG_EINVAL : 0;
}

static const char *const tpl_req[] = {
	"GET /a HTTP/1.1\r\nK: v\r\n\r\n",
	"GET /a HTTP/1.1\nA:b\n\nZ",
	"PUT /x HTTP/1.0\r\nAb:  c d \t\r\nE:\r\n\r\n",
	"A /b HTTP/2\r\nK: v\r\nL: w\r\n\r\n",
	"GET /a HTTP/1.1\r\nK: v\r\n",    /* incomplete head */
	"GET /a\r\nK: v\r\n\r\n",        /* malformed request line: 400 */
	"GET /a HTTP/7\r\n\r\n",           /* unsupported version: 505 */
	"GET /a HTTP/1.1\r\nKv\r\n\r\n", /* header without ':' */
	"GET /a HTTP/1.1\r\nK:\x01v\r\n\r\n", /* control character */
};
static const char *const tpl_res[] = {
	"HTTP/1.1 200 OK\r\nK: v\r\n\r\n",
	"HTTP/1.0 404 Not here\nA:b\n\nZ",
	"HTTP/2 99 x\r\n\r\n",
	"HTTP/1.1 200 OK\r\nK: v\r\n", /* incomplete head */
	"HTTP/1.1 200\r\n\r\n",        /* no reason phrase separator */
	"HTTP/1.1 200 OK\r\nK v\r\n\r\n",
};
#define MAXL 40

static void
conn_init(nng_http *c)
{
	static const struct nng_http_conn zero;
	*c = zero;
	nni_http_req_init(&c->req);
	nni_http_res_init(&c->res);
}

static nng_err
parse(nng_http *c, u8 *b, size_t n, size_t *lenp)
{
#ifdef RES
	return nni_http_res_parse(c, b, n, lenp);
#else
	return nni_http_req_parse(c, b, n, lenp);
#endif
}
static int
ctl(u8 c)
{
	return c < ' ' && c != '\r' && c != '\n';
}

#if defined(KERNEL)
/* ---- line-level kernels on fully symbolic short lines ----
 * KERNEL 1: http_scan_line on N symbolic bytes against a reference scanner
 * KERNEL 2: http_req_parse_line on a symbolic NUL-terminated line of LL bytes
 * KERNEL 3: http_res_parse_line
 * KERNEL 4: http_parse_header
 */
#ifndef LL
#define LL 6
#endif
void
harness(void)
{
	static struct nng_http_conn c;
	static u8                   b[LL + 1], o[LL + 1];
	conn_init(&c);
	for (int i = 0; i < LL; i++) {
		b[i] = ND(u8);
		o[i] = b[i];
	}
	b[LL] = o[LL] = 0;
#ifdef FIXREQ /* the last 6 bytes are a concrete supported version: the accepting paths become reachable at small LL */
	for (int i = 0; i < 6; i++)
		b[LL - 6 + i] = o[LL - 6 + i] = (u8) "HTTP/2"[i];
#endif
#ifdef FIXRES /* the first 7 bytes are a concrete supported version and the separator */
	for (int i = 0; i < 7; i++)
		b[i] = o[i] = (u8) "HTTP/2 "[i];
#endif
#if KERNEL == 1
	size_t  n   = ND(usz);
	size_t  len = 777;
	ASSUME(n <= LL);
	nng_err rv = http_scan_line(b, n, &len);
	/* reference: first LF decides; before it no control character except a CR that is immediately followed by the LF */
	int    exp = NNG_EAGAIN;
	size_t el  = 777;
	for (size_t i = 0; i < LL; i++) {
		if (i >= n)
			break;
		if (o[i] == '\n') {
			exp = 0;
			el  = i + 1;
			break;
		}
		if ((o[i] < ' ' && o[i] != '\r') || (i > 0 && o[i - 1] == '\r')) {
			exp = NNG_EPROTO;
			break;
		}
	}
	CHECK((int) rv == exp, "scan_line: result is decided by the first LF / first illegal character");
	if (rv == 0) {
		CHECK(len == el, "scan_line: consumes exactly through the LF");
		size_t e = (el >= 2 && o[el - 2] == '\r') ? el - 2 : el - 1;
		CHECK(b[e] == 0, "scan_line: line is terminated where the CR LF / LF began");
		for (size_t i = 0; i < LL; i++)
			if (i < e)
				CHECK(b[i] == o[i] && o[i] >= ' ', "scan_line: line content untouched and free of control characters");
		WITNESS("line found");
	} else {
		for (size_t i = 0; i < LL; i++)
			CHECK(b[i] == o[i], "scan_line: buffer untouched when no line is returned");
		if (rv == NNG_EPROTO)
			WITNESS("line refused");
		else
			WITNESS("more data needed");
	}
#elif KERNEL == 2
	for (int i = 0; i < LL; i++)
		ASSUME(b[i] != 0);
	nng_err rv = http_req_parse_line(&c, b);
	int     s1 = -1, s2 = -1;
	for (int i = 0; i < LL; i++) {
		if (o[i] == ' ') {
			if (s1 < 0)
				s1 = i;
			else if (s2 < 0)
				s2 = i;
		}
	}
	CHECK(rv == 0, "request line parser never fails the connection without memory pressure");
	if (s2 < 0) {
		CHECK(c.code == NNG_HTTP_STATUS_BAD_REQUEST, "request line without two spaces: 400");
		CHECK(c.nrec == 1, "nothing delivered from a malformed request line");
		WITNESS("400");
	} else if (c.code >= 400) {
		CHECK(c.code == NNG_HTTP_STATUS_BAD_REQUEST || c.code == NNG_HTTP_STATUS_HTTP_VERSION_NOT_SUPP, "refusal is 400 or 505");
		int uri_bad = o[s1 + 1] == '%';
		CHECK(c.code != NNG_HTTP_STATUS_BAD_REQUEST || uri_bad, "400 only for a uri that does not canonify");
		WITNESS("refused");
	} else {
		CHECK(c.nrec == 3 && c.recs[0].kind == 2 && c.recs[1].kind == 3 && c.recs[2].kind == 4, "accepted request line delivers version, method, uri");
		for (int i = 0; i < LL; i++) {
			if (i < s1)
				CHECK(RA(c, 1)[i] == (char) o[i], "method is the text before the first space");
			if (i > s1 && i < s2)
				CHECK(RA(c, 2)[i - s1 - 1] == (char) o[i], "uri is the text between the first two spaces");
		}
		CHECK(RA(c, 1)[s1] == 0 && RA(c, 2)[s2 - s1 - 1] == 0, "method and uri end at the spaces");
		WITNESS("accepted");
	}
#elif KERNEL == 3
	for (int i = 0; i < LL; i++)
		ASSUME(b[i] != 0);
	nng_err rv = http_res_parse_line(&c, b);
	int     s1 = -1, s2 = -1;
	for (int i = 0; i < LL; i++) {
		if (o[i] == ' ') {
			if (s1 < 0)
				s1 = i;
			else if (s2 < 0)
				s2 = i;
		}
	}
	if (rv == 0) {
		CHECK(s2 > 0, "accepted status line has version SP code SP reason");
		CHECK(c.nrec == 2 && c.recs[0].kind == 1 && c.recs[1].kind == 2, "accepted status line delivers status and a supported version");
		CHECK(c.recs[0].num >= 100 && c.recs[0].num <= 999, "accepted status code within 100..999");
		WITNESS("accepted");
	} else {
		CHECK(rv == NNG_EPROTO || rv == NNG_ENOTSUP, "refusal is EPROTO (or ENOTSUP for the version)");
		if (s2 < 0)
			CHECK(rv == NNG_EPROTO && c.nrec == 0, "status line without two spaces: EPROTO, nothing delivered");
		WITNESS("refused");
	}
#elif KERNEL == 4
	for (int i = 0; i < LL; i++)
		ASSUME(b[i] != 0);
	nng_err rv  = http_parse_header(&c, b);
	int     col = -1;
	for (int i = 0; i < LL; i++)
		if (o[i] == ':' && col < 0)
			col = i;
	if (col < 0) {
		CHECK(rv == NNG_EPROTO && c.nrec == 0, "header line without ':' is refused and not delivered");
		WITNESS("refused");
	} else {
		CHECK(rv == 0 && c.nrec == 1 && c.recs[0].kind == 5, "header line with ':' is delivered once");
		int vs = col + 1;
		for (int i = 0; i < LL; i++)
			if (i == vs && i < LL && (o[i] == ' ' || o[i] == '\t'))
				vs++;
		int ve = LL;
		for (int i = LL - 1; i >= 0; i--)
			if (i == ve - 1 && i > vs && (o[i] == ' ' || o[i] == '\t'))
				ve--;
		for (int i = 0; i < LL; i++) {
			if (i < col)
				CHECK(RA(c, 0)[i] == (char) o[i], "header name is the text before the first ':'");
			if (i >= vs && i < ve)
				CHECK(RB(c, 0)[i - vs] == (char) o[i], "header value is the text after ':' without surrounding blanks");
		}
		CHECK(RA(c, 0)[col] == 0, "header name ends at the ':'");
		CHECK(RB(c, 0)[ve > vs ? ve - vs : 0] == 0, "header value ends where the trailing blanks began");
		WITNESS("delivered");
	}
#endif
}
#else
void
harness(void)
{
#ifdef RES
	const char *t = tpl_res[TPL];
#else
	const char *t = tpl_req[TPL];
#endif
	static u8 orig[MAXL], A[MAXL], B[MAXL];
	size_t    L = 0;
	while (t[L] != 0) {
		orig[L] = (u8) t[L];
		L++;
	}
	int pos[3] = { P0, P1, P2 };
	for (int i = 0; i < NSYM; i++) {
		u8 v = ND(u8);
		ASSUME(v != 0); /* the stream is text; a NUL would end the C strings the parser builds */
		orig[pos[i]] = v;
	}
	for (size_t i = 0; i < L; i++)
		A[i] = B[i] = orig[i];

	static struct nng_http_conn ca, cb;
	conn_init(&ca);
	conn_init(&cb);
#ifdef FAILHDR
	ca.fail_hdr_at = cb.fail_hdr_at = FAILHDR;
#endif
#ifdef FAILURI
	ca.fail_uri = cb.fail_uri = 1;
#endif

	/* ---- whole stream ---- */
	size_t  na = 999;
	nng_err ra = parse(&ca, A, L, &na);
	CHECK(na <= L, "never consumes more than it was given");

	/* ---- rules ---- */
	if (ra == 0) {
		WITNESS("head accepted");
		CHECK(na >= 1 && orig[na - 1] == '\n', "success only at the end of a line");
		CHECK(na == 1 || orig[na - 2] == '\n' || (orig[na - 2] == '\r' && (na == 2 || orig[na - 3] == '\n')), "success only after an empty line");
		for (size_t i = 0; i < MAXL; i++) {
			if (i >= na)
				break;
			CHECK(!ctl(orig[i]), "accepted head contains no control character");
			if (orig[i] == '\r')
				CHECK(i + 1 < na && orig[i + 1] == '\n', "accepted head contains no bare CR");
		}
#ifdef RES
		CHECK(ca.nrec >= 2 && ca.recs[0].kind == 1 && ca.recs[1].kind == 2, "accepted status line sets status then a supported version");
		CHECK(ca.recs[0].num >= 100 && ca.recs[0].num <= 999, "accepted status code is within 100..999");
#else
		if (orig[0] == '\r' || orig[0] == '\n') {
			/* an empty first line ends the head before any request line: nothing is set (not asserted either way) */
		} else if (ca.code < 400) {
			CHECK(ca.nrec >= 3 && ca.recs[0].kind == 2 && ca.recs[1].kind == 3 && ca.recs[2].kind == 4,
			    "accepted request line sets a supported version, the method and the uri");
			CHECK(RA(ca, 1)[0] != ' ' && RA(ca, 2)[0] != '%', "method and uri are the first two words");
		} else {
			CHECK(ca.code == NNG_HTTP_STATUS_BAD_REQUEST || ca.code == NNG_HTTP_STATUS_HTTP_VERSION_NOT_SUPP, "malformed request line yields 400 or 505");
			WITNESS("request refused with an HTTP status");
		}
#endif
		for (int i = 0; i < MAXREC; i++) {
			if (i >= ca.nrec || ca.recs[i].kind != 5)
				continue;
			const char *v = RB(ca, i);
			CHECK(v[0] != ' ' && v[0] != '\t', "header value has no leading white space");
			WITNESS("header delivered");
		}
#if defined(FAILHDR) || defined(FAILURI)
		CHECK(!ca.failed, "C20: a failed allocation while storing the head is reported, not dropped");
#endif
	} else {
		CHECK(ra == NNG_EAGAIN || ra == NNG_EPROTO || ra == NNG_ENOMEM || ra == NNG_ENOTSUP, "failure is EAGAIN, EPROTO, ENOTSUP or ENOMEM");
		if (ra == NNG_EPROTO)
			WITNESS("head refused");
		if (ra == NNG_EAGAIN) {
			WITNESS("incomplete head asks for more");
#ifndef RES
			/* an incomplete head: everything consumed so far was whole lines */
			CHECK(na == 0 || orig[na - 1] == '\n', "consumed prefix ends at a line end");
#endif
		}
		if (ra == NNG_ENOMEM)
			CHECK(ca.failed, "ENOMEM only when an allocation failed");
	}

	/* ---- the same stream in two pieces ---- */
	size_t k = K; /* the cut is concrete per query: a symbolic cut makes every later buffer access a symbolic-offset access */
	CHECK(k <= L, "harness: cut within the stream");
	size_t  n1 = 999, n2 = 0;
	nng_err rb = parse(&cb, B, k, &n1);
	CHECK(n1 <= k, "never consumes more than it was given (first piece)");
	if (rb == NNG_EAGAIN) {
		rb = parse(&cb, B + n1, L - n1, &n2);
		CHECK(n2 <= L - n1, "never consumes more than it was given (second piece)");
		WITNESS("parser resumed");
	}
	CHECK(rb == ra, "segmentation: same result");
	if (ra != NNG_EPROTO && ra != NNG_ENOMEM && ra != NNG_ENOTSUP) {
		CHECK(n1 + n2 == na, "segmentation: same number of bytes consumed");
	}
	if (ra == 0) {
		CHECK(ca.nrec == cb.nrec, "segmentation: same number of items delivered");
		for (int i = 0; i < MAXREC; i++) {
			if (i >= ca.nrec || i >= cb.nrec)
				break;
			CHECK(ca.recs[i].kind == cb.recs[i].kind && ca.recs[i].num == cb.recs[i].num, "segmentation: same items");
			CHECK(seq(RA(ca, i), RA(cb, i)) && seq(RB(ca, i), RB(cb, i)), "segmentation: same strings");
		}
		CHECK(ca.code == cb.code, "segmentation: same status");
	}
}
#endif

/* C16 (i): the WebSocket frame-header decoder (real ws_read_cb).
 * One incoming frame header, all 14 header bytes symbolic, driven through
 * stage 1 (first two bytes -> header length) and stage 2 (complete header ->
 * checks and payload request), and for empty frames stage 3 (opcode rules).
 * shape: SERVER (role), LCLASS (length form 0: 7-bit, 1: 16-bit, 2: 64-bit),
 *        MASKED (mask bit of the incoming frame), OP (7-bit opcode field incl.
 *        RSV bits; concrete, because an empty frame runs straight into the
 *        opcode switch and a symbolic opcode makes the heap shape symbolic),
 *        STAGE1 (only the first two bytes have arrived)
 * symbolic: FIN bit, length bytes, mask key, maxframe, recvmax, inmsg,
 *           recv_text.
 * oracle: RFC 6455 acceptance rules the property lists; a refused frame
 * closes the connection with the right status code and no payload buffer is
 * requested or allocated for it.
 */
#include "env_aio.h"
#include "env_printf.h"
#if defined(PREPTX) && PREPTX == 1
/* symbolic payload length: the payload copy is replaced by a probe that
 * records how much would be copied (the copy itself is exercised with real
 * bytes by the PREPTX == 2 queries) */
#include <string.h>
static size_t h_copied;
static void *
h_memcpy_probe(void *d, const void *s, size_t n)
{
	h_copied += n;
	for (size_t i = 0; i < 4; i++)
		if (i < n)
			((unsigned char *) d)[i] = ((const unsigned char *) s)[i];
	return d;
}
#define memcpy(d, s, n) h_memcpy_probe((d), (s), (n))
#endif
#include "supplemental/websocket/websocket.c"
extern int    env_alloc_count, env_locks_held;
extern size_t env_alloc_limit, env_alloc_last_req, env_alloc_last_refused;

#ifndef SERVER
#define SERVER 1
#endif
#ifndef LCLASS
#define LCLASS 0
#endif
#ifndef MASKED
#define MASKED 1
#endif

/* ---- stubs of the HTTP connection layer ---- */
static int      rd_calls, wr_calls, conn_closed;
static nni_iov  rd_iov, wr_iov[2];
static unsigned wr_niov;
void
nni_http_read_full(nng_http *c, nni_aio *aio)
{
	unsigned n;
	nni_iov *iov;
	(void) c;
	nni_aio_get_iov(aio, &n, &iov);
	CHECK(n == 1, "read request uses one iov");
	rd_iov = iov[0];
	rd_calls++;
}
void
nni_http_write_full(nng_http *c, nni_aio *aio)
{
	unsigned n;
	nni_iov *iov;
	(void) c;
	nni_aio_get_iov(aio, &n, &iov);
	wr_niov   = n;
	wr_iov[0] = iov[0];
	if (n > 1)
		wr_iov[1] = iov[1];
	wr_calls++;
}
void
nni_http_conn_close(nng_http *c)
{
	(void) c;
	conn_closed++;
}

static u16
close_code(nni_ws *ws)
{
	/* the close frame is the one being written */
	ws_frame *f = ws->txframe;
	if (f == NULL || f->op != WS_CLOSE || f->len != 2)
		return 0;
	u8 b0 = f->buf[0], b1 = f->buf[1];
	if (f->masked) {
		b0 ^= f->mask[0];
		b1 ^= f->mask[1];
	}
	return (u16) ((b0 << 8) | b1);
}

#ifdef SETHDR
/* C20: the custom-header list behind NNG_OPT_WS_REQUEST_HEADERS / "ws:header:<name>" (ws_set_header, ws_set_header_ext) with
 * the FAILK-th allocation of the call failing.  Two headers exist ("Aa: 1", "B: 2"); the call sets CASE 0: "aA" (the same
 * name in other letter case: a replacement), CASE 1: "C" (a new header), CASE 2: "B" without stripping duplicates (added).
 * A call that reports NNG_ENOMEM leaves the list exactly as it was; in every case each entry has a name and a value
 * (the handshake code passes them to strlen / nni_strdup) and nothing leaks. */
extern int env_alloc_fail_at, env_alloc_failed, env_alloc_live;
#ifndef FAILK
#define FAILK 0
#endif
static int
streq(const char *a, const char *b)
{
	if (a == NULL || b == NULL)
		return 0;
	for (int i = 0; i < 8; i++) {
		if (a[i] != b[i])
			return 0;
		if (a[i] == 0)
			return 1;
	}
	return 0;
}
void
harness(void)
{
	nni_list   l;
	ws_header *h;
	NNI_LIST_INIT(&l, ws_header, node);
	CHECK(ws_set_header(&l, "Aa", "1") == 0 && ws_set_header(&l, "B", "2") == 0, "two headers set");
	int live0         = env_alloc_live;
	env_alloc_fail_at = env_alloc_count + FAILK;
#if SETHDR == 0
	int rv = ws_set_header(&l, "aA", "zz");
#elif SETHDR == 1
	int rv = ws_set_header(&l, "C", "zz");
#else
	int rv = ws_set_header_ext(&l, "B", "zz", false);
#endif
	CHECK(rv == 0 || rv == NNG_ENOMEM, "set header succeeds or reports NNG_ENOMEM");
	CHECK((rv == NNG_ENOMEM) == (env_alloc_failed != 0), "NNG_ENOMEM exactly when one of the call's allocations failed");
	int n = 0, a1 = 0, b2 = 0, azz = 0, czz = 0, bzz = 0;
	NNI_LIST_FOREACH (&l, h) {
		n++;
		CHECK(h->name != NULL && h->value != NULL, "C20: every configured header keeps a name and a value (a later dial / accept passes them to strlen)");
		a1 += streq(h->name, "Aa") && streq(h->value, "1");
		b2 += streq(h->name, "B") && streq(h->value, "2");
		azz += streq(h->name, "Aa") && streq(h->value, "zz");
		czz += streq(h->name, "C") && streq(h->value, "zz");
		bzz += streq(h->name, "B") && streq(h->value, "zz");
	}
	if (rv != 0) {
		CHECK(n == 2 && a1 == 1 && b2 == 1, "C20: a header update that failed leaves the configured headers exactly as they were");
		CHECK(env_alloc_live == live0, "C20: and leaks nothing");
		WITNESS("failed cleanly");
	} else {
#if SETHDR == 0
		CHECK(n == 2 && azz == 1 && b2 == 1 && a1 == 0, "a header set again (any letter case) replaces the old value");
#elif SETHDR == 1
		CHECK(n == 3 && a1 == 1 && b2 == 1 && czz == 1, "a new header is added");
#else
		CHECK(n == 3 && a1 == 1 && b2 == 1 && bzz == 1, "without duplicate stripping the header is added beside the old one");
#endif
		WITNESS("set");
	}
	while ((h = nni_list_first(&l)) != NULL) {
		nni_list_remove(&l, h);
		nni_strfree(h->name);
		nni_strfree(h->value);
		NNI_FREE_STRUCT(h);
	}
	CHECK(env_alloc_live == 0, "all memory returned");
	WITNESS("end");
}
#elif defined(PREPTX)
/* C16 (vi) / C01: everything nng emits is well-formed - ws_frame_prep_tx.
 * PREPTX 1: server role, ONE iov of SYMBOLIC length (0 .. 2^63), symbolic
 *           fragment size, stream/message mode, text/binary, first/continuation:
 *           FIN and opcode, payload length after the fragment-size policy,
 *           minimal length encoding (7-bit / 16-bit / 64-bit big endian), no
 *           mask bit, exactly len bytes copied.
 * PREPTX 2: client role, TXLEN concrete (sweep across 125/126/127), payload
 *           and mask key symbolic, two iovs split at the concrete point CUT: header
 *           as above plus mask bit and key, payload = data XOR key. */
#ifndef TXLEN
#define TXLEN 0
#endif
#ifndef CUT
#define CUT 0
#endif
void
harness(void)
{
	nni_ws *ws = NULL;
	nni_aio ua;
	CHECK(ws_init(&ws) == 0 && ws != NULL, "ws_init");
	ws->ready     = true;
	ws->fragsize  = ND(usz);
	ws->isstream  = ND(vbool);
	ws->send_text = ND(vbool);
	ws_frame *f   = NNI_ALLOC_STRUCT(f);
	nni_aio_init(&ua, NULL, NULL);
	size_t cnt = ND(usz);
	nni_aio_bump_count(&ua, cnt);
	f->aio = &ua;
	nni_iov iov[2];
	size_t  L;
#if PREPTX == 1
	static u8 small[8];
	ws->server     = true;
	L              = ND(usz);
	ASSUME(L <= (SIZE_MAX >> 1));
	iov[0].iov_buf = small;
	iov[0].iov_len = L;
	nni_aio_set_iov(&ua, 1, iov);
	f->asize = ND(usz);
	ASSUME(f->asize >= L); /* a buffer of the right size is already attached: allocation is C20's subject */
	f->adata = f->buf = small;
#else
	static u8 data[TXLEN + 1];
	ws->server = false;
	L          = TXLEN;
	for (int i = 0; i < TXLEN; i++)
		data[i] = ND(u8);
	size_t cut = CUT; /* concrete: a symbolic split makes the second iov a symbolic-offset pointer */
	ws->fragsize = 0; /* the fragment-size policy is PREPTX 1's subject; here the lengths stay concrete */
	iov[0].iov_buf = data;
	iov[0].iov_len = cut;
	iov[1].iov_buf = data + cut;
	iov[1].iov_len = L - cut;
	nni_aio_set_iov(&ua, 2, iov);
	env_random_value = ND(u32);
#endif
	size_t elen   = L;
	bool   efinal = true;
	if (L > ws->fragsize && ws->fragsize > 0) {
		elen   = ws->fragsize;
		efinal = ws->isstream;
	}
	int rv = ws_frame_prep_tx(ws, f);
	CHECK(rv == 0, "frame prepared");
	CHECK(f->len == elen, "payload length is the data length limited by the fragment size");
	CHECK(f->final == efinal, "FIN: whole remainder fits, or stream mode sends one frame per write");
	int eop = cnt == 0 ? (ws->send_text ? WS_TEXT : WS_BINARY) : WS_CONT;
	CHECK((int) f->op == eop, "first frame of a message is TEXT/BINARY, later ones CONTINUATION");
	CHECK(f->head[0] == (u8) (eop | (efinal ? 0x80 : 0)), "first header byte: FIN, no RSV bits, opcode");
	size_t ehl;
	u8     mbit = ws->server ? 0 : 0x80;
	if (elen < 126) {
		CHECK(f->head[1] == (u8) (mbit | elen), "7-bit length form for payloads below 126");
		ehl = 2;
		WITNESS("short frame");
	} else if (elen < 65536) {
		CHECK(f->head[1] == (u8) (mbit | 126) && f->head[2] == (u8) (elen >> 8) && f->head[3] == (u8) elen, "16-bit big-endian length form for 126..65535");
		ehl = 4;
		WITNESS("medium frame");
	} else {
		CHECK(f->head[1] == (u8) (mbit | 127), "64-bit length form from 65536");
		for (int i = 0; i < 8; i++)
			CHECK(f->head[2 + i] == (u8) ((u64) elen >> (56 - 8 * i)), "64-bit length is big endian");
		ehl = 10;
		WITNESS("long frame");
	}
#if PREPTX == 1
	CHECK(f->hlen == ehl && !f->masked, "server frames are not masked");
	CHECK(h_copied == elen, "exactly the payload is copied into the frame");
#else
	CHECK(f->hlen == ehl + 4 && f->masked, "client frames are masked");
	for (int i = 0; i < 4; i++) {
		CHECK(f->head[ehl + i] == f->mask[i], "mask key follows the length");
		CHECK(f->mask[i] == (u8) (env_random_value >> (24 - 8 * i)), "mask key is the random value");
	}
	for (size_t i = 0; i < TXLEN; i++)
		if (i < elen)
			CHECK(f->buf[i] == (u8) (data[i] ^ f->mask[i % 4]), "payload is the data XOR the mask key, in order across the iov boundary");
#endif
	WITNESS("end");
}
#elif defined(LATERECV)
/* C01 / C16 (ii): fragments arrive while nobody is receiving and are parked; the receiver comes later
 * (ws_str_recv -> ws_read_finish), possibly in the middle of the message.  NPARKED fragments (2 symbolic
 * bytes each) are queued; COMPLETE says whether the last of them had FIN.  An incomplete message must never
 * be handed up: the receive stays pending until the final fragment has arrived, and then gets the
 * concatenation of all fragments in order. */
#include "env_msg.h"
#ifndef NPARKED
#define NPARKED 1
#endif
#ifndef COMPLETE
#define COMPLETE 0
#endif
void
harness(void)
{
	nni_ws *ws = NULL;
	nni_aio ua;
	u8      pay[4][2];
	CHECK(ws_init(&ws) == 0 && ws != NULL, "ws_init");
	ws->server   = SERVER;
	ws->ready    = true;
	ws->isstream = false;
	for (int i = 0; i < NPARKED; i++) {
		ws_frame *f = NNI_ALLOC_STRUCT(f);
		pay[i][0] = ND(u8), pay[i][1] = ND(u8);
		f->sdata[0] = pay[i][0], f->sdata[1] = pay[i][1];
		f->buf   = f->sdata;
		f->len   = 2;
		f->final = COMPLETE && (i == NPARKED - 1);
		f->op    = i == 0 ? WS_BINARY : WS_CONT;
		nni_list_append(&ws->rxq, f);
	}
	ws->inmsg = !COMPLETE;
	nni_aio_init(&ua, NULL, NULL);
	nni_aio_set_timeout(&ua, NNG_DURATION_INFINITE);
	env_aio_submit(&ua);
	ws_str_recv(ws, &ua);
#if COMPLETE
	CHECK(env_aio_completed(&ua) == 1 && nni_aio_result(&ua) == 0, "a complete parked message is delivered as soon as a receiver arrives");
	int total = NPARKED;
	WITNESS("delivered on arrival of the receiver");
#else
	CHECK(env_aio_completed(&ua) == 0, "a receiver that arrives in the middle of a fragmented message waits: no partial message is delivered");
	{
		int       n = 0;
		ws_frame *qf;
		NNI_LIST_FOREACH (&ws->rxq, qf) {
			n++;
		}
		CHECK(n == NPARKED, "the parked fragments stay queued");
	}
	CHECK(ws->rxframe != NULL && rd_calls >= 1, "the next frame is being read");
#ifdef CTRL
	/* a control frame (CTRL 1: PING, 2: PONG; CLEN payload bytes, always FIN) arrives between two fragments (RFC 6455 5.4
	 * allows it): it is answered / ignored and changes nothing about the message being reassembled */
	{
		ws_frame *cf = ws->rxframe;
		usz       cl = CLEN; /* concrete (R3: a symbolic length makes the PONG's buffer an object of symbolic size) */
		cf->sdata[0] = ND(u8), cf->sdata[1] = ND(u8);
		cf->buf   = cf->sdata;
		cf->len   = cl;
		cf->op    = CTRL == 1 ? WS_PING : WS_PONG;
		cf->final = true;
		int wr0   = wr_calls;
		nni_mtx_lock(&ws->mtx);
		ws_read_frame_cb(ws, cf);
		ws_start_read(ws); /* as ws_read_cb does */
		nni_mtx_unlock(&ws->mtx);
		CHECK(env_aio_completed(&ua) == 0, "C16: a control frame in the middle of a fragmented message delivers nothing");
		CHECK(ws->inmsg && !ws->closed, "C16: the message is still in progress and the connection is kept");
		int n2 = 0;
		ws_frame *qf2;
		NNI_LIST_FOREACH (&ws->rxq, qf2) {
			n2++;
		}
		CHECK(n2 == NPARKED, "C16: the fragments received so far stay queued");
#if CTRL == 1
		CHECK(wr_calls == wr0 + 1 || !nni_list_empty(&ws->txq), "a PING is answered with a PONG");
#endif
		CHECK(ws->rxframe != NULL, "the next frame is being read");
		WITNESS("control frame between fragments");
	}
#endif
	/* the final fragment arrives (its header has been decoded and its payload read: stage 3 hands it to ws_read_frame_cb) */
	ws_frame *lf = ws->rxframe;
	pay[NPARKED][0] = ND(u8), pay[NPARKED][1] = ND(u8);
	lf->sdata[0] = pay[NPARKED][0], lf->sdata[1] = pay[NPARKED][1];
	lf->buf   = lf->sdata;
	lf->len   = 2;
	lf->op    = WS_CONT;
	lf->final = true;
	nni_mtx_lock(&ws->mtx);
	ws_read_frame_cb(ws, lf);
	nni_mtx_unlock(&ws->mtx);
	CHECK(env_aio_completed(&ua) == 1 && nni_aio_result(&ua) == 0, "the message is delivered when its final fragment arrives");
	int total = NPARKED + 1;
	WITNESS("delivered after the final fragment");
#endif
	nni_msg *m = nni_aio_get_msg(&ua);
	CHECK(m != NULL && nni_msg_len(m) == (size_t) 2 * total, "the delivered message has the total length of all its fragments");
	size_t j = ND(usz);
	ASSUME(j < (size_t) 2 * total);
	CHECK(((u8 *) nni_msg_body(m))[j] == pay[j / 2][j % 2], "the delivered message is the concatenation of the fragments in order");
	CHECK(nni_list_empty(&ws->rxq) && !ws->inmsg, "the fragments are consumed");
	CHECK(env_locks_held == 0, "no lock held");
	WITNESS("end");
}
#elif defined(FINISH)
/* C16 (ii) reassembly + C20: NF data frames (payloads symbolic, 2 bytes each)
 * are queued, a receiver waits: the delivered message is their concatenation;
 * with the message allocation failing (FAILMSG) the receive fails cleanly with
 * NNG_ENOMEM and no lock is re-entered. */
#include "env_msg.h"
void
harness(void)
{
	nni_ws *ws = NULL;
	nni_aio ua;
	u8      pay[3][2];
	CHECK(ws_init(&ws) == 0 && ws != NULL, "ws_init");
	ws->server = SERVER;
	ws->ready  = true;
	for (int i = 0; i < NF; i++) {
		ws_frame *f = NNI_ALLOC_STRUCT(f);
		pay[i][0] = ND(u8), pay[i][1] = ND(u8);
		f->sdata[0] = pay[i][0], f->sdata[1] = pay[i][1];
		f->buf   = f->sdata;
		f->len   = 2;
		f->final = (i == NF - 1);
		f->op    = i == 0 ? WS_BINARY : WS_CONT;
		nni_list_append(&ws->rxq, f);
	}
	nni_aio_init(&ua, NULL, NULL);
	env_aio_submit(&ua);
	nni_aio_list_append(&ws->recvq, &ua);
#ifdef FAILMSG
	env_msg_fail_at = env_msg_allocs;
#endif
	nni_mtx_lock(&ws->mtx); /* as ws_read_cb holds it */
	ws_read_finish(ws);
	nni_mtx_unlock(&ws->mtx);
#ifdef FAILMSG
	CHECK(env_aio_completed(&ua) == 1 && nni_aio_result(&ua) == NNG_ENOMEM, "C20: a failed message allocation fails the receive with NNG_ENOMEM");
	CHECK(ws->closed, "and closes the connection (documented best-effort loss of one connection)");
	WITNESS("allocation failure handled");
#else
	CHECK(env_aio_completed(&ua) == 1 && nni_aio_result(&ua) == 0, "a complete message is delivered to the waiting receiver");
	nni_msg *m = nni_aio_get_msg(&ua);
	CHECK(m != NULL && nni_msg_len(m) == 2 * NF, "the delivered message has the total length of its fragments");
	size_t j = ND(usz);
	ASSUME(j < 2 * NF);
	CHECK(((u8 *) nni_msg_body(m))[j] == pay[j / 2][j % 2], "the delivered message is the concatenation of the fragments in order");
	CHECK(nni_list_empty(&ws->rxq), "the fragments are consumed");
	WITNESS("reassembled");
#endif
	CHECK(env_locks_held == 0, "no lock held");
	WITNESS("end");
}
#else
void
harness(void)
{
	nni_ws   *ws = NULL;
	ws_frame *frame;
	CHECK(ws_init(&ws) == 0 && ws != NULL, "ws_init");
	ws->server    = SERVER;
	ws->ready     = true;
	ws->isstream  = false;
	ws->maxframe  = ND(usz);
	ws->recvmax   = ND(usz);
	ws->inmsg     = ND(vbool);
	ws->recv_text = ND(vbool);
#ifdef NPARK
	/* NPARK fragments (PLEN payload bytes each) of the message being reassembled are already queued:
	 * the size rule is about the whole message, not the frame alone */
	for (int i = 0; i < NPARK; i++) {
		ws_frame *pf = NNI_ALLOC_STRUCT(pf);
		pf->len      = PLEN;
		pf->hlen     = 2 + (SERVER ? 4 : 0);
		pf->buf      = pf->sdata;
		pf->op       = i == 0 ? WS_BINARY : WS_CONT;
		pf->final    = false;
		nni_list_append(&ws->rxq, pf);
	}
	ws->inmsg = true;
#define PARKED ((u64) NPARK * PLEN)
#else
#define NPARK 0
#define PARKED ((u64) 0)
#endif
	bool inmsg0   = ws->inmsg;
	frame         = NNI_ALLOC_STRUCT(frame);
	ws->rxframe   = frame;
	ND_BYTES(frame->head, 14);
	/* shape bits */
	frame->head[0] = (u8) ((frame->head[0] & 0x80) | (OP & 0x7f));
	u8  head0 = frame->head[0];
	u8 l7 = frame->head[1] & 0x7f;
#if LCLASS == 0
	ASSUME(l7 < 126);
#elif LCLASS == 1
	ASSUME(l7 == 126);
#else
	ASSUME(l7 == 127);
#endif
	frame->head[1] = (u8) ((MASKED ? 0x80 : 0) | l7);
	env_alloc_limit = 125; /* larger payload buffers: the request is observed, then refused */

	ws->rxaio.a_result = 0;
	size_t ehlen = 2 + (MASKED ? 4 : 0) + (LCLASS == 1 ? 2 : LCLASS == 2 ? 8 : 0);
#ifdef STAGE1
	/* ---------- stage 1: two bytes have arrived ---------- */
	ws_read_cb(ws);
	CHECK(frame->hlen == ehlen, "header length follows from mask bit and length form");
	CHECK(frame->op == (OP & 0x7f) && frame->final == ((head0 & 0x80) != 0) && frame->masked == (MASKED != 0), "FIN, opcode and mask bit decoded");
#if MASKED || LCLASS
	CHECK(rd_calls == 1 && rd_iov.iov_buf == frame->head + 2 && rd_iov.iov_len == ehlen - 2,
	    "rest of the header is requested right behind the first two bytes");
	CHECK(ws->closed == false, "no verdict before the header is complete");
	CHECK(env_locks_held == 0, "ws lock released");
	WITNESS("end");
	return;
#endif
#else
	/* state exactly as stage 1 leaves it (checked by the STAGE1 queries) */
	frame->hlen   = ehlen;
	frame->op     = (OP & 0x7f);
	frame->final  = (head0 & 0x80) ? 1 : 0;
	frame->masked = MASKED ? 1 : 0;
#if MASKED || LCLASS
	rd_calls = 1;
#endif
	/* ---------- stage 2: the full header has arrived ---------- */
	ws_read_cb(ws);
#endif
	/* reference decode */
	u64 len;
	if (LCLASS == 0)
		len = l7;
	else if (LCLASS == 1)
		len = ((u64) frame->head[2] << 8) | frame->head[3];
	else {
		len = 0;
		for (int i = 0; i < 8; i++)
			len = (len << 8) | frame->head[2 + i];
	}
	int minimal = (LCLASS == 0) || (LCLASS == 1 && len >= 126) || (LCLASS == 2 && len >= 65536);
	int size_ok = (ws->maxframe == 0 || len <= ws->maxframe) && (ws->recvmax == 0 || (len <= ws->recvmax && len + PARKED <= ws->recvmax));
	int nq      = 0;
	{
		ws_frame *qf;
		NNI_LIST_FOREACH (&ws->rxq, qf) {
			nq++;
		}
	}
	int mask_ok = (MASKED != 0) == (SERVER != 0);
	int hdr_rd  = (MASKED || LCLASS) ? 1 : 0;
	if (!minimal || !size_ok || !mask_ok) {
		CHECK(ws->closed, "a frame that breaks the framing rules fails the connection");
		CHECK(close_code(ws) == (!minimal ? WS_CLOSE_PROTOCOL_ERR : !size_ok ? WS_CLOSE_TOO_BIG : WS_CLOSE_PROTOCOL_ERR),
		    "close status: 1002 for non-minimal length or wrong masking, 1009 for size");
		CHECK(rd_calls == hdr_rd, "no payload is requested for a refused frame");
		CHECK(env_alloc_last_refused == 0, "no payload buffer is allocated for a refused frame");
		CHECK(nq == NPARK, "nothing is queued for delivery");
#if LCLASS
		if (!minimal)
			WITNESS("non-minimal length refused");
#endif
		if (minimal && !size_ok)
			WITNESS("oversize refused");
#if (MASKED != 0) != (SERVER != 0)
		if (minimal && size_ok && !mask_ok)
			WITNESS("wrong masking refused");
#endif
	} else if (len > 0) {
		CHECK(!ws->closed || len > 125, "acceptable header: connection stays up");
		if (len <= 125) {
			CHECK(rd_calls == hdr_rd + 1 && rd_iov.iov_len == len && rd_iov.iov_buf == frame->sdata,
			    "payload of exactly the announced length is requested into the frame");
#if LCLASS == 0 && ((MASKED != 0) == (SERVER != 0))
			WITNESS("short payload requested");
#endif
		} else {
			CHECK(env_alloc_last_refused == len, "payload buffer of exactly the announced length is allocated");
#if LCLASS != 0 && ((MASKED != 0) == (SERVER != 0))
			WITNESS("long payload allocation");
#endif
		}
	} else {
		/* empty frame: stage 3 runs at once (opcode rules) */
		u8  op    = head0 & 0x7f;
		int final = (head0 & 0x80) != 0;
		int ok;
		switch (op) {
		case WS_CONT:
			ok = inmsg0;
			break;
		case WS_TEXT:
			ok = ws->recv_text && !inmsg0;
			break;
		case WS_BINARY:
			ok = !inmsg0;
			break;
		case WS_PING:
		case WS_PONG:
			ok = 1;
			break;
		case WS_CLOSE:
			ok = -1;
			break;
		default:
			ok = 0; /* reserved opcode or RSV bit */
			break;
		}
		if (ok == 0) {
			CHECK(ws->closed, "reserved opcode / RSV bit / continuation without start / start inside a message fails the connection");
			CHECK(nq == NPARK, "refused frame is not queued");
#if LCLASS == 0 && ((MASKED != 0) == (SERVER != 0)) && (OP != 1 && OP != 2 && OP != 8 && OP != 9 && OP != 10)
			WITNESS("opcode refused");
#endif
		} else if (ok == 1) {
			CHECK(!ws->closed, "valid empty frame keeps the connection");
			if (op == WS_CONT || op == WS_TEXT || op == WS_BINARY) {
				CHECK(nni_list_last(&ws->rxq) == frame && nq == NPARK + 1, "data frame queued for reassembly behind the earlier fragments");
				CHECK(ws->inmsg == !final, "message continues until a FIN frame");
#if LCLASS == 0 && ((MASKED != 0) == (SERVER != 0))
				WITNESS("data frame accepted");
#endif
			}
			if (op == WS_PING) {
				CHECK(ws->txframe != NULL && ws->txframe->op == WS_PONG, "PING is answered with PONG");
#if LCLASS == 0 && ((MASKED != 0) == (SERVER != 0))
				WITNESS("ping answered");
#endif
			}
		} else {
			CHECK(ws->closed, "CLOSE frame closes");
#if LCLASS == 0 && ((MASKED != 0) == (SERVER != 0))
			WITNESS("close frame");
#endif
		}
	}
	CHECK(env_locks_held == 0, "ws lock released");
	WITNESS("end");
}
#endif

/* C16 (vi): base64 codec (real base64.c): decode(encode(x)) == x for every
 * byte string of N bytes, encoder output is exactly the RFC 4648 alphabet with
 * '=' padding to a multiple of 4 and respects the output bound; the decoder
 * never writes beyond out_len and stops at bytes outside the alphabet. */
#include "vh.h"
#include "supplemental/websocket/base64.c"
#ifndef N
#define N 4
#endif
#define ELEN (4 * ((N + 2) / 3))
static int
alpha(char c)
{
	return (c >= 'A' && c <= 'Z') || (c >= 'a' && c <= 'z') || (c >= '0' && c <= '9') || c == '+' || c == '/';
}
void
harness(void)
{
#if MODE == 1
	u8     in[N + 1], back[N + 2];
	char   enc[ELEN + 2];
	size_t olen = ND(usz);
	ND_BYTES(in, N);
	ASSUME(olen <= ELEN + 1);
	size_t n = nni_base64_encode(in, N, enc, olen);
	if (olen < ELEN + 1) {
		CHECK(n == (size_t) -1, "encoder refuses an output buffer that cannot hold text + NUL");
		WITNESS("encode too small");
	} else {
		CHECK(n == ELEN, "encoded length is 4*ceil(n/3)");
		CHECK(enc[ELEN] == '\0', "encoder NUL-terminates");
		size_t k = ND(usz);
		ASSUME(k < ELEN);
		CHECK(alpha(enc[k]) || (enc[k] == '=' && k >= ELEN - 2 && k >= (4 * N + 2) / 3), "encoder emits only the base64 alphabet and trailing padding");
		size_t m = nni_base64_decode(enc, n, back, N + 1);
		CHECK(m == N, "decode(encode(x)) has the original length");
		size_t j = ND(usz);
#if N > 0
		ASSUME(j < N);
		CHECK(back[j] == in[j], "decode(encode(x)) == x");
#endif
#if N > 0
		WITNESS("round trip");
#endif
	}
#else
	/* decoder on arbitrary text: bounded output, stops at the first byte
	 * outside the alphabet (white space skipped) */
	char   txt[N + 1];
	u8     out[N + 1];
	size_t olen = ND(usz);
	ND_BYTES(txt, N);
	ASSUME(olen <= N);
	u8 canary = ND(u8);
	out[olen]  = canary;
	size_t m = nni_base64_decode(txt, N, out, olen);
	CHECK(m == (size_t) -1 || m <= olen, "decoder never reports more than the output size");
	CHECK(out[olen] == canary, "decoder never writes beyond the output size");
	if (m != (size_t) -1)
		WITNESS("decoded");
#endif
	WITNESS("end");
}

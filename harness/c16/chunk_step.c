/* C16 (iv): the chunk decoder as a state machine (real http_chunk.c).
 * MODE 1: one character from an arbitrary non-DATA decoder state (state, size
 *         so far, line counter, total, maximum all symbolic) against the
 *         RFC 7230 chunked-body grammar; size arithmetic exact, overflow and
 *         maximum refused before allocation.
 * MODE 2: one call in DATA state with a chunk of SZ bytes, symbolic residual
 *         and n offered bytes: copies exactly min(n, resid) bytes to the right
 *         offset, finishes iff the chunk and its CR LF are complete.
 * MODE 3: two characters in one call == the same two in two calls (the parse
 *         loop carries no state between characters): with MODE 1 and 2 this
 *         gives independence from segmentation for streams of any length.
 */
#include "vh.h"
#include "supplemental/http/http_chunk.c"
extern int env_alloc_count, env_alloc_small_only;

static void
mk(nni_http_chunks *cl, int st, size_t size, size_t line, size_t total, size_t maxsz)
{
	memset(cl, 0, sizeof(*cl));
	NNI_LIST_INIT(&cl->cl_chunks, nni_http_chunk, c_node);
	cl->cl_state = st;
	cl->cl_size  = size;
	cl->cl_line  = line;
	cl->cl_total = total;
	cl->cl_maxsz = maxsz;
}
static int
hexd(u8 c)
{
	if (c >= '0' && c <= '9')
		return c - '0';
	if (c >= 'a' && c <= 'f')
		return c - 'a' + 10;
	if (c >= 'A' && c <= 'F')
		return c - 'A' + 10;
	return -1;
}
static int
printable(u8 c)
{
	return c >= 0x20 && c <= 0x7e;
}

#if MODE == 1
void
harness(void)
{
	nni_http_chunks cl;
	int             st    = ST; /* decoder state: concrete per query (a symbolic state makes symex walk the DATA path with no chunk) */
	size_t          size  = ND(usz), line = ND(usz), total = ND(usz), maxsz = ND(usz);
	u8              c     = ND(u8);
	size_t          used  = 99;
	env_alloc_small_only  = 1;
	ASSUME(st != CS_INIT || (size == 0)); /* INIT is entered with a cleared size */
	ASSUME(maxsz >= 1 && maxsz <= 8);     /* keeps accepted allocations small */
	ASSUME(total <= maxsz);
	mk(&cl, st, size, line, total, maxsz);
	int     a0 = env_alloc_count;
	nng_err rv = nni_http_chunks_parse(&cl, &c, 1, &used);
	/* reference transition */
	int    est = st, err = 0;
	size_t esz = size, eline = line, etot = total;
	int    alloc = 0;
	switch (st) {
	case CS_INIT:
	case CS_LEN:
		if (hexd(c) >= 0) {
			unsigned __int128 v = (unsigned __int128) size * 16 + (unsigned) hexd(c);
			if (v > (unsigned __int128) SIZE_MAX)
				err = NNG_EMSGSIZE;
			else {
				esz = (size_t) v;
				est = CS_LEN;
			}
		} else if (c == ';' && st == CS_LEN)
			est = CS_EXT;
		else if (c == '\r' && st == CS_LEN)
			est = CS_CR;
		else
			err = NNG_EPROTO;
		break;
	case CS_EXT:
		if (c == '\r')
			est = CS_CR;
		else if (!printable(c))
			err = NNG_EPROTO;
		break;
	case CS_CR:
		if (c != '\n')
			err = NNG_EPROTO;
		else if (size == 0) {
			est   = CS_TRLR;
			eline = 0;
		} else if (size > SIZE_MAX - 2 || size > SIZE_MAX - total || size > maxsz - total)
			err = NNG_EMSGSIZE;
		else {
			est   = CS_DATA;
			etot  = total + size;
			alloc = 1;
		}
		break;
	case CS_TRLR:
		if (c == '\r')
			est = CS_TRLRCR;
		else if (!printable(c))
			err = NNG_EPROTO;
		else
			eline = line + 1;
		break;
	case CS_TRLRCR:
		if (c != '\n')
			err = NNG_EPROTO;
		else if (line == 0)
			est = CS_DONE;
		else {
			est   = CS_TRLR;
			eline = 0;
		}
		break;
	}
	if (err) {
		CHECK(rv == (nng_err) err, "malformed or oversized input is refused with the right code");
		CHECK(used == 0, "the offending character is not consumed");
		CHECK(env_alloc_count == a0, "nothing is allocated when refusing");
		CHECK(cl.cl_total == total, "total unchanged when refusing");
#if ST == 3
		if (err == NNG_EMSGSIZE)
			WITNESS("chunk above maximum refused");
#endif
#if ST == 1
		if (err == NNG_EMSGSIZE)
			WITNESS("size overflow refused");
#endif
		if (err == NNG_EPROTO)
			WITNESS("protocol error");
	} else {
		CHECK(rv == (est == CS_DONE ? NNG_OK : NNG_EAGAIN), "accepted character: OK at the end of the body, else EAGAIN");
		CHECK(used == 1, "accepted character is consumed");
		CHECK((int) cl.cl_state == est, "next state follows the chunked-body grammar");
		CHECK(cl.cl_total == etot, "total is the sum of accepted chunk sizes");
		if (est == CS_LEN)
			CHECK(cl.cl_size == esz, "size accumulates hexadecimal digits exactly");
		if (est == CS_TRLR || est == CS_TRLRCR)
			CHECK(cl.cl_line == eline, "trailer line counter");
		if (alloc) {
			nni_http_chunk *ch = nni_list_last(&cl.cl_chunks);
			CHECK(ch != NULL && ch->c_size == size && ch->c_alloc == size + 2 && ch->c_resid == size + 2,
			    "accepted chunk: buffer for size + CR LF, nothing received yet");
			CHECK(env_alloc_count == a0 + 2, "accepted chunk allocates header and data");
#if ST == 3
			WITNESS("chunk accepted");
#endif
		} else {
			CHECK(env_alloc_count == a0, "no allocation outside chunk acceptance");
		}
#if ST == 6
		if (est == CS_DONE)
			WITNESS("body complete");
#endif
	}
	WITNESS("end");
}
#elif MODE == 2
#ifndef SZ
#define SZ 2
#endif
#define NMAX 6
void
harness(void)
{
	nni_http_chunks cl;
	nni_http_chunk  ch;
	char            data[SZ + 2], old[SZ + 2], in[NMAX];
	size_t          resid = ND(usz), n = ND(usz), used = 99;
	ASSUME(resid >= 1 && resid <= SZ + 2);
	ASSUME(n >= 1 && n <= NMAX);
	mk(&cl, CS_DATA, SZ, 0, SZ, 0);
	memset(&ch, 0, sizeof(ch));
	ND_BYTES(data, SZ + 2);
	ND_BYTES(in, NMAX);
	for (int i = 0; i < SZ + 2; i++)
		old[i] = data[i];
	ch.c_size  = SZ;
	ch.c_alloc = SZ + 2;
	ch.c_resid = resid;
	ch.c_data  = data;
	nni_list_append(&cl.cl_chunks, &ch);
	nng_err rv   = chunk_ingest_data(&cl, in, n, &used);
	if (rv == NNG_OK && n < resid)
		rv = NNG_EAGAIN; /* what the parse loop reports when input ran out */
	size_t  off  = SZ + 2 - resid;
	size_t  take = n < resid ? n : resid;
	size_t  j    = ND(usz);
	ASSUME(j < SZ + 2);
	if (j < off)
		CHECK(data[j] == old[j], "bytes already received are untouched");
	else if (j < off + take)
		CHECK(data[j] == in[j - off], "new bytes land at the next free offset, in order");
	else
		CHECK(data[j] == old[j], "bytes beyond the transfer are untouched");
	if (n < resid) {
		CHECK(rv == NNG_EAGAIN && used == n, "partial data: everything consumed, more needed");
		CHECK(ch.c_resid == resid - n && cl.cl_state == CS_DATA, "residual shrinks by the bytes taken");
		WITNESS("partial data");
	} else {
		int crlf = data[SZ] == '\r' && data[SZ + 1] == '\n';
		if (!crlf) {
			CHECK(rv == NNG_EPROTO, "chunk data not followed by CR LF is refused");
			WITNESS("bad chunk terminator");
		} else {
			CHECK(ch.c_resid == 0, "chunk complete");
			CHECK(rv == NNG_OK && used == resid, "exactly the rest of the chunk is consumed");
			CHECK(cl.cl_size == 0 && cl.cl_state == CS_INIT, "decoder ready for the next size line");
			WITNESS("chunk complete");
		}
	}
	WITNESS("end");
}
#elif MODE == 4
/* end to end over a concrete stream shape "2;x CRLF d d CRLF 1 CRLF d CRLF 0 CRLF t: v CRLF CRLF"
 * with symbolic data / extension / trailer bytes, cut at the concrete point K
 * (driver sweeps every K): the result equals the unsplit run. */
#define TPL_LEN 25
extern int env_alloc_live;
static void
fill(char *b)
{
	const char *t = "2;x\r\nDD\r\n1\r\nD\r\n0\r\nt:v\r\n\r\n";
	for (int i = 0; i < TPL_LEN; i++)
		b[i] = t[i];
}
void
harness(void)
{
	char             b[TPL_LEN], b2[TPL_LEN];
	nni_http_chunks *a = NULL, *s = NULL;
	size_t           ua = 0, u1 = 0, u2 = 0;
	fill(b);
	b[5]  = (char) ND(u8);
	b[6]  = (char) ND(u8);
	b[12] = (char) ND(u8);
	/* only the chunk data is symbolic: a symbolic framing byte makes the decoder
	 * state (and with it the heap shape) symbolic; framing bytes are covered
	 * for every value by MODE 1 */
	for (int i = 0; i < TPL_LEN; i++)
		b2[i] = b[i];
	CHECK(nni_http_chunks_init(&a, 0) == 0 && nni_http_chunks_init(&s, 0) == 0, "init");
	nng_err ra = nni_http_chunks_parse(a, b, TPL_LEN, &ua);
	nng_err rs = nni_http_chunks_parse(s, b2, K, &u1);
	if (rs == NNG_EAGAIN) {
		CHECK(u1 == K, "EAGAIN: all offered bytes consumed");
		rs = nni_http_chunks_parse(s, b2 + K, TPL_LEN - K, &u2);
	}
	CHECK(ra == NNG_OK && ua == TPL_LEN, "well-formed chunked body is accepted completely");
	CHECK(rs == ra && u1 + u2 == ua, "same result and consumption for this cut");
	CHECK(nni_http_chunks_size(a) == 3 && nni_http_chunks_size(s) == 3, "total size is the sum of the chunk sizes");
	nni_http_chunk *ca = nni_http_chunks_iter(a, NULL), *cs = nni_http_chunks_iter(s, NULL);
	CHECK(ca && cs && nni_http_chunk_size(ca) == 2 && nni_http_chunk_size(cs) == 2, "first chunk has 2 bytes");
	CHECK(((char *) nni_http_chunk_data(cs))[0] == b[5] && ((char *) nni_http_chunk_data(cs))[1] == b[6], "first chunk data exact");
	ca = nni_http_chunks_iter(a, ca);
	cs = nni_http_chunks_iter(s, cs);
	CHECK(ca && cs && nni_http_chunk_size(cs) == 1 && ((char *) nni_http_chunk_data(cs))[0] == b[12], "second chunk exact");
	CHECK(nni_http_chunks_iter(s, cs) == NULL && nni_http_chunks_iter(a, ca) == NULL, "exactly two chunks");
	nni_http_chunks_free(a);
	nni_http_chunks_free(s);
	CHECK(env_alloc_live == 0, "decoder returns all memory");
	WITNESS("end");
}
#endif

/* C16 (iii): ws_apply_mask equals the byte-wise RFC 6455 definition
 * out[i] = in[i] ^ mask[i % 4] for every length LEN and every alignment OFF
 * (covers the 16/8/4-byte strides), and is an involution. */
#include "env_aio.h"
#include "env_printf.h"
#include "supplemental/websocket/websocket.c"
#ifndef LEN
#define LEN 21
#endif
#ifndef OFF
#define OFF 1
#endif
void
harness(void)
{
	u8 store[LEN + OFF + 17], orig[LEN + 1], mask[4];
	ND_BYTES(mask, 4);
	for (int i = 0; i < LEN; i++) {
		orig[i]           = ND(u8);
		store[OFF + i]    = orig[i];
	}
	u8 before = ND(u8), after = ND(u8);
	store[OFF + LEN] = after;
#if OFF > 0
	store[OFF - 1] = before;
#endif
	ws_apply_mask(store + OFF, LEN, mask);
	size_t k = ND(usz);
#if LEN > 0
	ASSUME(k < LEN);
	CHECK(store[OFF + k] == (u8) (orig[k] ^ mask[k % 4]), "masking equals the byte-wise definition");
#endif
	CHECK(store[OFF + LEN] == after, "no byte after the payload is touched");
#if OFF > 0
	CHECK(store[OFF - 1] == before, "no byte before the payload is touched");
#endif
	ws_apply_mask(store + OFF, LEN, mask);
#if LEN > 0
	CHECK(store[OFF + k] == orig[k], "masking twice restores the payload");
#endif
	(void) before;
	WITNESS("end");
}

/* C16 / C11: the per-connection request loop of the real supplemental/http/http_server.c (http_sconn_rxdone,
 * http_sconn_error, http_sconn_txdone, http_sconn_cbdone), the layer websocket listeners and nng_http handlers sit on.
 * The HTTP connection (parser, buffers) is a table of the fields the loop looks at; the harness plays the reads and writes.
 *
 * One request arrives for a handler that collects the entity body up to MAXBODY bytes (nng_http_handler_collect_body);
 * Content-Length is CL (absent if CL < 0), both symbolic within small ranges, method / uri / version / Host good or bad
 * (chosen by the solver).  Decided:
 *   - a request whose announced body exceeds the handler's limit is answered with 413 and its handler is NOT called;
 *     a request that cannot be routed / is malformed gets its 4xx / 5xx status; a good one reaches the handler once,
 *     after exactly CL body bytes were read into a buffer of exactly that size;
 *   - FRAMING: after ANY response on a connection that stays open, the bytes of a body that was announced but not read
 *     are skipped - exactly that many - before the next request head is parsed: bytes of a refused body are never
 *     interpreted as a request (the same stream must decode to the same requests however the server reacted);
 *   - an error that makes the connection non-persistent closes it after the response instead.
 */
#include "vh.h"
#include "env_aio.h"
#include "env_printf.h"
#include "supplemental/http/http_server.c"
extern int env_locks_held, env_alloc_live;
extern int env_run_callbacks(void);

#ifndef MAXBODY
#define MAXBODY 4
#endif
/* ---- the HTTP connection as the server loop sees it ---- */
static struct nng_http_req the_req;
static int                 status_now;
static const char         *f_version, *f_uri, *f_method, *f_host, *f_clen, *f_conn, *f_tenc;
static int                 reads_req, reads_full, discards, writes, conn_closed, errors_set;
static size_t              discard_n, full_n;
nni_http_req *
nni_http_conn_req(nni_http_conn *c)
{
	(void) c;
	return &the_req;
}
nni_http_res *
nni_http_conn_res(nni_http_conn *c)
{
	(void) c;
	return NULL;
}
void
nni_http_res_reset(nni_http_res *r)
{
	(void) r;
}
nng_http_status
nng_http_get_status(nng_http *c)
{
	(void) c;
	return (nng_http_status) status_now;
}
nng_http_status
nni_http_get_status(nng_http *c)
{
	(void) c;
	return (nng_http_status) status_now;
}
void
nng_http_set_status(nng_http *c, nng_http_status s, const char *r)
{
	(void) c, (void) r;
	status_now = s;
}
void
nni_http_set_status(nng_http *c, nng_http_status s, const char *r)
{
	(void) c, (void) r;
	status_now = s;
}
const char *
nng_http_get_version(nng_http *c)
{
	(void) c;
	return f_version;
}
int
nni_http_set_version(nng_http *c, const char *v)
{
	(void) c, (void) v;
	return NNG_OK;
}
const char *
nng_http_get_uri(nng_http *c)
{
	(void) c;
	return f_uri;
}
const char *
nni_http_get_method(nng_http *c)
{
	(void) c;
	return f_method;
}
static int
streq(const char *a, const char *b)
{
	for (int i = 0; i < 24; i++) {
		if (a[i] != b[i])
			return 0;
		if (a[i] == 0)
			return 1;
	}
	return 0;
}
const char *
nni_http_get_header(nng_http *c, const char *k)
{
	(void) c;
	if (streq(k, "Connection"))
		return f_conn;
	if (streq(k, "Transfer-Encoding"))
		return f_tenc;
	if (streq(k, "Content-Length"))
		return f_clen;
	if (streq(k, "Host"))
		return f_host;
	return NULL;
}
nng_err
nni_http_set_error(nng_http *c, nng_http_status s, const char *r, const char *b)
{
	(void) c, (void) r, (void) b;
	status_now = s;
	errors_set++;
	return NNG_OK;
}
void
nni_http_set_static_header(nng_http *c, nni_http_header *h, const char *k, const char *v)
{
	(void) c, (void) h, (void) k, (void) v;
}
static unsigned char body_buf[16];
nng_err
nni_http_req_alloc_data(nni_http_req *r, size_t n)
{
	CHECK(n <= sizeof(body_buf), "C16: no body buffer larger than the handler's limit is ever requested");
	r->data.data = body_buf;
	r->data.size = n;
	return NNG_OK;
}
void
nni_http_read_req(nni_http_conn *c, nng_aio *aio)
{
	(void) c, (void) aio;
	reads_req++;
}
void
nni_http_read_full(nni_http_conn *c, nng_aio *aio)
{
	unsigned n;
	nni_iov *iov;
	(void) c;
	nni_aio_get_iov(aio, &n, &iov);
	full_n = n == 1 ? iov[0].iov_len : (size_t) -1;
	reads_full++;
}
void
nni_http_read_discard(nni_http_conn *c, size_t n, nng_aio *aio)
{
	(void) c, (void) aio;
	discard_n = n;
	discards++;
}
void
nni_http_write_res(nni_http_conn *c, nng_aio *aio)
{
	(void) c, (void) aio;
	writes++;
}
void
nni_http_conn_close(nni_http_conn *c)
{
	(void) c;
	conn_closed++;
}
void
nni_http_conn_fini(nni_http_conn *c)
{
	(void) c;
}
bool
nni_http_res_sent(nni_http_conn *c)
{
	(void) c;
	return false;
}
static int handler_calls;
static void
the_handler(nng_http *c, void *data, nng_aio *aio)
{
	(void) c, (void) data, (void) aio;
	handler_calls++;
}

void
harness(void)
{
	static nni_http_server  srv;
	static http_sconn       sc;
	static nni_http_handler h;
	static int              conn_obj;
	nni_mtx_init(&srv.mtx);
	nni_mtx_init(&srv.errors_mtx);
	NNI_LIST_INIT(&srv.handlers, nni_http_handler, node);
	NNI_LIST_INIT(&srv.conns, http_sconn, node);
	NNI_LIST_INIT(&srv.errors, http_error, node);
	h.uri[0] = '/', h.uri[1] = 'u', h.uri[2] = 0;
	h.method[0] = 'P', h.method[1] = 'U', h.method[2] = 'T', h.method[3] = 0;
	h.getbody = true;
	h.maxbody = MAXBODY;
	h.cb      = the_handler;
	nni_list_append(&srv.handlers, &h);
	sc.server = &srv;
	sc.conn   = (nni_http_conn *) &conn_obj;
	nni_aio_init(&sc.rxaio, NULL, NULL);
	nni_aio_init(&sc.txaio, NULL, NULL);
	nni_aio_init(&sc.cbaio, NULL, NULL);
	nni_aio_init(&sc.txdataio, NULL, NULL);
	nni_list_append(&srv.conns, &sc);

	/* ---- the request head has been parsed ---- */
	static const char *cl_txt[10] = { "0", "1", "2", "3", "4", "5", "6", "7", "8", "9" };
	int cl = ND(vint);
	ASSUME(cl >= -1 && cl <= 9);
	f_clen    = cl < 0 ? NULL : cl_txt[cl];
	int v_uri = ND(vint), v_meth = ND(vint), v_ver = ND(vint), v_host = ND(vint);
	ASSUME(v_uri >= 0 && v_uri <= 2 && v_meth >= 0 && v_meth <= 1 && v_ver >= 0 && v_ver <= 2 && v_host >= 0 && v_host <= 1);
	f_uri     = v_uri == 0 ? "/u" : v_uri == 1 ? "/other" : "u";
	f_method  = v_meth == 0 ? "PUT" : "GET";
	f_version = v_ver == 0 ? "HTTP/1.1" : v_ver == 1 ? "HTTP/1.0" : "HTTP/2";
	f_host    = v_host == 0 ? "h" : NULL;
	status_now = 0;
	size_t announced = cl < 0 ? 0 : (size_t) cl;
	sc.rxaio.a_result = 0;
	http_sconn_rxdone(&sc);

	int routed = v_uri == 0 && v_meth == 0 && v_ver != 2 && !(v_ver == 0 && v_host == 1);
	size_t unread = announced; /* body bytes announced and not consumed yet */
	if (routed && announced > MAXBODY) {
		CHECK(writes == 1 && status_now == NNG_HTTP_STATUS_CONTENT_TOO_LARGE && handler_calls == 0 && reads_full == 0,
		    "C16: a body above the handler's limit is refused with 413: not read, not delivered");
		WITNESS("413");
	} else if (routed && announced > 0) {
		CHECK(reads_full == 1 && full_n == announced && writes == 0 && handler_calls == 0, "the announced body is read in full, into a buffer of exactly that size, before the handler runs");
		sc.rxaio.a_result = 0;
		http_sconn_rxdone(&sc); /* the body has arrived */
		unread = 0;
		CHECK(handler_calls == 1, "then the handler is called, once");
		WITNESS("body collected, handler called");
	} else if (routed) {
		CHECK(handler_calls == 1 && writes == 0, "a request without a body reaches its handler at once");
		WITNESS("handler called");
	} else {
		CHECK(handler_calls == 0 && writes == 1 && status_now >= 400, "a request that cannot be routed or is not acceptable HTTP/1.x gets an error status and reaches no handler");
		WITNESS("error status");
	}
	/* ---- an error response has gone out: what happens to the rest of the stream ---- */
	if (writes == 1) {
		int rq0 = reads_req;
		sc.txaio.a_result = 0;
		http_sconn_txdone(&sc);
		if (sc.close || conn_closed) {
			CHECK(conn_closed >= 1 && reads_req == rq0 && discards == 0, "a non-persistent connection is closed after the response");
			WITNESS("closed after the error");
		} else if (unread > 0) {
			CHECK(discards == 1 && discard_n == unread && reads_req == rq0,
			    "C16: on a connection that stays open the unread body of the refused request is skipped - exactly its announced length - before anything is parsed as a request");
			WITNESS("refused body skipped");
		} else {
			CHECK(discards == 0 && reads_req == rq0 + 1, "with nothing left unread the next request head is read");
			WITNESS("next request read");
		}
	}
	CHECK(env_locks_held == 0, "no lock held");
	WITNESS("end");
}

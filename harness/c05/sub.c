/* C05 (+C03, C10, C15 monitors): SUB over the real pubsub0/sub.c, default
 * context + one extra context.
 * topics: T0 = "" , T1 = {a}, T2 = {b,c}, T3 = {d}   (a,b,c,d symbolic bytes)
 * events: A(p)  attach            U(c,t) ctx c subscribes to topic t
 *         N(c,t) unsubscribe       W(p)  a message (2 symbolic bytes) arrives
 *         R(c,i,b) ctx c receives (user aio i, b blocking)
 *         P(c,v) SUB_PREFNEW := v  B(c,n) RECVBUF := n     Z close
 */
#include "proto_kit.h"
#include "sp/protocol/pubsub0/sub.c"
#define MAXW 5
#ifdef ONECTX
#define NCTX 1
#else
#define NCTX 2
#endif
#define NTOP 4
static sub0_sock sock;
static sub0_ctx  xctx;
static sub0_pipe pd[MAXP];
static sub0_ctx *ctxs[NCTX];
static u8        tbytes[NTOP][2];
static size_t    tlen[NTOP] = { 0, 1, 2, 1 };
static int       subd[NCTX][NTOP];
static u8        wbody[MAXW][2];
static int       nw;
static int       uctx[MAXU], noted[MAXU];
static int       last_tag_delivered[NCTX];
static int       sock_closed;

static int
ref_match(int c, const u8 *body, size_t len)
{
	for (int t = 0; t < NTOP; t++) {
		if (!subd[c][t] || len < tlen[t])
			continue;
		int eq = 1;
		for (size_t k = 0; k < tlen[t]; k++)
			if (body[k] != tbytes[t][k])
				eq = 0;
		if (eq)
			return 1;
	}
	return 0;
}
static int
q_has(int c, int tag)
{
	nni_lmq *q = &ctxs[c]->lmq;
	int      n = 0;
	for (size_t k = 0; k < q->lmq_len; k++)
		if (q->lmq_msgs[(q->lmq_get + k) & q->lmq_mask]->tag == tag)
			n++;
	return n;
}
static void
check_queue(int c)
{
	nni_lmq *q    = &ctxs[c]->lmq;
	int      prev = 0;
	SCHECK(q->lmq_len <= q->lmq_cap, "receive buffer never holds more than its depth");
	for (size_t k = 0; k < q->lmq_len; k++) {
		nni_msg *m = q->lmq_msgs[(q->lmq_get + k) & q->lmq_mask];
		SCHECK(m->tag > prev, "queued messages are distinct and in arrival order");
		SCHECK(m->tag > last_tag_delivered[c], "nothing already delivered is queued again");
		prev = m->tag;
		SCHECK(nni_msg_len(m) == 2 && ((u8 *) nni_msg_body(m))[0] == wbody[m->tag - 1][0] &&
		        ((u8 *) nni_msg_body(m))[1] == wbody[m->tag - 1][1],
		    "queued message bytes are unaltered");
	}
}
static void
sweep(void)
{
	for (int i = 0; i < MAXU; i++)
		if (uaio_used[i] && KDONE(i) && KRESULT(i) == 0 && !noted[i]) {
			noted[i]   = 1;
			nni_msg *m = nni_aio_get_msg(&uaio_at(i));
			int      c = uctx[i];
			SCHECK(m != NULL && m->tag >= 1 && m->tag <= nw, "a received message is one that was published");
			SCHECK(m->tag > last_tag_delivered[c], "a context receives each message at most once and in publication order");
			last_tag_delivered[c] = m->tag;
			SCHECK(nni_msg_len(m) == 2 && ((u8 *) nni_msg_body(m))[0] == wbody[m->tag - 1][0] &&
			        ((u8 *) nni_msg_body(m))[1] == wbody[m->tag - 1][1],
			    "received message bytes are exactly the published bytes");
			SCHECK(!nni_msg_shared(m), "received message is not shared with another context");
			nni_msg_free(m);
			nni_aio_set_msg(&uaio_at(i), NULL);
		}
}
static void
monitor(void)
{
	kquiesce();
	sweep();
	for (int c = 0; c < NCTX; c++)
		check_queue(c);
	for (int i = 0; i < MAXU; i++)
		if (uaio_used[i])
			SCHECK(env_aio_completed(&uaio_at(i)) <= 1, "receive completes at most once");
	if (!sock_closed)
		CHECK(nni_atomic_get_bool(&sock.readable.p_raised) == !nni_lmq_empty(&sock.master.lmq),
		    "C15: receive poll state mirrors whether the socket's buffer holds a message");
}
static void
ev_attach(int p)
{
	KNEED(!kpipe_up[p] && !sock_closed);
	if (kstop)
		return;
	env_pipe_init(&kpipe[p], 100 + p, NNI_PROTO_PUB_V0);
	CHECK(sub0_pipe_init(&pd[p], &kpipe[p], &sock) == 0, "pipe_init");
	kpipe_up[p] = 1;
	CHECK(sub0_pipe_start(&pd[p]) == 0, "pipe_start accepts a PUB peer");
	monitor();
}
static void
ev_sub(int c, int t)
{
	KNEED(!sock_closed);
	if (kstop)
		return;
#ifdef VH_FAULTPASS
	int ntop0 = 0, ntop1 = 0;
	sub0_topic *tp;
	NNI_LIST_FOREACH (&ctxs[c]->topics, tp)
		ntop0++;
#endif
	int alloc_live0 = env_alloc_live;
	nng_err rv = sub0_ctx_subscribe(ctxs[c], tbytes[t], tlen[t]);
#ifdef VH_FAULTPASS
	SCHECK(rv == 0 || rv == NNG_ENOMEM, "C20: subscribe succeeds or reports NNG_ENOMEM");
	SCHECK((rv == NNG_ENOMEM) == (VH_FAULT_FIRED != 0), "C20: subscribe reports NNG_ENOMEM exactly when one of its allocations failed");
	if (rv == NNG_ENOMEM) {
		NNI_LIST_FOREACH (&ctxs[c]->topics, tp)
			ntop1++;
		SCHECK(ntop1 == ntop0, "C20: a subscribe that failed leaves the subscription list as it was");
		SCHECK(env_alloc_live == alloc_live0, "C20: a subscribe that failed leaks nothing");
		WITNESS("subscribe failed cleanly");
		KFAULT_ABSORBED();
		monitor();
		return;
	}
#endif
	CHECK(rv == 0, "subscribe succeeds");
	subd[c][t] = 1;
	/* a topic equal to one already present is the same subscription */
	for (int o = 0; o < NTOP; o++)
		if (o != t && tlen[o] == tlen[t] && subd[c][o]) {
			int eq = 1;
			for (size_t k = 0; k < tlen[t]; k++)
				if (tbytes[o][k] != tbytes[t][k])
					eq = 0;
			if (eq)
				subd[c][t] = 2; /* alias of o */
		}
	monitor();
}
static void
ev_unsub(int c, int t)
{
	KNEED(!sock_closed);
	if (kstop)
		return;
	int     before[MAXW + 1], had = 0;
	for (int w = 1; w <= MAXW; w++)
		before[w] = (w <= nw) ? q_has(c, w) : 0;
	/* is this byte string currently subscribed (under any name)? */
	for (int o = 0; o < NTOP; o++)
		if (subd[c][o] && tlen[o] == tlen[t]) {
			int eq = 1;
			for (size_t k = 0; k < tlen[t]; k++)
				if (tbytes[o][k] != tbytes[t][k])
					eq = 0;
			if (eq)
				had = 1;
		}
	nng_err rv = sub0_ctx_unsubscribe(ctxs[c], tbytes[t], tlen[t]);
	if (!had) {
		CHECK(rv == NNG_ENOENT, "unsubscribing a topic that is not subscribed: ENOENT");
	} else {
		CHECK(rv == 0, "unsubscribe succeeds");
		for (int o = 0; o < NTOP; o++)
			if (subd[c][o] && tlen[o] == tlen[t]) {
				int eq = 1;
				for (size_t k = 0; k < tlen[t]; k++)
					if (tbytes[o][k] != tbytes[t][k])
						eq = 0;
				if (eq)
					subd[c][o] = 0;
			}
		for (int w = 1; w <= MAXW; w++)
			if (w <= nw && before[w]) {
				int still = ref_match(c, wbody[w - 1], 2);
				CHECK(q_has(c, w) == (still ? 1 : 0),
				    "unsubscribe removes exactly the queued messages that no longer match, and keeps the others");
			}
		WITNESS("unsubscribed");
	}
	monitor();
}
/* body classes (concrete topic bytes): 0 "a?" 1 "bc" 2 "bx" 3 "d?" 4 "z?"
 * ('?' symbolic: it cannot change which topics match) */
static void
ev_wire_k(int p, int k)
{
	KNEED(kpipe_up[p] && kpipe[p].recv_aio != NULL && nw < MAXW);
	if (kstop)
		return;
	nni_msg *m = kmsg(2);
#ifndef SYMTOPICS
	{
		u8 *b = nni_msg_body(m);
		static const u8 first[5] = { 'a', 'b', 'b', 'd', 'z' };
		b[0] = first[k];
		if (k == 1)
			b[1] = 'c';
		if (k == 2)
			b[1] = 'x';
	}
#else
	(void) k;
#endif
	int      exp[NCTX], full[NCTX], pn[NCTX], waiting[NCTX], len0[NCTX], head0[NCTX];
	wbody[nw][0] = ((u8 *) nni_msg_body(m))[0];
	wbody[nw][1] = ((u8 *) nni_msg_body(m))[1];
	nw++;
	m->tag = nw;
	for (int c = 0; c < NCTX; c++) {
		exp[c]     = ref_match(c, wbody[nw - 1], 2);
		full[c]    = nni_lmq_full(&ctxs[c]->lmq);
		pn[c]      = ctxs[c]->prefer_new;
		waiting[c] = !nni_list_empty(&ctxs[c]->recv_queue);
		len0[c]    = (int) nni_lmq_len(&ctxs[c]->lmq);
		head0[c]   = len0[c] ? ctxs[c]->lmq.lmq_msgs[ctxs[c]->lmq.lmq_get]->tag : 0;
	}
	env_pipe_recv_done(&kpipe[p], m, 0);
	kquiesce();
	for (int c = 0; c < NCTX; c++) {
		int got_now = 0;
		for (int i = 0; i < MAXU; i++)
			if (uaio_used[i] && uctx[i] == c && KDONE(i) && KRESULT(i) == 0 && !noted[i] &&
			    nni_aio_get_msg(&uaio_at(i)) != NULL && nni_aio_get_msg(&uaio_at(i))->tag == nw)
				got_now = 1;
		int present = q_has(c, nw) + got_now;
		CHECK(present <= 1, "a context gets a published message at most once");
		int want = exp[c] && (waiting[c] || !full[c] || pn[c]);
		CHECK(present == want, "a context gets the message iff one of its current subscriptions is a prefix of the body (and its buffer policy admits it)");
		if (exp[c] && !waiting[c] && full[c]) {
			CHECK((int) nni_lmq_len(&ctxs[c]->lmq) == len0[c], "full buffer: exactly one message is dropped per arrival");
			if (pn[c])
				CHECK(q_has(c, head0[c]) == 0, "PREFNEW: the oldest message is the one dropped");
			else
				CHECK(q_has(c, head0[c]) == 1, "not PREFNEW: the new message is the one dropped");
			WITNESS("overflow");
		}
		if (want)
			WITNESS("delivered or queued");
		if (!exp[c])
			WITNESS("filtered out");
	}
	CHECK(kpipe[p].recv_aio != NULL, "receive is re-armed");
	monitor();
}
static void
ev_recv(int c, int i, int blocking)
{
	KNEED(!uaio_used[i] && !sock_closed);
	if (kstop)
		return;
	bool can = !nni_lmq_empty(&ctxs[c]->lmq);
	kuaio_prepare(i, blocking);
	uctx[i] = c;
	env_aio_submit(&uaio_at(i));
	sub0_ctx_recv(ctxs[c], &uaio_at(i));
	if (can)
		CHECK(KDONE(i) && KRESULT(i) == 0, "receive succeeds at once when a message is buffered");
	else if (!blocking)
		CHECK(KDONE(i) && KRESULT(i) == NNG_ETIMEDOUT, "C15: non-blocking receive on an empty buffer fails at once (EAGAIN)");
	else {
		CHECK(!KDONE(i), "blocking receive waits");
		KWAIT_POST(i, c);
	}
	monitor();
}
static void
ev_prefnew(int c, int v)
{
	bool b = v;
	KNEED(!sock_closed);
	if (kstop)
		return;
	CHECK(sub0_ctx_set_prefer_new(ctxs[c], &b, sizeof(b), NNI_TYPE_BOOL) == 0, "set PREFNEW");
	monitor();
}
static void
ev_recvbuf(int c, int n)
{
	int v = n;
	KNEED(!sock_closed);
	if (kstop)
		return;
	int len0 = (int) nni_lmq_len(&ctxs[c]->lmq);
	int tags[8];
	for (int k = 0; k < 8; k++)
		tags[k] = k < len0 ? ctxs[c]->lmq.lmq_msgs[(ctxs[c]->lmq.lmq_get + k) & ctxs[c]->lmq.lmq_mask]->tag : 0;
	nng_err brv = sub0_ctx_set_recv_buf_len(ctxs[c], &v, sizeof(v), NNI_TYPE_INT32);
#ifdef VH_FAULTPASS
	SCHECK(brv == 0 || brv == NNG_ENOMEM, "C20: set RECVBUF succeeds or reports NNG_ENOMEM");
	SCHECK((brv == NNG_ENOMEM) == (VH_FAULT_FIRED != 0), "C20: set RECVBUF reports NNG_ENOMEM exactly when its allocation failed");
	if (brv == NNG_ENOMEM) {
		SCHECK((int) nni_lmq_len(&ctxs[c]->lmq) == len0, "C20: a resize that failed discards nothing");
		for (int k = 0; k < 8; k++)
			if (k < len0)
				SCHECK(ctxs[c]->lmq.lmq_msgs[(ctxs[c]->lmq.lmq_get + k) & ctxs[c]->lmq.lmq_mask]->tag == tags[k],
				    "C20: a resize that failed keeps the queued messages in order");
		WITNESS("resize failed cleanly");
		KFAULT_ABSORBED();
		monitor();
		return;
	}
#endif
	CHECK(brv == 0, "set RECVBUF");
	int keep = len0 < n ? len0 : n;
	CHECK((int) nni_lmq_len(&ctxs[c]->lmq) == keep, "C18: resize discards only as many whole messages as no longer fit");
	for (int k = 0; k < 8; k++)
		if (k < keep)
			CHECK(ctxs[c]->lmq.lmq_msgs[(ctxs[c]->lmq.lmq_get + k) & ctxs[c]->lmq.lmq_mask]->tag == tags[k],
			    "C18: resize keeps the surviving messages in their original order");
	monitor();
}
static void
ev_close(void)
{
	KNEED(!sock_closed);
	if (kstop)
		return;
	for (int p = 0; p < MAXP; p++)
		if (kpipe_up[p])
			sub0_pipe_close(&pd[p]);
	sub0_sock_close(&sock);
#ifndef ONECTX
	sub0_ctx_close(&xctx);
#endif
	sock_closed = 1;
	kquiesce();
	for (int p = 0; p < MAXP; p++)
		if (kpipe_up[p]) {
			sub0_pipe_stop(&pd[p]);
			sub0_pipe_fini(&pd[p]);
			kpipe_up[p] = 0;
		}
	kquiesce();
	sweep();
	for (int i = 0; i < MAXU; i++)
		if (uaio_used[i])
			SCHECK(KDONE(i), "C10: close completes every pending receive");
#ifndef ONECTX
	sub0_ctx_fini(&xctx);
#endif
	sub0_sock_fini(&sock);
	SCHECK(env_msg_live == 0, "C03: after close and fini every message has been released exactly once");
	SCHECK(env_alloc_live == 0, "C03: after close and fini all memory is returned with matching sizes");
	WITNESS("closed");
}
#define A(p) if (!kstop) ev_attach(p);
#define U(c, t) if (!kstop) ev_sub(c, t);
#define N(c, t) if (!kstop) ev_unsub(c, t);
#define W(p) if (!kstop) ev_wire_k(p, 0);
#define WK(p, k) if (!kstop) ev_wire_k(p, k);
#define R(c, i, b) if (!kstop) ev_recv(c, i, b);
#define P(c, v) if (!kstop) ev_prefnew(c, v);
#define B(c, n) if (!kstop) ev_recvbuf(c, n);
#define Z if (!kstop) ev_close();
#ifndef SKEL
#define SKEL A(0) U(0, 1) W(0) R(0, 0, 0) Z
#endif
void
harness(void)
{
	sub0_sock_init(&sock, NULL);
#ifdef RECVBUF0
	{
		int v = RECVBUF0;
		sub0_sock_set_recv_buf_len(&sock, &v, sizeof(v), NNI_TYPE_INT32);
	}
#endif
#ifndef ONECTX
	sub0_ctx_init(&xctx, &sock);
#endif
	ctxs[0] = &sock.master;
#ifndef ONECTX
	ctxs[1] = &xctx;
#endif
#ifdef SYMTOPICS
	for (int t = 0; t < NTOP; t++) {
		tbytes[t][0] = ND(u8);
		tbytes[t][1] = ND(u8);
	}
#else
	/* concrete topic bytes: whether a message matches decides the heap shape, so
	 * it is fixed per skeleton; the matcher itself is checked for all bytes by
	 * c05/match.c */
	tbytes[1][0] = 'a';
	tbytes[2][0] = 'b';
	tbytes[2][1] = 'c';
	tbytes[3][0] = 'd';
#endif
	monitor();
	SKEL
	if (!kstop)
		WITNESS("skeleton ran to its end");
#ifdef MUSTEND
	/* a curated skeleton whose every event is applicable on the library as it should be: an event that finds nothing to act
	 * on (e.g. no transfer outstanding because a message vanished) is a failure, not the end of the skeleton */
	CHECK(!kstop, "every event of the skeleton found the library in the state the previous events must have left it in");
#endif
	WITNESS("end");
}

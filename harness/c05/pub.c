/* C05 (+C03, C10, C15 monitors): PUB over the real pubsub0/pub.c and the real lmq.c.
 * events:  A(p)      subscriber pipe p attaches (pipe_init + pipe_start)
 *          S(i,b)    user send i (b=1 blocking, b=0 non-blocking): must complete at once either way
 *          T(p,ok)   transport finishes the outstanding send on pipe p
 *          W(p)      the subscriber sends something (a protocol violation)
 *          C(p)      pipe p is lost: protocol pipe_close, stop, fini
 *          B(n)      NNG_OPT_SENDBUF := n
 *          Z         socket close + teardown + fini
 * reference model per pipe: busy flag + FIFO of pending message tags bounded by the send buffer;
 * a send offers the message to every attached pipe exactly once (directly if idle, else queued, dropping
 * the OLDEST queued message when the queue is full); a finished transfer starts the next queued one.
 * checked after every event: wire and queues equal the model (so per subscriber: no duplicate, no
 * reordering, drops only of whole messages from the old end and only when full), body bytes unchanged,
 * a PUB send never blocks and never fails, reference counts / frees balance.
 */
#include "proto_kit.h"
/* pub.c releases the caller's reference through the public wrapper; src/nng.c defines it as this forwarding call */
void
nng_msg_free(nng_msg *m)
{
	nni_msg_free(m);
}
#include "sp/protocol/pubsub0/pub.c"

static pub0_sock sock;
static pub0_pipe pd[MAXP];
static int       sock_closed;
#define QMAX 4
static int ref_busy[MAXP], ref_wire[MAXP], ref_q[MAXP][QMAX], ref_n[MAXP], ref_cap[MAXP];
static int sendbuf_now = 16;
static u8  body_of[MAXU][2];

static void
monitor(void)
{
	kquiesce();
	for (int p = 0; p < MAXP; p++) {
		if (!kpipe_up[p])
			continue;
		CHECK(pd[p].busy == (ref_busy[p] != 0), "pipe busy state as in the model");
		if (ref_busy[p]) {
			CHECK(kpipe[p].send_aio != NULL && kpipe[p].wire_msg != NULL && kpipe[p].wire_msg->tag == ref_wire[p],
			    "the message on the wire for a subscriber is the next one in publication order (no duplicate, no reordering)");
			int u = ref_wire[p] - 1;
			CHECK(nni_msg_len(kpipe[p].wire_msg) == 2 && ((u8 *) nni_msg_body(kpipe[p].wire_msg))[0] == body_of[u][0] &&
			        ((u8 *) nni_msg_body(kpipe[p].wire_msg))[1] == body_of[u][1],
			    "published bytes reach the wire unchanged");
		} else {
			CHECK(kpipe[p].send_aio == NULL, "an idle pipe has no transfer outstanding");
		}
		CHECK(pd[p].sendq.lmq_len == (size_t) ref_n[p], "per-subscriber queue length as in the model");
		CHECK(pd[p].sendq.lmq_len <= pd[p].sendq.lmq_cap, "per-subscriber queue never exceeds its depth");
		for (int k = 0; k < QMAX; k++) {
			if (k < ref_n[p]) {
				nni_msg *m = pd[p].sendq.lmq_msgs[(pd[p].sendq.lmq_get + k) & pd[p].sendq.lmq_mask];
				CHECK(m->tag == ref_q[p][k], "per-subscriber queue holds the pending messages in publication order");
			}
		}
	}
	for (int i = 0; i < MAXU; i++) {
		if (!uaio_used[i])
			continue;
		CHECK(KDONE(i) && env_aio_completed(&uaio_at(i)) == 1, "a PUB send completes at once, exactly once (never blocks)");
		CHECK(KRESULT(i) == 0, "a PUB send always succeeds");
	}
	/* reference counting: one reference per place a message is in */
	if (!sock_closed) {
		for (int i = 0; i < MAXU; i++) {
			if (!uaio_used[i])
				continue;
			int places = 0;
			for (int p = 0; p < MAXP; p++) {
				if (!kpipe_up[p])
					continue;
				if (ref_busy[p] && ref_wire[p] == i + 1)
					places++;
				for (int k = 0; k < QMAX; k++)
					if (k < ref_n[p] && ref_q[p][k] == i + 1)
						places++;
			}
			/* umsg[i] stays valid as long as some place holds it; when none does it has been freed */
			if (places > 0) {
				CHECK(umsg[i]->refcnt == places, "a published message holds one reference per subscriber it is pending for");
			}
		}
	}
}

static void
ev_attach(int p)
{
	KNEED(!kpipe_up[p] && !sock_closed);
	if (kstop)
		return;
	env_pipe_init(&kpipe[p], 100 + p, NNI_PROTO_SUB_V0);
	{
		static const pub0_pipe pd_zero;
		pd[p] = pd_zero; /* the core hands pipe_init zeroed memory */
	}
	CHECK(pub0_pipe_init(&pd[p], &kpipe[p], &sock) == 0, "pipe_init");
	kpipe_up[p] = 1;
	CHECK(pub0_pipe_start(&pd[p]) == 0, "pipe_start accepts a SUB peer");
	ref_busy[p] = 0;
	ref_n[p]    = 0;
	ref_cap[p]  = sendbuf_now;
	CHECK(kpipe[p].recv_aio != NULL, "the publisher watches the pipe for disconnects");
	monitor();
}
static void
ev_send(int i, int blocking)
{
	KNEED(!uaio_used[i] && !sock_closed);
	if (kstop)
		return;
	kuaio_prepare(i, blocking);
	umsg[i]      = kmsg(2);
	umsg[i]->tag = i + 1;
	body_of[i][0] = ((u8 *) nni_msg_body(umsg[i]))[0];
	body_of[i][1] = ((u8 *) nni_msg_body(umsg[i]))[1];
	nni_aio_set_msg(&uaio_at(i), umsg[i]);
	env_aio_submit(&uaio_at(i));
	int live0 = env_msg_live;
	pub0_sock_send(&sock, &uaio_at(i));
	int any = 0;
	for (int p = 0; p < MAXP; p++) {
		if (!kpipe_up[p])
			continue;
		any = 1;
		if (!ref_busy[p]) {
			ref_busy[p] = 1;
			ref_wire[p] = i + 1;
		} else {
			if (ref_n[p] == ref_cap[p]) {
				/* full: exactly one message, the oldest, makes room */
				for (int k = 0; k + 1 < QMAX; k++)
					ref_q[p][k] = ref_q[p][k + 1];
				ref_n[p]--;
				WITNESS("oldest queued message dropped for a slow subscriber");
			}
			CHECK(ref_n[p] < QMAX, "harness: model queue large enough");
			ref_q[p][ref_n[p]++] = i + 1;
		}
	}
	CHECK(KDONE(i) && KRESULT(i) == 0, "a PUB send completes immediately, whatever the state of the subscribers");
	if (!any) {
		CHECK(env_msg_live == live0 - 1, "with no subscriber the message is discarded (freed once)");
		WITNESS("published to nobody");
	}
	WITNESS("published");
	monitor();
}
static void
ev_txdone(int p, int ok)
{
	KNEED(kpipe_up[p] && kpipe[p].send_aio != NULL);
	if (kstop)
		return;
	env_pipe_send_done(&kpipe[p], ok ? 0 : NNG_ECONNRESET);
	kquiesce();
	if (ok) {
		if (ref_n[p] > 0) {
			ref_wire[p] = ref_q[p][0];
			for (int k = 0; k + 1 < QMAX; k++)
				ref_q[p][k] = ref_q[p][k + 1];
			ref_n[p]--;
			WITNESS("next queued message started");
		} else {
			ref_busy[p] = 0;
		}
		monitor();
	} else {
		CHECK(kpipe[p].closed, "a failed transport send closes that pipe");
		WITNESS("send failed");
	}
}
static void
ev_wire(int p)
{
	KNEED(kpipe_up[p] && kpipe[p].recv_aio != NULL);
	if (kstop)
		return;
	int      live0 = env_msg_live;
	nni_msg *m     = kmsg(2);
	env_pipe_recv_done(&kpipe[p], m, 0);
	kquiesce();
	CHECK(env_msg_live == live0, "data from a subscriber is discarded (freed once)");
	CHECK(kpipe[p].closed, "a subscriber that sends is disconnected");
	WITNESS("subscriber data refused");
}
static void
ev_pipe_lost(int p)
{
	KNEED(kpipe_up[p]);
	if (kstop)
		return;
	pub0_pipe_close(&pd[p]);
	kquiesce();
	pub0_pipe_stop(&pd[p]);
	pub0_pipe_fini(&pd[p]);
	CHECK(kpipe[p].send_aio == NULL && kpipe[p].recv_aio == NULL, "pipe teardown cancels its transport operations");
	kpipe_up[p] = 0;
	ref_busy[p] = 0;
	ref_n[p]    = 0;
	monitor();
	WITNESS("pipe lost");
}
static void
ev_setbuf(int n)
{
	KNEED(!sock_closed);
	if (kstop)
		return;
	int v = n;
	CHECK(pub0_sock_set_sendbuf(&sock, &v, sizeof(v), NNI_TYPE_INT32) == 0, "setting the send buffer succeeds");
	sendbuf_now = n;
	for (int p = 0; p < MAXP; p++) {
		if (!kpipe_up[p])
			continue;
		ref_cap[p] = n;
		/* a shrink keeps the oldest messages that fit (whole messages dropped from one end only) */
		if (ref_n[p] > n)
			ref_n[p] = n;
	}
	monitor();
}
static void
ev_close(void)
{
	KNEED(!sock_closed);
	if (kstop)
		return;
	for (int p = 0; p < MAXP; p++)
		if (kpipe_up[p])
			pub0_pipe_close(&pd[p]);
	pub0_sock_close(&sock);
	sock_closed = 1;
	kquiesce();
	for (int p = 0; p < MAXP; p++)
		if (kpipe_up[p]) {
			pub0_pipe_stop(&pd[p]);
			pub0_pipe_fini(&pd[p]);
			kpipe_up[p] = 0;
		}
	kquiesce();
	pub0_sock_fini(&sock);
	CHECK(env_msg_live == 0, "after close and fini every message has been released exactly once");
	CHECK(env_alloc_live == 0, "after close and fini all memory is returned");
	WITNESS("closed");
}

#define A(p) if (!kstop) ev_attach(p);
#define S(i, b) if (!kstop) ev_send(i, b);
#define T(p, ok) if (!kstop) ev_txdone(p, ok);
#define W(p) if (!kstop) ev_wire(p);
#define C(p) if (!kstop) ev_pipe_lost(p);
#define B(n) if (!kstop) ev_setbuf(n);
#define Z if (!kstop) ev_close();
#ifndef SKEL
#define SKEL A(0) S(0, 1) T(0, 1) Z
#endif

void
harness(void)
{
	pub0_sock_init(&sock, NULL);
	pub0_sock_open(&sock);
	monitor();
	SKEL
	if (!kstop)
		WITNESS("skeleton ran to its end");
#ifdef MUSTEND
	/* a curated skeleton whose every event is applicable on the library as it should be: an event that finds nothing to act
	 * on (e.g. no transfer outstanding because a message vanished) is a failure, not the end of the skeleton */
	CHECK(!kstop, "every event of the skeleton found the library in the state the previous events must have left it in");
#endif
	WITNESS("end");
}

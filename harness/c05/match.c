/* C05 kernel: sub0_matches over a context with NT topics of concrete lengths
 * (-DL0,-DL1,-DL2; -1 = absent) and symbolic bytes against a body of BL
 * symbolic bytes: true iff some topic is a prefix of the body (the empty
 * topic matches everything, no topic matches nothing). */
#include "proto_kit.h"
#include "sp/protocol/pubsub0/sub.c"
#ifndef BL
#define BL 2
#endif
static sub0_sock sock;
static const int tl[3] = { L0, L1, L2 };
void
harness(void)
{
	u8 tb[3][3], body[BL + 1];
	sub0_sock_init(&sock, NULL);
	ND_BYTES(body, BL);
	int exp = 0;
	for (int t = 0; t < 3; t++) {
		if (tl[t] < 0)
			continue;
		ND_BYTES(tb[t], 3);
		CHECK(sub0_ctx_subscribe(&sock.master, tb[t], (size_t) tl[t]) == 0, "subscribe");
		if (tl[t] <= BL) {
			int eq = 1;
			for (int k = 0; k < tl[t]; k++)
				if (body[k] != tb[t][k])
					eq = 0;
			if (eq)
				exp = 1;
		}
	}
	bool got = sub0_matches(&sock.master, body, BL);
	CHECK(got == (exp != 0), "a body matches iff some current subscription is a prefix of it");
	if (got)
		WITNESS("match");
	else
		WITNESS("no match");
	WITNESS("end");
}

/* C05 / C09-style raw receive: the real pubsub0/xsub.c with the real core/msgqueue.c behind it.
 * NW messages (2 symbolic bytes each, sequence tagged) arrive on pipe 0 while the socket's receive queue
 * has RQ slots and (WAITER) possibly a receiver already waiting.  Raw SUB does no filtering: every message
 * is handed up unchanged and in order while there is room; when the queue is full the NEW message is
 * dropped whole (freed once) and the pipe keeps receiving; a transport error closes only that pipe.
 */
#include "proto_kit.h"
#include "sp/protocol/pubsub0/xsub.c"
static nni_msgq *g_urq;
nni_msgq *
nni_sock_recvq(nni_sock *s)
{
	(void) s;
	return g_urq;
}
nni_msgq *
nni_sock_sendq(nni_sock *s)
{
	(void) s;
	return NULL;
}
#ifndef NW
#define NW 2
#endif
#ifndef RQ
#define RQ 1
#endif
static xsub0_sock sock;
static xsub0_pipe pd[MAXP];
void
harness(void)
{
	u8      b[4][2];
	nni_aio ua;
	CHECK(nni_msgq_init(&g_urq, RQ) == 0, "socket receive queue");
	xsub0_sock_init(&sock, NULL);
	xsub0_sock_open(&sock);
#ifdef BADPEER
	env_pipe_init(&kpipe[0], 100, 0x77);
	CHECK(xsub0_pipe_init(&pd[0], &kpipe[0], &sock) == 0, "pipe_init");
	CHECK(xsub0_pipe_start(&pd[0]) == NNG_EPROTO && kpipe[0].recv_aio == NULL, "a peer that is not a publisher is refused");
	WITNESS("refused");
	WITNESS("end");
	return;
#endif
	env_pipe_init(&kpipe[0], 100, NNI_PROTO_PUB_V0);
	CHECK(xsub0_pipe_init(&pd[0], &kpipe[0], &sock) == 0, "pipe_init");
	CHECK(xsub0_pipe_start(&pd[0]) == 0 && kpipe[0].recv_aio != NULL, "a publisher pipe starts receiving");
#ifdef WAITER
	nni_aio_init(&ua, NULL, NULL);
	nni_aio_set_timeout(&ua, NNG_DURATION_INFINITE);
	env_aio_submit(&ua);
	xsub0_sock_recv(&sock, &ua);
	kquiesce();
	CHECK(env_aio_completed(&ua) == 0, "a raw receive waits while nothing has arrived");
	int room = RQ + 1;
#else
	int room = RQ;
#endif
	int live0 = env_msg_live;
	for (int i = 0; i < NW; i++) {
		nni_msg *m = kmsg(2);
		m->tag     = i + 1;
		b[i][0] = ((u8 *) nni_msg_body(m))[0], b[i][1] = ((u8 *) nni_msg_body(m))[1];
		env_pipe_recv_done(&kpipe[0], m, 0);
		kquiesce();
		CHECK(kpipe[0].recv_aio != NULL && !kpipe[0].closed, "after every message, delivered or dropped, the pipe receives again");
	}
	int kept = NW < room ? NW : room;
	CHECK(env_msg_live == live0 + kept, "messages beyond the queue's room are dropped whole (freed once), the others are all kept");
	for (int i = 0; i < kept; i++) {
		nni_msg *m;
#ifdef WAITER
		if (i == 0) {
			CHECK(env_aio_completed(&ua) == 1 && nni_aio_result(&ua) == 0, "the waiting receiver gets the first message");
			m = nni_aio_get_msg(&ua);
		} else
#endif
		{
			nni_aio ga;
			nni_aio_init(&ga, NULL, NULL);
			nni_aio_set_timeout(&ga, NNG_DURATION_ZERO);
			env_aio_submit(&ga);
			xsub0_sock_recv(&sock, &ga);
			kquiesce();
			CHECK(env_aio_completed(&ga) == 1 && nni_aio_result(&ga) == 0, "a kept message can be received without blocking");
			m = nni_aio_get_msg(&ga);
		}
		CHECK(m != NULL && m->tag == i + 1, "messages are handed up in arrival order, the oldest are the ones kept");
		CHECK(nni_msg_len(m) == 2 && ((u8 *) nni_msg_body(m))[0] == b[i][0] && ((u8 *) nni_msg_body(m))[1] == b[i][1], "bytes unchanged, no filtering in raw mode");
		CHECK(nni_msg_get_pipe(m) == kpipe[0].id, "the message is tagged with its pipe");
		nni_msg_free(m);
	}
	{
		nni_aio ga;
		nni_aio_init(&ga, NULL, NULL);
		nni_aio_set_timeout(&ga, NNG_DURATION_ZERO);
		env_aio_submit(&ga);
		xsub0_sock_recv(&sock, &ga);
		kquiesce();
		CHECK(env_aio_completed(&ga) == 1 && nni_aio_result(&ga) != 0, "nothing else is queued (no duplicate)");
	}
	WITNESS("delivered and dropped as specified");
	env_pipe_recv_done(&kpipe[0], NULL, NNG_ECONNRESET);
	kquiesce();
	CHECK(kpipe[0].closed, "a transport error closes that pipe");
	xsub0_pipe_close(&pd[0]);
	kquiesce();
	xsub0_pipe_stop(&pd[0]);
	xsub0_pipe_fini(&pd[0]);
	CHECK(kpipe[0].recv_aio == NULL, "teardown cancels the receive");
	CHECK(env_msg_live == live0, "nothing leaks");
	CHECK(env_locks_held == 0, "no lock held");
	WITNESS("end");
}

/* C06 (+C03, C10, C15 monitors): PULL over the real pipeline0/pull.c.
 * events: A(p) attach, W(p) a message arrives on pipe p, R(i,b) user receive,
 *         C(p) pipe lost, X(i) cancel receive i, Z close. */
#include "proto_kit.h"
#include "sp/protocol/pipeline0/pull.c"
#define MAXW 4
static pull0_sock sock;
static pull0_pipe pd[MAXP];
static int        wid[MAXW], wpipe[MAXW], nw; /* wire messages */
static int        wdeliv[MAXW], wlost[MAXW];
static int        last_deliv_on_pipe[MAXP];
static int        sock_closed;

static int
widx(int id)
{
	for (int i = 0; i < MAXW; i++)
		if (i < nw && wid[i] == id)
			return i;
	return -1;
}
static void
monitor(void)
{
	kquiesce();
	for (int i = 0; i < MAXU; i++) {
		if (!uaio_used[i])
			continue;
		CHECK(env_aio_completed(&uaio_at(i)) <= 1, "user receive completes at most once");
		if (KDONE(i) && KRESULT(i) == 0 && !kseen[i + 0]) {
		}
	}
	for (int p = 0; p < MAXP; p++) {
		if (!kpipe_up[p] || pd[p].closed)
			continue;
		CHECK((pd[p].m == NULL) == (kpipe[p].recv_aio != NULL),
		    "one transport receive per pipe, re-armed only after the held message was handed up");
		CHECK((pd[p].m != NULL) == nni_list_node_active(&pd[p].node), "a pipe is on the ready list iff it holds a message");
	}
	if (!nni_list_empty(&sock.pl)) {
		CHECK(nni_list_empty(&sock.rq), "a held message implies no receiver is waiting");
	}
	if (!sock_closed) {
		CHECK(nni_atomic_get_bool(&sock.readable.p_raised) == !nni_list_empty(&sock.pl), "C15: receive poll state mirrors whether a message is available");
	}
	/* conservation of wire messages */
	for (int w = 0; w < MAXW; w++) {
		if (w >= nw || sock_closed)
			continue;
		int places = wdeliv[w] + wlost[w];
		for (int p = 0; p < MAXP; p++)
			if (kpipe_up[p] && pd[p].m != NULL && pd[p].m->id == wid[w])
				places++;
		CHECK(places == 1, "a received message is held by its pipe, delivered to one receiver, or lost with its connection - exactly one");
	}
}
static void
note_delivery(int i)
{
	/* user receive i just completed OK */
	nni_msg *m = nni_aio_get_msg(&uaio_at(i));
	CHECK(m != NULL, "successful receive carries a message");
	int w = widx(m->id);
	CHECK(w >= 0, "delivered message is one that arrived from a peer");
	if (w >= 0) {
		wdeliv[w]++;
		CHECK(wdeliv[w] == 1 && wlost[w] == 0, "a message is delivered at most once");
		CHECK(w > last_deliv_on_pipe[wpipe[w]] - 1, "messages of one connection are delivered in arrival order");
		last_deliv_on_pipe[wpipe[w]] = w + 1;
		CHECK(nni_msg_get_pipe(m) == kpipe[wpipe[w]].id, "delivered message names the pipe it arrived on");
	}
	nni_msg_free(m);
	nni_aio_set_msg(&uaio_at(i), NULL);
}
static int noted[MAXU];
static void
sweep_deliveries(void)
{
	for (int i = 0; i < MAXU; i++)
		if (uaio_used[i] && KDONE(i) && KRESULT(i) == 0 && !noted[i]) {
			noted[i] = 1;
			note_delivery(i);
		}
}
static void
ev_attach(int p)
{
	KNEED(!kpipe_up[p] && !sock_closed);
	if (kstop)
		return;
	env_pipe_init(&kpipe[p], 100 + p, NNI_PROTO_PUSH_V0);
	{
		static const __typeof__(pd[0]) pd_zero;
		pd[p] = pd_zero; /* struct assignment keeps field sensitivity, memset does not */
	}
	CHECK(pull0_pipe_init(&pd[p], &kpipe[p], &sock) == 0, "pipe_init");
	kpipe_up[p] = 1;
	CHECK(pull0_pipe_start(&pd[p]) == 0, "pipe_start accepts a PUSH peer");
	monitor();
}
static void
ev_wire(int p)
{
	KNEED(kpipe_up[p] && kpipe[p].recv_aio != NULL && nw < MAXW);
	if (kstop)
		return;
	nni_msg *m = kmsg(2);
	wid[nw]    = m->id;
	wpipe[nw]  = p;
	nw++;
	env_pipe_recv_done(&kpipe[p], m, 0);
	kquiesce();
	sweep_deliveries();
	monitor();
	WITNESS("message arrived");
}
static void
ev_recv(int i, int blocking)
{
	KNEED(!uaio_used[i] && !sock_closed);
	if (kstop)
		return;
	bool can = !nni_list_empty(&sock.pl);
	kuaio_prepare(i, blocking);
	env_aio_submit(&uaio_at(i));
	pull0_sock_recv(&sock, &uaio_at(i));
	if (can) {
		CHECK(KDONE(i) && KRESULT(i) == 0, "receive succeeds at once when a message is held");
		WITNESS("recv immediate");
	} else if (!blocking) {
		CHECK(KDONE(i) && KRESULT(i) == NNG_ETIMEDOUT, "non-blocking receive with nothing held fails at once (EAGAIN)");
		WITNESS("nonblocking recv refused");
	} else {
		CHECK(!KDONE(i), "blocking receive waits");
		KWAIT_POST(i, 0);
	}
	sweep_deliveries();
	monitor();
}
static void
ev_pipe_lost(int p)
{
	KNEED(kpipe_up[p]);
	if (kstop)
		return;
	if (pd[p].m != NULL) {
		int w = widx(pd[p].m->id);
		if (w >= 0)
			wlost[w]++;
	}
	pull0_pipe_close(&pd[p]);
	kquiesce();
	pull0_pipe_stop(&pd[p]);
	pull0_pipe_fini(&pd[p]);
	pd[p].m = NULL;
	CHECK(kpipe[p].recv_aio == NULL, "pipe teardown cancels its transport receive");
	kpipe_up[p] = 0;
	sweep_deliveries();
	monitor();
	WITNESS("pipe lost");
}
static void
ev_cancel(int i)
{
	KNEED(uaio_used[i]);
	if (kstop)
		return;
	int was_pending = !KDONE(i);
	(void) KRESULT(i);
	nni_aio_abort(&uaio_at(i), NNG_ECANCELED);
	kquiesce();
	if (was_pending)
		CHECK(KDONE(i) && KRESULT(i) == NNG_ECANCELED, "cancelling a waiting receive completes it with ECANCELED");
	monitor();
}
static void
ev_close(void)
{
	KNEED(!sock_closed);
	if (kstop)
		return;
	for (int p = 0; p < MAXP; p++)
		if (kpipe_up[p])
			pull0_pipe_close(&pd[p]);
	pull0_sock_close(&sock);
	sock_closed = 1;
	kquiesce();
	for (int p = 0; p < MAXP; p++)
		if (kpipe_up[p]) {
			pull0_pipe_stop(&pd[p]);
			pull0_pipe_fini(&pd[p]);
			kpipe_up[p] = 0;
		}
	kquiesce();
	sweep_deliveries();
	for (int i = 0; i < MAXU; i++)
		if (uaio_used[i])
			CHECK(KDONE(i), "socket close completes every pending operation");
	pull0_sock_fini(&sock);
	CHECK(env_msg_live == 0, "after close and fini every message has been released exactly once");
	WITNESS("closed");
}
#define A(p) if (!kstop) ev_attach(p);
#define W(p) if (!kstop) ev_wire(p);
#define R(i, b) if (!kstop) ev_recv(i, b);
#define C(p) if (!kstop) ev_pipe_lost(p);
#define X(i) if (!kstop) ev_cancel(i);
#define Z if (!kstop) ev_close();
#ifndef SKEL
#define SKEL A(0) W(0) R(0, 1) Z
#endif
void
harness(void)
{
	pull0_sock_init(&sock, NULL);
	pull0_sock_open(&sock);
	monitor();
	SKEL
	if (!kstop)
		WITNESS("skeleton ran to its end");
#ifdef MUSTEND
	/* a curated skeleton whose every event is applicable on the library as it should be: an event that finds nothing to act
	 * on (e.g. no transfer outstanding because a message vanished) is a failure, not the end of the skeleton */
	CHECK(!kstop, "every event of the skeleton found the library in the state the previous events must have left it in");
#endif
	WITNESS("end");
}

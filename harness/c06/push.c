/* C06 (+C03, C10, C15 monitors): PUSH over the real pipeline0/push.c and the
 * real lmq.c / list.c / pollable.c.
 * events:  A(p)      pipe p attaches (pipe_init + pipe_start)
 *          S(i,b)    user send i, b=1 blocking, b=0 non-blocking
 *          T(p,ok)   transport finishes the outstanding send on pipe p
 *          C(p)      pipe p is lost: protocol pipe_close, stop, fini
 *          X(i)      user cancels send i
 *          B(n)      NNG_OPT_SENDBUF := n
 *          Z         socket close + teardown + fini
 */
#include "proto_kit.h"
#include "sp/protocol/pipeline0/push.c"

static push0_sock sock;
static push0_pipe pd[MAXP];
static int        accepted[MAXU]; /* acceptance sequence number, 0 = not accepted */
static int        delivered[MAXU], lost[MAXU];
static int        accept_seq;
static int        last_seq_on_pipe[MAXP];
static int        sock_closed;
static int        blocked_at_post[MAXU];
static int        pend_at_post[MAXU][MAXU]; /* [j][i]: send i was still pending when send j was posted */

static int
id_to_user(int id)
{
	for (int i = 0; i < MAXU; i++)
		if (uaio_used[i] && umsg_id[i] == id)
			return i;
	return -1;
}

static int
in_wq(int id)
{
	int n = 0;
	for (size_t k = 0; k < sock.wq.lmq_len; k++) {
		nni_msg *m = sock.wq.lmq_msgs[(sock.wq.lmq_get + k) & sock.wq.lmq_mask];
		if (m->id == id)
			n++;
	}
	return n;
}

static void
monitor(void)
{
	kquiesce();
	for (int i = 0; i < MAXU; i++) {
		if (!uaio_used[i])
			continue;
		CHECK(env_aio_completed(&uaio_at(i)) <= 1, "user send completes at most once");
		if (KDONE(i)) {
			if (KRESULT(i) == 0) {
				CHECK(nni_aio_get_msg(&uaio_at(i)) == NULL, "accepted send: message now owned by the library");
				if (!accepted[i])
					accepted[i] = ++accept_seq;
			} else {
				CHECK(nni_aio_get_msg(&uaio_at(i)) == umsg[i], "failed send leaves the message with the caller");
				CHECK(!accepted[i], "a send reports one final result");
			}
		} else {
			CHECK(nni_aio_get_msg(&uaio_at(i)) == umsg[i], "pending send still holds its message");
		}
		/* conservation: an accepted message is in exactly one place */
		if (accepted[i] && !sock_closed) {
			int places = in_wq(umsg_id[i]) + delivered[i] + lost[i];
			for (int p = 0; p < MAXP; p++)
				if (kpipe_up[p] && kpipe[p].wire_msg != NULL && kpipe[p].wire_msg->id == umsg_id[i])
					places++;
			CHECK(places == 1, "accepted message is in exactly one place: buffer, one connection, delivered (or lost with its connection)");
		}
	}
	/* senders blocked by back-pressure are admitted in the order they called send (so that messages of one application
	 * thread of control, and of several that hand over explicitly, keep their order on the connection) */
	for (int i = 0; i < MAXU; i++)
		for (int j = 0; j < MAXU; j++)
			if (i != j && uaio_used[i] && uaio_used[j] && pend_at_post[j][i] && blocked_at_post[j] && accepted[i] && accepted[j]) {
				/* both waited in the queue of blocked senders at the same time */
				CHECK(accepted[i] < accepted[j], "of two senders blocked at the same time the one that blocked first is admitted first");
			}
	/* hand-off invariants */
	if (!nni_list_empty(&sock.pl)) {
		CHECK(nni_lmq_empty(&sock.wq) && nni_list_empty(&sock.aq), "a ready pipe implies nothing is buffered or blocked");
	}
	if (!nni_list_empty(&sock.aq)) {
		/* (a sender blocked before NNG_OPT_SENDBUF was raised stays blocked until
		 * a pipe becomes ready: not a loss, so "buffer full" is not required) */
		CHECK(nni_list_empty(&sock.pl), "a blocked sender implies no ready pipe");
	}
	/* C15: the send pollable mirrors "a non-blocking send would be accepted" */
	if (!sock_closed) {
		bool can = !nni_list_empty(&sock.pl) || !nni_lmq_full(&sock.wq);
		CHECK(nni_atomic_get_bool(&sock.writable.p_raised) == can, "send poll state mirrors whether a send would be accepted");
	}
}

static void
ev_attach(int p)
{
	KNEED(!kpipe_up[p] && !sock_closed);
	if (kstop)
		return;
	env_pipe_init(&kpipe[p], 100 + p, NNI_PROTO_PULL_V0);
	CHECK(push0_pipe_init(&pd[p], &kpipe[p], &sock) == 0, "pipe_init");
	kpipe_up[p] = 1;
	CHECK(push0_pipe_start(&pd[p]) == 0, "pipe_start accepts a PULL peer");
	monitor();
}
static void
ev_send(int i, int blocking)
{
	KNEED(!uaio_used[i] && !sock_closed);
	if (kstop)
		return;
	bool can = !nni_list_empty(&sock.pl) || !nni_lmq_full(&sock.wq);
	for (int k = 0; k < MAXU; k++)
		pend_at_post[i][k] = (k != i && uaio_used[k] && !KDONE(k));
	kuaio_prepare(i, blocking);
	umsg[i]    = kmsg(2);
	umsg_id[i] = umsg[i]->id;
	nni_aio_set_msg(&uaio_at(i), umsg[i]);
	env_aio_submit(&uaio_at(i));
	push0_sock_send(&sock, &uaio_at(i));
	if (can) {
		CHECK(KDONE(i) && KRESULT(i) == 0, "send is accepted at once when a peer is ready or the buffer has room");
		WITNESS("send accepted");
	} else if (!blocking) {
		CHECK(KDONE(i) && KRESULT(i) == NNG_ETIMEDOUT, "non-blocking send with no room fails at once (EAGAIN)");
		WITNESS("nonblocking send refused");
	} else {
		CHECK(!KDONE(i), "blocking send with no room waits (back-pressure), it is not dropped");
		blocked_at_post[i] = 1;
		KWAIT_POST(i, 0);
		WITNESS("send blocks");
	}
	monitor();
}
static void
ev_txdone(int p, int ok)
{
	KNEED(kpipe_up[p] && kpipe[p].send_aio != NULL);
	if (kstop)
		return;
	int u = id_to_user(kpipe[p].wire_msg->id);
	CHECK(u >= 0, "message on the wire is one a user sent");
	if (u >= 0) {
		CHECK(accepted[u] > last_seq_on_pipe[p], "messages leave on one connection in the order they were accepted");
		last_seq_on_pipe[p] = accepted[u];
		if (ok)
			delivered[u]++;
		else
			lost[u]++;
		CHECK(delivered[u] + lost[u] == 1, "a message goes to at most one peer");
	}
	env_pipe_send_done(&kpipe[p], ok ? 0 : NNG_ECONNRESET);
	kquiesce();
	if (!ok) {
		CHECK(kpipe[p].closed, "a failed transport send closes that pipe");
	}
	monitor();
	if (ok)
		WITNESS("delivered");
}
static void
ev_pipe_lost(int p)
{
	KNEED(kpipe_up[p]);
	if (kstop)
		return;
	if (kpipe[p].wire_msg != NULL) {
		int u = id_to_user(kpipe[p].wire_msg->id);
		if (u >= 0)
			lost[u]++;
	}
	push0_pipe_close(&pd[p]);
	kquiesce();
	push0_pipe_stop(&pd[p]);
	push0_pipe_fini(&pd[p]);
	CHECK(kpipe[p].send_aio == NULL && kpipe[p].recv_aio == NULL, "pipe teardown cancels its transport operations");
	kpipe_up[p] = 0;
	monitor();
	WITNESS("pipe lost");
}
static void
ev_cancel(int i)
{
	KNEED(uaio_used[i]);
	if (kstop)
		return;
	int was_pending = !KDONE(i);
	(void) KRESULT(i);
	nni_aio_abort(&uaio_at(i), NNG_ECANCELED);
	kquiesce();
	if (was_pending) {
		CHECK(KDONE(i) && KRESULT(i) == NNG_ECANCELED, "cancelling a blocked send completes it with ECANCELED");
		WITNESS("cancelled");
	}
	monitor();
}
static void
ev_setbuf(int n)
{
	KNEED(!sock_closed);
	if (kstop)
		return;
	int     v  = n;
	KQ_SNAP(&sock.wq);
	nng_err rv = push0_set_send_buf_len(&sock, &v, sizeof(v), NNI_TYPE_INT32);
	KQ_FAULT_RESULT(rv, &sock.wq);
	CHECK(rv == 0, "setting the send buffer succeeds");
	/* messages dropped by a shrink are lost by request of the application */
	int newly_lost = 0;
	for (int i = 0; i < MAXU; i++)
		if (accepted[i] && !delivered[i] && !lost[i] && in_wq(umsg_id[i]) == 0) {
			int onwire = 0;
			for (int p = 0; p < MAXP; p++)
				if (kpipe_up[p] && kpipe[p].wire_msg != NULL && kpipe[p].wire_msg->id == umsg_id[i])
					onwire = 1;
			if (!onwire) {
				lost[i]++;
				newly_lost++;
			}
		}
	CHECK(newly_lost == (ksn_len > (size_t) n ? (int) (ksn_len - (size_t) n) : 0),
	    "C06/C18: changing the send buffer discards exactly as many accepted messages as no longer fit - none when it grows");
	monitor();
}
static void
ev_close(void)
{
	KNEED(!sock_closed);
	if (kstop)
		return;
	for (int p = 0; p < MAXP; p++)
		if (kpipe_up[p]) {
			push0_pipe_close(&pd[p]);
		}
	push0_sock_close(&sock);
	sock_closed = 1;
	kquiesce();
	for (int p = 0; p < MAXP; p++)
		if (kpipe_up[p]) {
			push0_pipe_stop(&pd[p]);
			push0_pipe_fini(&pd[p]);
			kpipe_up[p] = 0;
		}
	kquiesce();
	for (int i = 0; i < MAXU; i++)
		if (uaio_used[i]) {
			CHECK(KDONE(i), "socket close completes every pending operation");
			if (KRESULT(i) != 0) {
				/* failed: caller frees */
				nni_msg_free(nni_aio_get_msg(&uaio_at(i)));
				nni_aio_set_msg(&uaio_at(i), NULL);
			}
		}
	push0_sock_fini(&sock);
	CHECK(env_msg_live == 0, "after close and fini every message has been released exactly once");
	CHECK(env_alloc_live == 0, "after close and fini all memory is returned");
	WITNESS("closed");
}

#define A(p) if (!kstop) ev_attach(p);
#define S(i, b) if (!kstop) ev_send(i, b);
#define T(p, ok) if (!kstop) ev_txdone(p, ok);
#define C(p) if (!kstop) ev_pipe_lost(p);
#define X(i) if (!kstop) ev_cancel(i);
#define B(n) if (!kstop) ev_setbuf(n);
#define Z if (!kstop) ev_close();

#ifndef SKEL
#define SKEL A(0) S(0, 1) T(0, 1)
#endif

void
harness(void)
{
	push0_sock_init(&sock, NULL);
	push0_sock_open(&sock);
	monitor();
	SKEL
	if (!kstop)
		WITNESS("skeleton ran to its end");
#ifdef MUSTEND
	/* a curated skeleton whose every event is applicable on the library as it should be: an event that finds nothing to act
	 * on (e.g. no transfer outstanding because a message vanished) is a failure, not the end of the skeleton */
	CHECK(!kstop, "every event of the skeleton found the library in the state the previous events must have left it in");
#endif
	WITNESS("end");
}

/* C11 / C16: the WebSocket opening handshake decisions of the real
 * supplemental/websocket/websocket.c - what a peer must have sent before the library treats the
 * connection as an SP pipe.
 *   SIDE 0  ws_handler (listener): an HTTP request arrived at the listener's URL.
 *   SIDE 1  ws_http_cb_dialer (dialer), second step: the server's response has been read.
 * The HTTP message is a table of the fields the code looks at; for every field a SYMBOLIC variant
 * is chosen among {absent, good, bad_1, bad_2} (concrete strings, the choice is the solver's), so one
 * query covers every combination of present / absent / malformed fields.
 * listener fields: version, method, Content-Length, Transfer-Encoding, Upgrade, Connection,
 *                  Sec-WebSocket-Version, Sec-WebSocket-Key, Sec-WebSocket-Protocol
 * dialer fields  : status, Sec-WebSocket-Accept, Connection, Upgrade, Sec-WebSocket-Protocol
 * checked: the connection is upgraded (listener: status 101 set, reply written, connection hijacked,
 * a websocket object queued; dialer: user aio completes with 0 and the websocket) IF AND ONLY IF
 * every field is good - in particular the peer announced the SP protocol the endpoint was configured
 * with (LPROTO: the listener / dialer has a sub-protocol, as every SP ws:// endpoint has); otherwise
 * the listener answers with an HTTP error status (4xx/5xx, never 101) and creates nothing, the
 * dialer fails its user aio with an error and discards the websocket.  Outcome never depends on
 * fields after the first bad one being good.
 * stubs: HTTP connection accessors (the table), SHA-1 / base64 of the accept key (the dialer's
 * expected key is whatever ws_make_accept produced: the stub digest is fixed).
 */
#include "vh.h"
#include "env_aio.h"
#include "env_printf.h"
/* the unit's reaper calls are counted by the harness (env_aio.c has its own nni_reap for other harnesses) */
#define nni_reap ws_h_reap
#include "supplemental/websocket/websocket.c"
extern int env_locks_held, env_alloc_live;

#ifndef SIDE
#define SIDE 0
#endif
#ifndef LPROTO
#define LPROTO 1
#endif

/* ---- SHA-1 / base64: fixed stand-ins (the key derivation is not the subject here) ---- */
void
nni_sha1_init(nni_sha1_ctx *c)
{
	(void) c;
}
void
nni_sha1_update(nni_sha1_ctx *c, const void *d, size_t n)
{
	(void) c;
	(void) d;
	(void) n;
}
void
nni_sha1_final(nni_sha1_ctx *c, uint8_t d[20])
{
	(void) c;
	for (int i = 0; i < 20; i++)
		d[i] = (uint8_t) i;
}
size_t
nni_base64_encode(const uint8_t *in, size_t in_len, char *out, size_t out_len)
{
	(void) in;
	(void) in_len;
	for (size_t i = 0; i < out_len; i++)
		out[i] = 'A';
	return out_len;
}
#define GOOD_ACCEPT "AAAAAAAAAAAAAAAAAAAAAAAAAAAA"

/* ---- the HTTP message as a table ---- */
enum { F_VERSION, F_METHOD, F_CLEN, F_TENC, F_UPGRADE, F_CONN, F_WSVER, F_KEY, F_PROTO, F_ACCEPT, NFIELD };
static int         var[NFIELD];  /* 0 absent, 1 good, 2.. bad variants */
static const char *val[NFIELD];
#define MYPROTO "pair1.sp.nanomsg.org"
static const char *
pick(int f, int v)
{
	switch (f) {
	case F_VERSION:
		return v == 1 ? "HTTP/1.1" : v == 2 ? "HTTP/1.0" : "HTTP/2";
	case F_METHOD:
		return v == 1 ? "GET" : v == 2 ? "POST" : "HEAD";
	case F_CLEN: /* good: absent or zero */
		return v == 0 ? NULL : v == 1 ? "0" : v == 2 ? "5" : "12";
	case F_TENC:
		return v == 0 ? NULL : v == 1 ? "identity" : "chunked";
	case F_UPGRADE:
#if SIDE == 0
		return v == 0 ? NULL : v == 1 ? "websocket" : v == 2 ? "h2c" : "websockets";
#else
		return v == 0 ? NULL : v == 1 ? "websocket" : v == 2 ? "h2c" : "websocket, h2c";
#endif
	case F_CONN:
		return v == 0 ? NULL : v == 1 ? "keep-alive, Upgrade" : v == 2 ? "keep-alive" : "upgraded";
	case F_WSVER:
		return v == 0 ? NULL : v == 1 ? "13" : v == 2 ? "12" : "130";
	case F_KEY:
		return v == 0 ? NULL : v == 1 ? "dGhlIHNhbXBsZSBub25jZQ==" : v == 2 ? "dGhlIHNhbXBsZQ==" : "";
	case F_PROTO:
		return v == 0 ? NULL : v == 1 ? MYPROTO : v == 2 ? "rep.sp.nanomsg.org" : "pair1.sp.nanomsg.orgx";
	case F_ACCEPT:
		return v == 0 ? NULL : v == 1 ? GOOD_ACCEPT : v == 2 ? "AAAAAAAAAAAAAAAAAAAAAAAAAAAB" : "AAAA";
	}
	return NULL;
}
static int
nvariants(int f)
{
	return (f == F_TENC) ? 3 : 4;
}
static int
streq_ci(const char *a, const char *b)
{
	return nni_strcasecmp(a, b) == 0;
}
const char *
nng_http_get_header(nng_http *c, const char *name)
{
	(void) c;
	static const struct {
		const char *n;
		int         f;
	} map[] = { { "Content-Length", F_CLEN }, { "Transfer-Encoding", F_TENC }, { "Upgrade", F_UPGRADE }, { "Connection", F_CONN },
		{ "Sec-WebSocket-Version", F_WSVER }, { "Sec-WebSocket-Key", F_KEY }, { "Sec-WebSocket-Protocol", F_PROTO }, { "Sec-WebSocket-Accept", F_ACCEPT } };
	for (unsigned i = 0; i < sizeof(map) / sizeof(map[0]); i++)
		if (streq_ci(map[i].n, name))
			return val[map[i].f];
	return NULL;
}
const char *
nng_http_get_version(nng_http *c)
{
	(void) c;
	return val[F_VERSION];
}
const char *
nng_http_get_method(nng_http *c)
{
	(void) c;
	return val[F_METHOD];
}
static nng_http_status status_now;
static int             status_sets, error_sets, hijacked, resp_written, resp_read, static_hdrs, proto_hdr_echoed;
void
nng_http_set_status(nng_http *c, nng_http_status s, const char *r)
{
	(void) c;
	(void) r;
	status_now = s;
	status_sets++;
}
nng_http_status
nng_http_get_status(nng_http *c)
{
	(void) c;
	return status_now;
}
nng_http_status
nni_http_get_status(nng_http *c)
{
	(void) c;
	return status_now;
}
nng_err
nni_http_set_error(nng_http *c, nng_http_status s, const char *r, const char *b)
{
	(void) c;
	(void) r;
	(void) b;
	status_now = s;
	error_sets++;
	return NNG_OK;
}
nng_err
nng_http_set_header(nng_http *c, const char *k, const char *v)
{
	(void) c;
	(void) k;
	(void) v;
	return NNG_OK;
}
void
nni_http_set_static_header(nng_http *c, nni_http_header *h, const char *k, const char *v)
{
	(void) c;
	(void) h;
	static_hdrs++;
	if (streq_ci(k, "Sec-WebSocket-Protocol") && v != NULL && strcmp(v, MYPROTO) == 0)
		proto_hdr_echoed = 1;
}
nng_err
nni_http_hijack(nni_http_conn *c)
{
	(void) c;
	hijacked++;
	return NNG_OK;
}
void
nng_http_write_response(nng_http *c, nng_aio *aio)
{
	(void) c;
	(void) aio;
	resp_written++;
}
void
nng_http_read_response(nng_http *c, nng_aio *aio)
{
	(void) c;
	(void) aio;
	resp_read++;
}
void
nni_http_read_full(nng_http *c, nni_aio *aio)
{
	(void) c;
	(void) aio;
}
static int wr_full;
void
nni_http_write_full(nng_http *c, nni_aio *aio)
{
	(void) c;
	(void) aio;
	wr_full++;
}
static int conn_closed;
void
nni_http_conn_close(nng_http *c)
{
	(void) c;
	conn_closed++;
}
static int connects;
void
nni_http_client_connect(nni_http_client *c, nni_aio *aio)
{
	(void) c;
	(void) aio;
	connects++;
}
static int reaped;
void
nni_reap(nni_reap_list *l, void *i)
{
	(void) l;
	(void) i;
	reaped++;
}

static void
choose(int f, int allow_absent)
{
	int v = ND(vint);
	ASSUME(v >= (allow_absent ? 0 : 1) && v < nvariants(f));
	var[f] = v;
	val[f] = pick(f, v);
}

void
harness(void)
{
	static char        lproto[] = MYPROTO;
	static int         http_obj;
	nng_http          *conn = (nng_http *) &http_obj;
	nni_aio            uaio;
	nni_aio_init(&uaio, NULL, NULL);
#if SIDE == 0
	static nni_ws_listener l;
	nni_mtx_init(&l.mtx);
	NNI_LIST_INIT(&l.pend, nni_ws, node);
	NNI_LIST_INIT(&l.reply, nni_ws, node);
	nni_aio_list_init(&l.aios);
	NNI_LIST_INIT(&l.headers, ws_header, node);
	l.proto   = LPROTO ? lproto : NULL;
	l.started = true;
	/* the limits configured on the listener (NNG_OPT_RECVMAXSZ, NNG_OPT_WS_RECVMAXFRAME, NNG_OPT_WS_SENDMAXFRAME): any values */
	l.recvmax  = ND(usz);
	l.maxframe = ND(usz);
	l.fragsize = ND(usz);
	l.isstream = ND(vbool);
#ifdef LCLOSED
	l.closed = true;
#endif
	choose(F_VERSION, 0);
	choose(F_METHOD, 0);
	choose(F_CLEN, 1);
	choose(F_TENC, 1);
	choose(F_UPGRADE, 1);
	choose(F_CONN, 1);
	choose(F_WSVER, 1);
	choose(F_KEY, 1);
	choose(F_PROTO, 1);
	int body_ok = (var[F_CLEN] == 0 || var[F_CLEN] == 1) && (var[F_TENC] == 0 || var[F_TENC] == 1);
	int proto_ok = LPROTO ? var[F_PROTO] == 1 : var[F_PROTO] == 0;
	int good = var[F_VERSION] == 1 && var[F_METHOD] == 1 && body_ok && var[F_UPGRADE] == 1 && var[F_CONN] == 1 && var[F_WSVER] == 1 && var[F_KEY] == 1 && proto_ok;
#ifdef LCLOSED
	good = 0;
#endif
	env_aio_submit(&uaio);
	ws_handler(conn, &l, &uaio);
	(void) env_run_callbacks();
	CHECK(env_aio_completed(&uaio) == 1, "the handler finishes the request exactly once");
	if (good) {
		CHECK(status_now == NNG_HTTP_STATUS_SWITCHING && error_sets == 0, "a well-formed upgrade request for the listener's protocol is answered with 101");
		CHECK(resp_written == 1 && hijacked == 1, "the reply is written and the connection taken over");
		CHECK(nni_list_first(&l.reply) != NULL, "a websocket object waits for the reply to go out");
		CHECK(!LPROTO || proto_hdr_echoed, "the negotiated protocol is echoed in the reply");
		{
			nni_ws *nws = nni_list_first(&l.reply);
			if (nws != NULL)
				CHECK(nws->recvmax == l.recvmax && nws->maxframe == l.maxframe && nws->fragsize == l.fragsize && nws->isstream == l.isstream && nws->server,
				    "C11: the accepted connection's frame decoder runs with exactly the limits configured on the listener (RECVMAXSZ, max frame sizes)");
		}
		WITNESS("upgraded");
	} else {
		CHECK(status_now != NNG_HTTP_STATUS_SWITCHING, "a request that misses a requirement is never answered with 101");
		CHECK(error_sets == 1 && status_now >= 400, "it is answered with an HTTP error status");
		CHECK(resp_written == 0 && hijacked == 0 && nni_list_first(&l.reply) == NULL, "no websocket is created for it and the connection stays an HTTP connection");
		CHECK(env_alloc_live == 0, "nothing is allocated for a refused upgrade");
		if (LPROTO && var[F_PROTO] != 1 && var[F_VERSION] == 1 && var[F_METHOD] == 1 && body_ok && var[F_UPGRADE] == 1 && var[F_CONN] == 1 && var[F_WSVER] == 1 && var[F_KEY] == 1)
			WITNESS("refused only because the peer did not announce the listener's SP protocol");
		WITNESS("refused");
	}
	CHECK(nni_aio_result(&uaio) == 0, "the handler itself does not fail");
#elif SIDE == 2
	/* the dialer's first step (ws_dialer_dial): the connection object is created and the HTTP connect started */
	static nni_ws_dialer d;
	nni_mtx_init(&d.mtx);
	nni_cv_init(&d.cv, &d.mtx);
	NNI_LIST_INIT(&d.wspend, nni_ws, node);
	d.proto     = LPROTO ? lproto : NULL;
	d.recvmax   = ND(usz);
	d.maxframe  = ND(usz);
	d.fragsize  = ND(usz);
	d.isstream  = ND(vbool);
	d.recv_text = ND(vbool);
	d.send_text = ND(vbool);
	(void) conn;
	env_aio_submit(&uaio);
	ws_dialer_dial(&d, &uaio);
	{
		nni_ws *nws = nni_list_first(&d.wspend);
		CHECK(nws != NULL && connects == 1 && env_aio_completed(&uaio) == 0, "the dial is pending on the HTTP connect");
		if (nws != NULL) {
			CHECK(nws->recvmax == d.recvmax && nws->maxframe == d.maxframe && nws->fragsize == d.fragsize,
			    "C11: the dialed connection's frame decoder runs with exactly the limits configured on the dialer (RECVMAXSZ, max frame sizes)");
			CHECK(nws->isstream == d.isstream && nws->recv_text == d.recv_text && nws->send_text == d.send_text && !nws->server, "and with the dialer's mode");
			WITNESS("dial started");
			/* tidy up: abort the attempt */
			nni_aio_abort(&uaio, NNG_ECANCELED);
			(void) env_run_callbacks();
			CHECK(env_aio_completed(&uaio) == 1 && nni_aio_result(&uaio) == NNG_ECANCELED, "a cancelled dial completes once with the cancel code");
		}
	}
#else
	static nni_ws_dialer d;
	static nni_ws        ws;
	nni_mtx_init(&d.mtx);
	nni_cv_init(&d.cv, &d.mtx);
	NNI_LIST_INIT(&d.wspend, nni_ws, node);
	d.proto = LPROTO ? lproto : NULL;
	nni_mtx_init(&ws.mtx);
	NNI_LIST_INIT(&ws.rxq, ws_frame, node);
	NNI_LIST_INIT(&ws.txq, ws_frame, node);
	nni_aio_list_init(&ws.sendq);
	nni_aio_list_init(&ws.recvq);
	nni_aio_init(&ws.closeaio, NULL, NULL);
	nni_aio_init(&ws.txaio, NULL, NULL);
	nni_aio_init(&ws.rxaio, NULL, NULL);
	nni_aio_init(&ws.httpaio, NULL, NULL);
	ws.http     = conn;
	ws.dialer   = &d;
	ws.useraio  = &uaio;
	ws.recv_res = true; /* second step: the response has been read */
	memcpy(ws.keybuf, "dGhlIHNhbXBsZSBub25jZQ==", 25);
	nni_list_append(&d.wspend, &ws);
	{
		int sv = ND(vint);
		ASSUME(sv >= 0 && sv < 5);
		static const nng_http_status st[5] = { NNG_HTTP_STATUS_SWITCHING, NNG_HTTP_STATUS_OK, NNG_HTTP_STATUS_BAD_REQUEST, NNG_HTTP_STATUS_FORBIDDEN, NNG_HTTP_STATUS_NOT_FOUND };
		status_now    = st[sv];
		var[F_VERSION] = sv == 0; /* reused as "status good" */
	}
	choose(F_ACCEPT, 1);
	choose(F_CONN, 1);
	choose(F_UPGRADE, 1);
	choose(F_PROTO, 1);
	int good = var[F_VERSION] == 1 && var[F_ACCEPT] == 1 && var[F_CONN] == 1 && var[F_UPGRADE] == 1 && (!LPROTO || var[F_PROTO] == 1);
	env_aio_submit(&uaio);
	ws.httpaio.a_result = 0;
	ws_http_cb_dialer(&ws, &ws.httpaio);
	(void) env_run_callbacks();
	CHECK(env_aio_completed(&uaio) == 1, "the dial completes exactly once");
	if (good) {
		CHECK(nni_aio_result(&uaio) == 0 && nni_aio_get_output(&uaio, 0) == (void *) &ws && ws.ready, "a correct 101 response for our protocol yields the websocket");
		CHECK(reaped == 0, "the websocket is kept");
		WITNESS("upgraded");
	} else {
		CHECK(nni_aio_result(&uaio) != 0, "a response that misses a requirement fails the dial");
		CHECK(!ws.ready && reaped == 1, "the websocket is discarded, never handed to the application");
		if (LPROTO && var[F_PROTO] != 1 && var[F_VERSION] == 1 && var[F_ACCEPT] == 1 && var[F_CONN] == 1 && var[F_UPGRADE] == 1)
			WITNESS("refused only because the server did not confirm our SP protocol");
		WITNESS("refused");
	}
	CHECK(nni_list_first(&d.wspend) == NULL, "the dialer forgets the attempt either way");
#endif
	CHECK(env_locks_held == 0, "no lock held");
	WITNESS("end");
}

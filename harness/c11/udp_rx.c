/* C11: the receive path of the real sp/transport/udp/udp.c for one arriving datagram:
 * udp_rx_cb -> udp_recv_data / udp_recv_disc / (unknown opcode) -> udp_start_rx, with
 * udp_find_pipe, udp_send_disc, udp_queue_tx, udp_start_tx behind them.
 *
 * An endpoint with one established pipe (peer address A) is receiving.  One datagram of NB bytes
 * (concrete size; every byte symbolic: version, opcode class OP, type, the 16-bit length field,
 * payload) arrives from A (FROM=0) or from an unknown address (FROM=1).
 *   DATA: the payload is delivered iff version == 1, the datagram carries a full header, it comes
 *         from the established peer and its length field does not exceed what the datagram really
 *         carries nor the negotiated maximum.  The delivered message has exactly `length` bytes,
 *         equal to the first bytes of the payload (nothing from the receive buffer beyond the
 *         datagram can leak into it).  A length field that claims more than was received, or more
 *         than the maximum, delivers nothing and answers the peer with DISC(message size).
 *   DISC: the named pipe is closed and its pending receives fail with ECLOSED; other pipes untouched.
 *   unknown opcode: answered with DISC(protocol error), nothing delivered.
 *   short datagrams / wrong version: ignored.
 * In every case the endpoint posts its next receive with a full-size buffer and holds no lock:
 * one bad datagram never wedges the endpoint.  WAITER: a receive is already pending on the pipe.
 */
#include "proto_kit.h"
struct nng_udp {
	int dummy;
};
static struct nng_udp the_udp;
static nni_aio       *udp_rx_posted, *udp_tx_posted;
static int            udp_rx_calls, udp_tx_calls;
static size_t         udp_rx_buflen;
static u8            *udp_rx_buf;
static void
udp_rx_cancel_(nni_aio *aio, void *arg, nng_err rv)
{
	(void) arg;
	if (udp_rx_posted == aio) {
		udp_rx_posted = NULL;
		nni_aio_finish_error(aio, rv);
	}
}
static void
udp_tx_cancel_(nni_aio *aio, void *arg, nng_err rv)
{
	(void) arg;
	if (udp_tx_posted == aio) {
		udp_tx_posted = NULL;
		nni_aio_finish_error(aio, rv);
	}
}
void
nng_udp_recv(nng_udp *u, nng_aio *aio)
{
	unsigned n;
	nni_iov *iov;
	(void) u;
	nni_aio_reset(aio);
	if (!nni_aio_start(aio, udp_rx_cancel_, NULL))
		return;
	nni_aio_get_iov(aio, &n, &iov);
	CHECK(n == 1, "the endpoint receives a datagram into one buffer");
	udp_rx_buf    = iov[0].iov_buf;
	udp_rx_buflen = iov[0].iov_len;
	udp_rx_posted = aio;
	udp_rx_calls++;
}
void
nng_udp_send(nng_udp *u, nng_aio *aio)
{
	(void) u;
	nni_aio_reset(aio);
	if (!nni_aio_start(aio, udp_tx_cancel_, NULL))
		return;
	udp_tx_posted = aio;
	udp_tx_calls++;
}
/* udp.c uses the public message wrappers; src/nng.c defines them as these forwarding calls */
int
nng_msg_alloc(nng_msg **mp, size_t sz)
{
	return (nni_msg_alloc(mp, sz));
}
size_t
nng_msg_len(const nng_msg *m)
{
	return (nni_msg_len(m));
}
int
nng_msg_chop(nng_msg *m, size_t n)
{
	return (nni_msg_chop(m, n));
}
size_t
nng_aio_count(nng_aio *aio)
{
	return (nni_aio_count(aio));
}

#include "env_printf.h"
#include "core/sockaddr.c" /* nng_sockaddr_hash / nng_sockaddr_equal / nng_str_sockaddr (log arguments) with the snprintf model */
#include "sp/transport/udp/udp.c"

#ifndef NB
#define NB 12
#endif
#ifndef OP
#define OP 0
#endif
#ifndef FROM
#define FROM 0
#endif
#ifndef RCVMAX
#define RCVMAX 8
#endif
#ifndef COPYMAX
#define COPYMAX 2
#endif

static udp_ep     ep;
static udp_pipe   pp;
static udp_txdesc descs[4];
static nni_aio    waiter;

void
harness(void)
{
	static const udp_ep   ez;
	static const udp_pipe pz;
	nng_sockaddr          A, B;
	ep = ez;
	pp = pz;
	memset(&A, 0, sizeof(A));
	memset(&B, 0, sizeof(B));
	A.s_in.sa_family = NNG_AF_INET;
	A.s_in.sa_addr   = 0x0100007f;
	A.s_in.sa_port   = 0x3412;
	B                = A;
	B.s_in.sa_port   = 0x3512;

	nni_mtx_init(&ep.mtx);
	ep.udp     = &the_udp;
	ep.proto   = 0x10;
	ep.peer    = 0x10;
	ep.started = true;
	ep.rcvmax  = RCVMAX;
	ep.copymax = COPYMAX;
	ep.refresh = 5000;
	nni_id_map_init(&ep.pipes, 1, 0xFFFFFFFF, true);
	NNI_LIST_INIT(&ep.connpipes, udp_pipe, node);
	nni_aio_list_init(&ep.connaios);
	nni_aio_init(&ep.rx_aio, udp_rx_cb, &ep);
	nni_aio_init(&ep.tx_aio, udp_tx_cb, &ep);
	nni_aio_init(&ep.timeaio, udp_timer_cb, &ep);
	nni_aio_completions_init(&ep.complq);
	ep.tx_ring.descs = descs;
	ep.tx_ring.size  = 4;
	ep.next_wake     = NNI_TIME_NEVER;
	CHECK(nni_msg_alloc(&ep.rx_payload, ep.rcvmax) == 0, "receive buffer");

	env_pipe_init(&kpipe[0], 100, 0x10);
#ifdef UNFINISHED
	/* C20: core/pipe.c pipe_create could not complete a pipe after the transport's p_init had run (its id or the protocol's
	 * per-pipe state could not be allocated): the reaper runs p_close, p_stop, p_fini on a pipe that belongs to no endpoint */
	{
		static udp_pipe up;
		CHECK(udp_pipe_init(&up, &kpipe[0]) == 0, "pipe_init");
		udp_pipe_close(&up);
		udp_pipe_stop(&up);
		udp_pipe_fini(&up);
		CHECK(env_locks_held == 0, "no lock held");
		WITNESS("unfinished pipe reaped");
		WITNESS("end");
		return;
	}
#endif
	CHECK(udp_pipe_init(&pp, &kpipe[0]) == 0, "pipe_init");
	CHECK(udp_pipe_start(&pp, &ep, &A) == 0, "pipe registered under its peer address");
	pp.state = PIPE_CONN_DONE;
#ifdef WAITER
	nni_aio_init(&waiter, NULL, NULL);
	nni_aio_set_timeout(&waiter, NNG_DURATION_INFINITE);
	env_aio_submit(&waiter);
	udp_pipe_recv(&pp, &waiter);
#endif
	nni_mtx_lock(&ep.mtx);
	udp_start_rx(&ep);
	nni_mtx_unlock(&ep.mtx);
	CHECK(udp_rx_calls == 1 && udp_rx_buflen == RCVMAX + sizeof(udp_sp_msg), "the receive buffer takes a header and a maximum-size payload");

	/* ---- the datagram ---- */
	u8  dg[RCVMAX + 8];
	u8  copy[RCVMAX + 8];
	for (int i = 0; i < RCVMAX + 8; i++)
		dg[i] = ND(u8);
	dg[1] = OP; /* opcode class concrete: it selects the handler */
	for (int i = 0; i < RCVMAX + 8; i++)
		copy[i] = dg[i];
	/* what arrived is NB bytes; the rest of the receive buffer keeps stale bytes of earlier datagrams */
	for (size_t i = 0; i < RCVMAX + 8; i++)
		udp_rx_buf[i] = i < NB ? dg[i] : (u8) 0xEE;
	ep.rx_sa = FROM ? B : A;
	u8  ver  = copy[0];
	u16 ulen = (u16) (copy[4] | (copy[5] << 8));
	int live0 = env_msg_live;
#ifdef FAILMSG
	env_msg_fail_at = env_msg_allocs; /* C20: the message for the payload cannot be allocated */
#endif
	nni_aio *ra = udp_rx_posted;
	udp_rx_posted = NULL;
	nni_aio_finish(ra, 0, NB);
	kquiesce();

	int wellformed = (NB >= 8) && ver == 1;
	size_t carried = NB >= 8 ? NB - 8 : 0;
#if OP == 0
	int accept = wellformed && !FROM && ulen <= carried && ulen <= RCVMAX;
#ifdef FAILMSG
	if (accept) {
		/* best-effort loss of that one message: nothing delivered, nothing leaked, the connection and the endpoint carry on */
		CHECK(env_msg_failed, "harness: the allocation was attempted");
		CHECK(nni_lmq_len(&pp.rx_mq) == 0 && env_msg_live == live0, "the datagram whose message could not be allocated is dropped without a leak");
		CHECK(!pp.closed && !kpipe[0].closed, "the connection stays up");
		CHECK(ep.rx_payload != NULL && nni_msg_len(ep.rx_payload) <= RCVMAX, "the endpoint keeps a usable receive buffer");
		WITNESS("allocation failure");
	} else
#endif
	if (accept) {
		nni_msg *m = NULL;
#ifdef WAITER
		CHECK(env_aio_completed(&waiter) == 1 && nni_aio_result(&waiter) == 0, "a valid datagram completes the waiting receive");
		m = nni_aio_get_msg(&waiter);
#else
		CHECK(nni_lmq_len(&pp.rx_mq) == 1, "a valid datagram is queued for the pipe");
		nni_lmq_get(&pp.rx_mq, &m);
#endif
		CHECK(m != NULL && nni_msg_len(m) == ulen, "the delivered message has exactly the announced length");
		size_t j = ND(usz);
		ASSUME(j < ulen && j < RCVMAX);
		CHECK(((u8 *) nni_msg_body(m))[j] == copy[8 + j], "the delivered bytes are the bytes the datagram carried (no stale buffer contents)");
		CHECK(!kpipe[0].closed && !pp.closed, "a valid datagram keeps the connection");
		WITNESS("delivered");
	} else {
#ifdef WAITER
		CHECK(env_aio_completed(&waiter) == 0 || (nni_aio_result(&waiter) != 0 && nni_aio_get_msg(&waiter) == NULL), "an invalid datagram never completes a receive with a message");
#endif
		CHECK(nni_lmq_len(&pp.rx_mq) == 0, "an invalid datagram is never delivered");
		CHECK(env_msg_live == live0, "and allocates nothing");
		if (wellformed && !FROM) {
			/* the length field lies: more than the datagram carries, or more than the agreed maximum */
			CHECK(ep.tx_ring.count == 1 && descs[0].header.us_op_code == OPCODE_DISC && descs[0].header.us_reason == DISC_MSGSIZE,
			    "a length field beyond the datagram or the maximum is answered with DISC(message size)");
			CHECK(pp.closed && kpipe[0].closed, "and that connection (only) is dropped");
#ifdef WAITER
			CHECK(env_aio_completed(&waiter) == 1 && nni_aio_result(&waiter) == NNG_ECLOSED, "its pending receive fails with ECLOSED");
#endif
			WITNESS("lying length refused");
		} else {
			CHECK(ep.tx_ring.count == 0, "datagrams from strangers, short ones and foreign versions are ignored silently");
			CHECK(!pp.closed && !kpipe[0].closed, "and disturb no connection");
#ifdef WAITER
			CHECK(env_aio_completed(&waiter) == 0, "a pending receive keeps waiting");
#endif
			WITNESS("ignored");
		}
	}
#elif OP == 3
	if (wellformed && !FROM) {
		CHECK(pp.closed && kpipe[0].closed, "DISC from the peer closes its pipe");
#ifdef WAITER
		CHECK(env_aio_completed(&waiter) == 1 && nni_aio_result(&waiter) == NNG_ECLOSED, "its pending receive fails with ECLOSED");
#endif
		WITNESS("disconnected by peer");
	} else {
		CHECK(!pp.closed && !kpipe[0].closed, "a DISC that does not come from the peer closes nothing");
		WITNESS("foreign DISC ignored");
	}
#else
	CHECK(nni_lmq_len(&pp.rx_mq) == 0 && !pp.closed, "an unknown opcode delivers nothing and closes nothing");
	if (wellformed) {
		CHECK(ep.tx_ring.count == 1 && descs[0].header.us_op_code == OPCODE_DISC && descs[0].header.us_reason == DISC_PROTO, "an unknown opcode is answered with DISC(protocol error)");
		WITNESS("unknown opcode refused");
	}
#endif
	CHECK(udp_rx_calls == 2 && udp_rx_posted == &ep.rx_aio, "the endpoint posts its next receive whatever the datagram was");
	CHECK(udp_rx_buflen == RCVMAX + sizeof(udp_sp_msg), "the next receive again has room for a header and a maximum-size payload");
	CHECK(env_locks_held == 0, "no lock held");
	WITNESS("end");
}

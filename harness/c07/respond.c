/* C04 / C11 / C13 (+C03, C10, C15 monitors): RESPONDENT over the real survey0/respond.c (same harness text as rep.c with names swapped).
 * events: A(p) attach
 *         Q(p,nh) a request arrives on pipe p: nh hop words (symbolic, request
 *                 bit clear) + one id word (symbolic, request bit set) + 2 body bytes
 *         QB(p,k) malformed request: k=0 no terminator within ttl hops (9 hop words)
 *                 k=1 body ends before a terminator (one hop word + 2 bytes)
 *         R(i,b) receive  S(i,b) send the reply  T(p,ok)  C(p)  Z
 */
#include "proto_kit.h"
#include "sp/protocol/survey0/respond.c"
static resp0_sock sock;
static resp0_pipe pd[MAXP];
static int       sock_closed;
#ifdef XCTX /* the operations go through an explicit context (nng_ctx_open) instead of the socket's embedded one */
static resp0_ctx xctx;
#define CTXP (&xctx)
#else
#define CTXP (&sock.ctx)
#endif
static int       ukind[MAXU], noted[MAXU];
#define MAXQ 4
static u8  qhdr[MAXQ][64];
static int qhlen[MAXQ], qpipe[MAXQ], nq;
static int have_req, req_q; /* the request the socket context last received */
static int replied;

static void
sweep(void)
{
	for (int i = 0; i < MAXU; i++) {
		if (!uaio_used[i] || !KDONE(i) || noted[i])
			continue;
		noted[i] = 1;
		if (ukind[i] == 2 && KRESULT(i) == 0) {
			nni_msg *m = nni_aio_get_msg(&uaio_at(i));
			CHECK(m != NULL && m->tag >= 1 && m->tag <= nq, "a received request is one that arrived from a peer");
			CHECK(nni_msg_header_len(m) == 0, "cooked receive strips the backtrace from the request");
			CHECK(nni_msg_len(m) == 2, "the request body is what followed the backtrace");
			have_req = 1;
			req_q    = m->tag - 1;
			replied  = 0;
			nni_msg_free(m);
			nni_aio_set_msg(&uaio_at(i), NULL);
			WITNESS("request received");
		}
		if (ukind[i] == 1 && KRESULT(i) != 0 && nni_aio_get_msg(&uaio_at(i)) != NULL) {
			CHECK(nni_aio_get_msg(&uaio_at(i)) == umsg[i], "C03: failed send leaves the reply with the caller");
			nni_msg_free(umsg[i]);
			nni_aio_set_msg(&uaio_at(i), NULL);
		}
	}
}
static void
monitor(void)
{
	kquiesce();
	sweep();
	for (int i = 0; i < MAXU; i++)
		if (uaio_used[i])
			CHECK(env_aio_completed(&uaio_at(i)) <= 1, "operation completes at most once");
	if (!sock_closed)
		CHECK(nni_atomic_get_bool(&sock.readable.p_raised) == !nni_list_empty(&sock.recvpipes), "C15: receive poll state mirrors whether a request is waiting");
}
static void
ev_attach(int p)
{
	KNEED(!kpipe_up[p] && !sock_closed);
	if (kstop)
		return;
	env_pipe_init(&kpipe[p], 100 + p, NNI_PROTO_SURVEYOR_V0);
	{
		static const __typeof__(pd[0]) pd_zero;
		pd[p] = pd_zero; /* struct assignment keeps field sensitivity, memset does not */
	}
	CHECK(resp0_pipe_init(&pd[p], &kpipe[p], &sock) == 0, "pipe_init");
	kpipe_up[p] = 1;
	CHECK(resp0_pipe_start(&pd[p]) == 0, "pipe_start accepts a SURVEYOR peer");
	monitor();
}
static void
ev_request(int p, int nh)
{
	KNEED(kpipe_up[p] && kpipe[p].recv_aio != NULL && nq < MAXQ);
	if (kstop)
		return;
	nni_msg *m;
	size_t   n = (size_t) (nh + 1) * 4 + 2;
	nni_msg_alloc(&m, n);
	u8 *b = nni_msg_body(m);
	for (size_t k = 0; k < n; k++)
		b[k] = ND(u8);
	/* the byte carrying the request bit is concrete (it decides the shape of
	 * the backtrace); the other 3 bytes of every word are symbolic */
	for (int h = 0; h < nh; h++)
		b[4 * h] = 0x01;
	b[4 * nh] = 0x81;
	for (size_t k = 0; k < (size_t) (nh + 1) * 4; k++)
		qhdr[nq][k] = b[k];
	qhlen[nq] = (nh + 1) * 4;
	qpipe[nq] = p;
	nq++;
	m->tag = nq;
	int served0 = 0;
	for (int i = 0; i < MAXU; i++)
		if (uaio_used[i] && ukind[i] == 2 && env_aio_completed(&uaio_at(i)) > 0 && nni_aio_result(&uaio_at(i)) == 0)
			served0++;
	env_pipe_recv_done(&kpipe[p], m, 0);
	kquiesce();
	CHECK(!kpipe[p].closed, "a well-formed request does not disconnect its sender");
	{
		/* within the hop limit (MAXTTL 8: at most 8 backtrace words) it is offered to the application: it completes a
		 * waiting receive or waits, with its connection, for the next one */
		int served1 = 0;
		for (int i = 0; i < MAXU; i++)
			if (uaio_used[i] && ukind[i] == 2 && env_aio_completed(&uaio_at(i)) > 0 && nni_aio_result(&uaio_at(i)) == 0)
				served1++;
		CHECK(nni_list_active(&sock.recvpipes, &pd[p]) || served1 == served0 + 1, "a well-formed request within the hop limit is accepted: it is handed to a waiting receiver or kept for the next receive");
	}
	monitor();
	WITNESS("request arrived");
}
/* G(p,nh): the state resp0_ctx_recv leaves behind for a request with nh hops
 * that arrived on pipe p, constructed directly (the receive step itself is
 * checked by the Q/R skeletons): the inductive interface is
 * (ctx->btrace, ctx->btrace_len, ctx->pipe_id). */
static void
ev_got(int p, int nh)
{
	KNEED(kpipe_up[p] && nq < MAXQ && !sock_closed);
	if (kstop)
		return;
	int n = (nh + 1) * 4;
	for (int k = 0; k < n; k++) {
		qhdr[nq][k]                     = ND(u8);
		((u8 *) CTXP->btrace)[k] = qhdr[nq][k];
	}
	CTXP->btrace_len = (size_t) n;
	CTXP->pipe_id    = kpipe[p].id;
	qhlen[nq]           = n;
	qpipe[nq]           = p;
	nq++;
	have_req = 1;
	req_q    = nq - 1;
	replied  = 0;
}
static void
ev_badrequest(int p, int k)
{
	KNEED(kpipe_up[p] && kpipe[p].recv_aio != NULL);
	if (kstop)
		return;
	nni_msg *m;
	int      live0 = env_msg_live;
	if (k == 0 || k == 2) {
		nni_msg_alloc(&m, 9 * 4 + 2);
		u8 *b = nni_msg_body(m);
		for (size_t j = 0; j < 9 * 4 + 2; j++)
			b[j] = ND(u8);
		for (int h = 0; h < 9; h++)
			b[4 * h] = 0x01; /* more hops than ttl (8), no terminator in reach */
		if (k == 2)
			b[4 * 8] = 0x81; /* well formed, but its terminator is the 9th word: exactly one hop more than MAXTTL (8) allows */
	} else {
		nni_msg_alloc(&m, 6);
		u8 *b = nni_msg_body(m);
		for (size_t j = 0; j < 6; j++)
			b[j] = ND(u8);
		b[0] = 0x01;
	}
	int nrecvp = !nni_list_empty(&sock.recvpipes);
	env_pipe_recv_done(&kpipe[p], m, 0);
	kquiesce();
	sweep();
	CHECK(env_msg_live == live0, "C11: a malformed request is freed exactly once");
	CHECK((!nni_list_empty(&sock.recvpipes)) == nrecvp, "C11: a malformed request is never offered to the application");
	if (k == 0 || k == 2) {
		CHECK(!kpipe[p].closed && kpipe[p].recv_aio != NULL, "C13: a request with more hops than MAXTTL is dropped without disconnecting");
		WITNESS("too many hops dropped");
	} else {
		CHECK(kpipe[p].closed, "C11: a request whose backtrace is cut short disconnects its sender");
		WITNESS("truncated backtrace");
	}
	monitor();
}
static void
ev_recv(int i, int blocking)
{
	KNEED(!uaio_used[i] && !sock_closed);
	if (kstop)
		return;
	int can  = !nni_list_empty(&sock.recvpipes);
	int busy = CTXP->raio != NULL;
	kuaio_prepare(i, blocking);
	ukind[i] = 2;
	env_aio_submit(&uaio_at(i));
	resp0_ctx_recv(CTXP, &uaio_at(i));
	if (can)
		CHECK(KDONE(i) && KRESULT(i) == 0, "C15: receive succeeds at once when a request is waiting");
	else if (!blocking)
		CHECK(KDONE(i) && KRESULT(i) == NNG_ETIMEDOUT, "C15: non-blocking receive with nothing waiting fails at once");
	else if (busy) {
		CHECK(KDONE(i) && KRESULT(i) == NNG_ESTATE, "a second concurrent receive fails with ESTATE");
		WITNESS("second receive refused");
	} else
		CHECK(!KDONE(i), "blocking receive waits");
	monitor();
}
static void
ev_send(int i, int blocking)
{
	KNEED(!uaio_used[i] && !sock_closed);
	if (kstop)
		return;
	int   pending = have_req && !replied;
	int   q       = req_q;
	int   sends0[MAXP];
	for (int p = 0; p < MAXP; p++)
		sends0[p] = kpipe[p].sends;
	kuaio_prepare(i, blocking);
	ukind[i] = 1;
	umsg[i]  = kmsg(2);
	umsg[i]->tag = 77 + i;
	nni_aio_set_msg(&uaio_at(i), umsg[i]);
	env_aio_submit(&uaio_at(i));
	resp0_ctx_send(CTXP, &uaio_at(i));
	kquiesce();
#ifdef KF_RESP_NONBLOCK_EAGAIN
	/* known finding F7 excluded: resp0_ctx_send starts the aio first, so a
	 * non-blocking reply is refused with NNG_ETIMEDOUT (-> NNG_EAGAIN) in every
	 * state.  With the finding excluded the refusal must at least be clean:
	 * nothing sent, reply left with the caller, the pending survey still
	 * answerable. */
	if (!blocking) {
		CHECK(KDONE(i) && KRESULT(i) == NNG_ETIMEDOUT, "known finding F7: non-blocking respondent send reports EAGAIN");
		for (int p = 0; p < MAXP; p++)
			CHECK(kpipe[p].sends == sends0[p], "a refused reply is not sent anywhere");
		CHECK(nni_aio_get_msg(&uaio_at(i)) == umsg[i], "C03: failed send leaves the reply with the caller");
		monitor();
		return;
	}
#endif
	if (!pending) {
		CHECK(KDONE(i) && KRESULT(i) == NNG_ESTATE, "send without a request to answer (or a second reply) fails with ESTATE");
		for (int p = 0; p < MAXP; p++)
			CHECK(kpipe[p].sends == sends0[p], "a refused reply is not sent anywhere");
		WITNESS("send refused");
	} else {
		replied  = 1;
		int origin = qpipe[q];
		for (int p = 0; p < MAXP; p++)
			if (p != origin)
				CHECK(kpipe[p].sends == sends0[p], "a reply is sent only to the connection its request came from");
		if (kpipe_up[origin] && !pd[origin].closed) {
			if (kpipe[origin].wire_msg != NULL && kpipe[origin].wire_msg->tag == 77 + i) {
				nni_msg *w = kpipe[origin].wire_msg;
				CHECK(nni_msg_header_len(w) == (size_t) qhlen[q], "reply carries a backtrace of the request's length");
				size_t j = ND(usz);
				ASSUME(j < (size_t) qhlen[q]);
				CHECK(((u8 *) nni_msg_header(w))[j] == qhdr[q][j], "reply carries exactly the backtrace of the request it answers");
				WITNESS("reply on the wire");
			}
		} else {
			CHECK(KDONE(i) && KRESULT(i) == 0, "reply to a vanished requester is accepted and discarded");
		}
	}
	monitor();
}
static void
ev_txdone(int p, int ok)
{
	KNEED(kpipe_up[p] && kpipe[p].send_aio != NULL);
	if (kstop)
		return;
	env_pipe_send_done(&kpipe[p], ok ? 0 : NNG_ECONNRESET);
	monitor();
}
static void
ev_pipe_lost(int p)
{
	KNEED(kpipe_up[p]);
	if (kstop)
		return;
	resp0_pipe_close(&pd[p]);
	kquiesce();
	resp0_pipe_stop(&pd[p]);
	resp0_pipe_fini(&pd[p]);
	kpipe_up[p] = 0;
	monitor();
}
static void
ev_close(void)
{
	KNEED(!sock_closed);
	if (kstop)
		return;
	for (int p = 0; p < MAXP; p++)
		if (kpipe_up[p])
			resp0_pipe_close(&pd[p]);
	resp0_sock_close(&sock);
	sock_closed = 1;
	kquiesce();
	for (int p = 0; p < MAXP; p++)
		if (kpipe_up[p]) {
			resp0_pipe_stop(&pd[p]);
			resp0_pipe_fini(&pd[p]);
			kpipe_up[p] = 0;
		}
	kquiesce();
	sweep();
	for (int i = 0; i < MAXU; i++)
		if (uaio_used[i])
			CHECK(KDONE(i), "C10: close completes every pending operation");
#ifdef XCTX
	resp0_ctx_fini(&xctx);
#endif
	resp0_sock_fini(&sock);
	CHECK(env_msg_live == 0, "C03: after close and fini every message has been released exactly once");
	WITNESS("closed");
}
#define A(p) if (!kstop) ev_attach(p);
#define Q(p, nh) if (!kstop) ev_request(p, nh);
#define QB(p, k) if (!kstop) ev_badrequest(p, k);
#define G(p, nh) if (!kstop) ev_got(p, nh);
#define R(i, b) if (!kstop) ev_recv(i, b);
#define S(i, b) if (!kstop) ev_send(i, b);
#define T(p, ok) if (!kstop) ev_txdone(p, ok);
#define C(p) if (!kstop) ev_pipe_lost(p);
#define Z if (!kstop) ev_close();
#ifndef SKEL
#define SKEL A(0) Q(0, 1) R(0, 0) S(1, 0) Z
#endif
void
harness(void)
{
	resp0_sock_init(&sock, NULL);
#ifdef XCTX
	resp0_ctx_init(&xctx, &sock);
#endif
	monitor();
	SKEL
	if (!kstop)
		WITNESS("skeleton ran to its end");
#ifdef MUSTEND
	/* a curated skeleton whose every event is applicable on the library as it should be: an event that finds nothing to act
	 * on (e.g. no transfer outstanding because a message vanished) is a failure, not the end of the skeleton */
	CHECK(!kstop, "every event of the skeleton found the library in the state the previous events must have left it in");
#endif
	WITNESS("end");
}

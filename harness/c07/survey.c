/* C07 (+C03, C10, C15 monitors): SURVEYOR over the real survey0/survey.c,
 * socket context (c=0) + optional extra context (c=1, -DTWOCTX).
 * events: A(p)  V(c,i) ctx c sends a survey (user aio i; survey time SURVTIME ms)
 *         R(c,i,b) receive (b=1 waits with the aio's own timeout TMO: symbolic,
 *                  any value incl. infinite/default/zero classes)
 *         Y(p,k) response arrives: k=0/1 current survey id of ctx k, k=2 other id,
 *                k=4 short, k=5/6 previous survey id of ctx 0/1
 *         K(d) clock += d ms    E(i) the expiry thread fires for receive i
 *         X(i) cancel   T(p,ok)   C(p)   Z
 */
#include "proto_kit.h"
#include "sp/protocol/survey0/survey.c"
#define NCTX 2
static surv0_sock sock;
static surv0_ctx  xctx;
static surv0_pipe pd[MAXP];
static surv0_ctx *ctxs[NCTX];
static int        have_x, sock_closed;
static int        gen[NCTX];
static u32        cur_id[NCTX], prev_id[NCTX];
static nni_time   deadline[NCTX];
static int        uctx[MAXU], ukind[MAXU], noted[MAXU];
static nni_time   recv_issued_at[MAXU];
static int        recv_gen[MAXU];

static void
sweep(void)
{
	for (int i = 0; i < MAXU; i++) {
		if (!uaio_used[i] || !KDONE(i) || noted[i])
			continue;
		noted[i] = 1;
		int c    = uctx[i];
		if (ukind[i] == 2 && KRESULT(i) == 0) {
			nni_msg *m = nni_aio_get_msg(&uaio_at(i));
			CHECK(m != NULL, "successful receive carries a response");
			CHECK(m->tag / 100 == c + 1, "a response is delivered only to the context whose survey it answers");
			CHECK(m->tag % 100 == recv_gen[i] && recv_gen[i] == gen[c], "a response is delivered only for the context's most recent survey");
			CHECK(recv_issued_at[i] < deadline[c], "a response is received only by a receive issued before the survey's deadline");
			nni_msg_free(m);
			nni_aio_set_msg(&uaio_at(i), NULL);
			WITNESS("response delivered");
		}
		if (ukind[i] == 1 && KRESULT(i) != 0 && nni_aio_get_msg(&uaio_at(i)) != NULL) {
			nni_msg_free(nni_aio_get_msg(&uaio_at(i)));
			nni_aio_set_msg(&uaio_at(i), NULL);
		}
	}
}
static void
monitor(void)
{
	kquiesce();
	sweep();
	for (int i = 0; i < MAXU; i++) {
		if (!uaio_used[i])
			continue;
		CHECK(env_aio_completed(&uaio_at(i)) <= 1, "operation completes at most once");
		if (ukind[i] == 2 && !KDONE(i)) {
			/* a waiting receive never outlives its survey */
			CHECK(uaio_at(i).a_expire <= deadline[uctx[i]], "a pending receive expires no later than the survey deadline");
		}
	}
	if (!sock_closed)
		CHECK(nni_atomic_get_bool(&sock.readable.p_raised) == !nni_lmq_empty(&sock.ctx.recv_lmq), "C15: receive poll state mirrors whether a response is buffered");
}
static void
ev_attach(int p)
{
	KNEED(!kpipe_up[p] && !sock_closed);
	if (kstop)
		return;
	env_pipe_init(&kpipe[p], 100 + p, SURVEYOR0_PEER);
	{
		static const __typeof__(pd[0]) pd_zero;
		pd[p] = pd_zero; /* struct assignment keeps field sensitivity, memset does not */
	}
	CHECK(surv0_pipe_init(&pd[p], &kpipe[p], &sock) == 0, "pipe_init");
	kpipe_up[p] = 1;
	CHECK(surv0_pipe_start(&pd[p]) == 0, "pipe_start accepts a RESPONDENT peer");
	monitor();
}
static void
ev_survey(int c, int i)
{
	KNEED(!uaio_used[i] && !sock_closed && (c == 0 || have_x));
	if (kstop)
		return;
	int waiting[MAXU];
	for (int j = 0; j < MAXU; j++)
		waiting[j] = uaio_used[j] && ukind[j] == 2 && uctx[j] == c && !KDONE(j);
	kuaio_prepare(i, 0);
	uctx[i]  = c;
	ukind[i] = 1;
	umsg[i]  = kmsg(2);
	nni_aio_set_msg(&uaio_at(i), umsg[i]);
	env_aio_submit(&uaio_at(i));
	int idfail0 = env_idmap_failed;
	surv0_ctx_send(ctxs[c], &uaio_at(i));
	kquiesce();
#ifdef VH_FAULTPASS
	if (env_idmap_failed && !idfail0) {
		SCHECK(KDONE(i) && KRESULT(i) == NNG_ENOMEM, "C20: a survey whose id cannot be allocated fails at once with NNG_ENOMEM");
		SCHECK(nni_aio_get_msg(&uaio_at(i)) == umsg[i], "C20/C03: and the message stays with the caller");
		SCHECK(ctxs[c]->survey_id == 0, "C20: no half-made survey is left in the context");
		WITNESS("survey refused: no id");
	}
#endif
	CHECK(KDONE(i) && KRESULT(i) == 0, "a survey is accepted at once (also when submitted non-blocking)");
	gen[c]++;
	prev_id[c]  = cur_id[c];
	cur_id[c]   = ctxs[c]->survey_id;
	deadline[c] = ctxs[c]->expire;
	CHECK(deadline[c] == env_now + (nni_time) nni_atomic_get(&ctxs[c]->survey_time), "the survey deadline is now + SURVEYTIME");
	CHECK((cur_id[c] & 0x80000000u) != 0 && cur_id[c] != prev_id[c], "C18: a new survey gets a fresh id with the request bit");
	CHECK(nni_lmq_empty(&ctxs[c]->recv_lmq), "a new survey discards responses buffered for the previous one");
	for (int j = 0; j < MAXU; j++)
		if (waiting[j])
			CHECK(KDONE(j) && KRESULT(j) == NNG_ECANCELED, "a new survey cancels receives still waiting on the previous one");
	for (int p = 0; p < MAXP; p++)
		if (kpipe_up[p] && kpipe[p].wire_msg != NULL)
			CHECK(nni_msg_header_len(kpipe[p].wire_msg) == 4, "a survey on the wire carries exactly its id");
	monitor();
}
static void
ev_recv(int c, int i, int blocking)
{
	KNEED(!uaio_used[i] && !sock_closed && (c == 0 || have_x));
	if (kstop)
		return;
	int live = ctxs[c]->survey_id != 0 && env_now < deadline[c];
	int have = !nni_lmq_empty(&ctxs[c]->recv_lmq);
	kuaio_prepare(i, blocking);
	if (blocking == 2) {
		/* RT: any user timeout: infinite, default, or any positive duration
		 * (last event of a skeleton: the timeout decides the aio's state) */
		nng_duration t = ND(i32);
		ASSUME(t == NNG_DURATION_INFINITE || t == NNG_DURATION_DEFAULT || (t >= 1 && t <= 100000000));
		nni_aio_set_timeout(&uaio_at(i), t);
	}
	uctx[i]           = c;
	ukind[i]          = 2;
	recv_issued_at[i] = env_now;
	recv_gen[i]       = gen[c];
	env_aio_submit(&uaio_at(i));
	surv0_ctx_recv(ctxs[c], &uaio_at(i));
	if (!live) {
		CHECK(KDONE(i) && KRESULT(i) == NNG_ESTATE, "receive with no live survey (none sent, or deadline passed) fails with ESTATE");
		WITNESS("receive without live survey refused");
	} else if (have) {
		CHECK(KDONE(i) && KRESULT(i) == 0, "C15: receive succeeds at once when a response is buffered");
	} else if (!blocking) {
		CHECK(KDONE(i) && KRESULT(i) == NNG_ETIMEDOUT, "C15: non-blocking receive with nothing buffered fails at once");
	} else {
		CHECK(!KDONE(i), "blocking receive waits for a response");
		KWAIT_POST(i, c);
		CHECK(uaio_at(i).a_expire <= deadline[c], "the receive's timeout is clamped to the survey deadline for every user timeout");
		CHECK(uaio_at(i).a_expire > env_now, "the receive cannot time out before any time has passed");
		WITNESS("receive waits");
	}
	monitor();
}
static void
ev_response(int p, int k)
{
	KNEED(kpipe_up[p] && kpipe[p].recv_aio != NULL);
	if (kstop)
		return;
	nni_msg *m;
	u32      id;
	int      tag = 0;
	if (k == 4) {
		m = kmsg(3);
		env_pipe_recv_done(&kpipe[p], m, 0);
		kquiesce();
		CHECK(kpipe[p].closed, "C11: a response shorter than its id closes the connection");
		monitor();
		return;
	}
	if (k == 0 || k == 1) {
		KNEED((k == 0 || have_x) && cur_id[k] != 0);
		if (kstop)
			return;
		id = cur_id[k];
		if (ctxs[k]->survey_id == id)
			tag = (k + 1) * 100 + gen[k];
	} else if (k == 5 || k == 6) {
		id = prev_id[k - 5];
		KNEED(id != 0 && id != cur_id[0] && id != cur_id[1]);
		if (kstop)
			return;
	} else if (k == 2) {
		/* a foreign id, concrete per query (a symbolic id makes the looked-up
		 * context pointer symbolic and with it every list test: > 100 s); the
		 * id map itself is checked for every key in C18 */
		id = (cur_id[0] ? cur_id[0] : 0x80000000u) + 7u;
		KNEED(id != cur_id[1]);
		if (kstop)
			return;
	} else {
		id = ND(u32);
		ASSUME(id != cur_id[0] && id != cur_id[1]);
	}
	nni_msg_alloc(&m, 6);
	u8 *b = nni_msg_body(m);
	b[0] = (u8) (id >> 24), b[1] = (u8) (id >> 16), b[2] = (u8) (id >> 8), b[3] = (u8) id;
	b[4] = ND(u8), b[5] = ND(u8);
	m->tag    = tag;
	int live0 = env_msg_live;
	int len0[NCTX];
	for (int c = 0; c < NCTX; c++)
		len0[c] = (int) nni_lmq_len(&ctxs[c]->recv_lmq);
	env_pipe_recv_done(&kpipe[p], m, 0);
	kquiesce();
	CHECK(kpipe[p].recv_aio != NULL, "receive is re-armed after a response");
	if (tag == 0) {
		for (int c = 0; c < NCTX; c++)
			if (c == 0 || have_x)
				CHECK((int) nni_lmq_len(&ctxs[c]->recv_lmq) == len0[c], "a response to no current survey is queued nowhere");
		CHECK(env_msg_live == live0 - 1, "a response to no current survey is discarded");
		WITNESS("response discarded");
	}
	monitor();
}
static void
ev_clock(int d)
{
	env_now += (nni_time) d;
}
static void
ev_expire(int i)
{
	KNEED(uaio_used[i] && ukind[i] == 2 && !KDONE(i) && uaio_at(i).a_expire != NNI_TIME_NEVER && uaio_at(i).a_expire < env_now);
	if (kstop)
		return;
	env_aio_expire(&uaio_at(i));
	kquiesce();
	CHECK(KDONE(i) && KRESULT(i) == NNG_ETIMEDOUT, "a receive still pending at the deadline fails with ETIMEDOUT");
	monitor();
	WITNESS("receive timed out");
}
static void
ev_cancel(int i)
{
	KNEED(uaio_used[i]);
	if (kstop)
		return;
	int was_pending = !KDONE(i);
	(void) KRESULT(i);
	nni_aio_abort(&uaio_at(i), NNG_ECANCELED);
	kquiesce();
	if (was_pending)
		CHECK(KDONE(i) && KRESULT(i) == NNG_ECANCELED, "cancel completes the pending receive with ECANCELED");
	monitor();
}
static void
ev_txdone(int p, int ok)
{
	KNEED(kpipe_up[p] && kpipe[p].send_aio != NULL);
	if (kstop)
		return;
	env_pipe_send_done(&kpipe[p], ok ? 0 : NNG_ECONNRESET);
	monitor();
}
static void
ev_pipe_lost(int p)
{
	KNEED(kpipe_up[p]);
	if (kstop)
		return;
	surv0_pipe_close(&pd[p]);
	kquiesce();
	surv0_pipe_stop(&pd[p]);
	surv0_pipe_fini(&pd[p]);
	kpipe_up[p] = 0;
	monitor();
}
static void
ev_close(void)
{
	KNEED(!sock_closed);
	if (kstop)
		return;
	for (int p = 0; p < MAXP; p++)
		if (kpipe_up[p])
			surv0_pipe_close(&pd[p]);
	surv0_sock_close(&sock);
	if (have_x)
		surv0_ctx_close(&xctx);
	sock_closed = 1;
	kquiesce();
	for (int p = 0; p < MAXP; p++)
		if (kpipe_up[p]) {
			surv0_pipe_stop(&pd[p]);
			surv0_pipe_fini(&pd[p]);
			kpipe_up[p] = 0;
		}
	kquiesce();
	sweep();
	for (int i = 0; i < MAXU; i++)
		if (uaio_used[i])
			CHECK(KDONE(i), "C10: close completes every pending operation");
	if (have_x)
		surv0_ctx_fini(&xctx);
	surv0_sock_fini(&sock);
	CHECK(env_msg_live == 0, "C03: after close and fini every message has been released exactly once");
	WITNESS("closed");
}
#define A(p) if (!kstop) ev_attach(p);
#define V(c, i) if (!kstop) ev_survey(c, i);
#define R(c, i, b) if (!kstop) ev_recv(c, i, b);
#define RT(c, i) if (!kstop) ev_recv(c, i, 2);
#define Y(p, k) if (!kstop) ev_response(p, k);
#define K(d) if (!kstop) ev_clock(d);
#define E(i) if (!kstop) ev_expire(i);
#define X(i) if (!kstop) ev_cancel(i);
#define T(p, ok) if (!kstop) ev_txdone(p, ok);
#define C(p) if (!kstop) ev_pipe_lost(p);
#define Z if (!kstop) ev_close();
#ifndef SKEL
#define SKEL A(0) V(0, 0) T(0, 1) Y(0, 0) R(0, 1, 0) Z
#endif
void
harness(void)
{
	surv0_sock_init(&sock, NULL);
	/* the default response buffer (128 slots, uninitialised heap array) is
	 * replaced by a 2-slot one: its depth is not the subject here (C18) */
	nni_lmq_resize(&sock.ctx.recv_lmq, 2);
	nni_atomic_set(&sock.ctx.recv_buf, 2);
	ctxs[0] = &sock.ctx;
	ctxs[1] = &xctx;
#ifdef TWOCTX
	surv0_ctx_init(&xctx, &sock);
	have_x = 1;
#endif
	monitor();
	SKEL
	if (!kstop)
		WITNESS("skeleton ran to its end");
#ifdef MUSTEND
	/* a curated skeleton whose every event is applicable on the library as it should be: an event that finds nothing to act
	 * on (e.g. no transfer outstanding because a message vanished) is a failure, not the end of the skeleton */
	CHECK(!kstop, "every event of the skeleton found the library in the state the previous events must have left it in");
#endif
	WITNESS("end");
}

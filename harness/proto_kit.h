/* proto_kit.h - shared vocabulary of the protocol skeleton harnesses.
 * A skeleton is a concrete word of events (-DSKEL="A(0) S(0,1) T(0,1) ...");
 * everything that is not shape (message bytes, ids, results, option values,
 * clock) is symbolic.  After every event the library is driven to quiescence
 * (queued callbacks run) and the per-property monitor of the harness runs. */
#ifndef PROTO_KIT_H
#define PROTO_KIT_H
#include "env_pipe.h"
extern int env_locks_held, env_alloc_live;
extern int env_msg_live;

#ifndef MAXP
#define MAXP 2
#endif
#ifndef MAXU
#define MAXU 4
#endif

static nni_pipe kpipe[MAXP];
static int      kpipe_up[MAXP]; /* attached and not yet torn down */
/* user aios are separate objects (not an array): a write through a pointer that
 * list.c derived by arithmetic then clobbers one aio, not all of them */
static nni_aio  uaio_a, uaio_b, uaio_c, uaio_d;
#define uaio_at(i) (*((i) == 0 ? &uaio_a : (i) == 1 ? &uaio_b : (i) == 2 ? &uaio_c : &uaio_d))
static int      uaio_used[MAXU];
static nni_msg *umsg[MAXU];     /* message given to user send i */
static int      umsg_id[MAXU];
static int      kstop;          /* skeleton ended early: event not applicable */
static int      kseen[MAXU];    /* completion already observed */
static nng_err  kres[MAXU];     /* result as reported at completion */

/* operations that had to wait (blocked senders / receivers): which waiter queue they joined and when */
static int kwait_q[MAXU], kwait_seq[MAXU], kwait_served[MAXU], kwait_clock;
static void kwait_check(void);
static void monitor(void);
static void
kquiesce(void)
{
	for (int i = 0; i < 8; i++) {
		if (env_run_callbacks() == 0)
			break;
	}
	SCHECK(env_callbacks_pending() == 0, "library reaches quiescence (no callback storm)");
	SCHECK(env_locks_held == 0, "no lock is held at a quiescent point");
	kwait_check();
}

/* a message of LEN symbolic bytes (LEN concrete) */
static nni_msg *
kmsg(size_t len)
{
	nni_msg *m = NULL;
	int      armed = env_msg_fail_at; /* an armed allocation fault is meant for the library, not for the harness */
	env_msg_fail_at = -1;
	nni_msg_alloc(&m, len);
	if (armed >= 0)
		env_msg_fail_at = armed + 1;
	for (size_t i = 0; i < len; i++)
		((u8 *) nni_msg_body(m))[i] = ND(u8);
	return m;
}

static void
kuaio_prepare(int i, int blocking)
{
	nni_aio_init(&uaio_at(i), NULL, NULL);
	uaio_used[i] = 1;
	if (blocking) {
		nni_aio_set_timeout(&uaio_at(i), NNG_DURATION_INFINITE);
	} else {
		nni_aio_set_timeout(&uaio_at(i), NNG_DURATION_ZERO); /* NNG_FLAG_NONBLOCK */
	}
}
#define KDONE(i) (env_aio_completed(&uaio_at(i)) > 0)
#define KPENDING(i) (uaio_used[i] && env_aio_outstanding(&uaio_at(i)))
/* the result is what the completion reported (a later nng_aio_cancel on the
 * idle aio may overwrite a_result; that is not a report of the operation) */
static nng_err
kresult(int i)
{
	if (!kseen[i] && env_aio_completed(&uaio_at(i)) > 0) {
		kseen[i] = 1;
		kres[i]  = nni_aio_result(&uaio_at(i));
	}
	return kres[i];
}
#define KRESULT(i) (kresult(i))
/* KWAIT_POST(i, q): operation i was just posted, could not be served and now waits in waiter queue q */
#define KWAIT_POST(i, q)                          \
	do {                                      \
		kwait_q[i]   = (q) + 1;           \
		kwait_seq[i] = ++kwait_clock;     \
	} while (0)
/* waiters of one queue are served first come first served: an application that keeps several sends / receives
 * outstanding (or several threads blocked) sees its messages in the order it issued the operations */
static void
kwait_check(void)
{
	for (int j = 0; j < MAXU; j++) {
		if (!kwait_q[j] || kwait_served[j] || !uaio_used[j] || env_aio_completed(&uaio_at(j)) == 0)
			continue;
		kwait_served[j] = 1;
		if (nni_aio_result(&uaio_at(j)) != 0)
			continue; /* cancelled, timed out, closed: says nothing about service order */
		for (int i = 0; i < MAXU; i++) {
			if (i == j || kwait_q[i] != kwait_q[j] || kwait_seq[i] > kwait_seq[j] || kwait_served[i])
				continue;
			CHECK(env_aio_completed(&uaio_at(i)) > 0, "of two operations waiting in the same queue the one that waited first is served first");
		}
	}
}
/* C20 fault events of a skeleton word (fault pass, -DVH_FAULTPASS): from now on the k-th (0-based) message
 * allocation / duplication (FM), allocator request (FA), insertion of a new key into an id map (FI) made by the
 * library fails.  One fault per skeleton. */
extern int env_alloc_fail_at, env_alloc_count, env_alloc_failed, env_msg_failed, env_idmap_failed;
extern int env_idmap_fail_at, env_idmap_inserts;
#define FM(k) if (!kstop) { env_msg_fail_at = env_msg_allocs + (k); }
#define FA(k) if (!kstop) { env_alloc_fail_at = env_alloc_count + (k); }
#define FI(k) if (!kstop) { env_idmap_fail_at = env_idmap_inserts + (k); }
/* the failing call reported NNG_ENOMEM and (as the harness has just checked) changed nothing: from here on the
 * object must behave as if the call had never been made, so the functional checks apply again in full */
#define KFAULT_ABSORBED()             \
	do {                          \
		env_alloc_failed = 0; \
		env_msg_failed   = 0; \
		env_idmap_failed = 0; \
	} while (0)
/* a buffer resize under an allocation fault: KQ_SNAP before the call, KQ_FAULT_RESULT after it.  A resize that reports
 * NNG_ENOMEM must leave depth, contents and order of the queue as they were (then the skeleton goes on with the
 * functional checks in full force); one that cannot report it any other way must not pretend success */
#define KQ_SNAP(q)                                                                                                  \
	size_t ksn_len = (q)->lmq_len, ksn_cap = (q)->lmq_cap;                                                      \
	int    ksn_id[8];                                                                                           \
	for (size_t ksn_k = 0; ksn_k < 8; ksn_k++)                                                                  \
		ksn_id[ksn_k] = ksn_k < ksn_len ? (q)->lmq_msgs[((q)->lmq_get + ksn_k) & (q)->lmq_mask]->id : 0;
#ifdef VH_FAULTPASS
#define KQ_FAULT_RESULT(rv, q)                                                                                                          \
	do {                                                                                                                            \
		SCHECK((rv) == 0 || (rv) == NNG_ENOMEM, "C20: a buffer resize succeeds or reports NNG_ENOMEM");                            \
		SCHECK(((rv) == NNG_ENOMEM) == (VH_FAULT_FIRED != 0), "C20: it reports NNG_ENOMEM exactly when its allocation failed");    \
		if ((rv) == NNG_ENOMEM) {                                                                                               \
			SCHECK((q)->lmq_len == ksn_len && (q)->lmq_cap == ksn_cap, "C20: a resize that failed keeps depth and contents");  \
			for (size_t ksn_k = 0; ksn_k < 8; ksn_k++)                                                                      \
				if (ksn_k < ksn_len)                                                                                    \
					SCHECK((q)->lmq_msgs[((q)->lmq_get + ksn_k) & (q)->lmq_mask]->id == ksn_id[ksn_k],                  \
					    "C20: a resize that failed keeps the queued messages in order");                            \
			WITNESS("resize failed cleanly");                                                                               \
			KFAULT_ABSORBED();                                                                                              \
			monitor();                                                                                                      \
			return;                                                                                                         \
		}                                                                                                                       \
	} while (0)
#else
#define KQ_FAULT_RESULT(rv, q) \
	do {                   \
		(void) ksn_id; \
		(void) ksn_cap; \
	} while (0)
#endif
#define KNEED(cond)            \
	do {                   \
		if (!(cond)) { \
			kstop = 1; \
		}              \
	} while (0)
#endif

/* C10: dialer / listener handles (real core/dialer.c, or core/listener.c with -DLISTENER):
 * nni_dialer_find / hold / rele / close.  One endpoint registered under its id with the creator's reference;
 * a concrete word of operations by the owner and by other holders:
 *    f  another thread looks the id up (nng_dialer_* call begins)      r  it releases its reference again
 *    h  nni_dialer_hold by someone who has the pointer (a pipe / timer path)
 *    c  close (the first close shuts the endpoint down and consumes the caller's reference; a close by another
 *       holder of a reference only drops that reference)
 * after every step, for ANY 32-bit id: the id resolves iff it is the endpoint's id and close has not been called;
 * a hold after close is refused with NNG_ECLOSED; the endpoint is shut down exactly once (by the first close) and
 * handed to the reaper exactly once, exactly when it is closed and the last reference is gone - never earlier
 * (no use after free for an operation in progress), never twice. */
#include "env_aio.h"
#ifdef LISTENER
#include "core/listener.c"
#define EP nni_listener
#define E(x) nni_listener_##x
#define TAB listeners
#define F(x) l_##x
#else
#include "core/dialer.c"
#define EP nni_dialer
#define E(x) nni_dialer_##x
#define TAB dialers
#define F(x) d_##x
#endif
extern int env_locks_held;
static int shutdowns, reaps, removes;
void
E(shutdown)(EP *e)
{
	(void) e;
	shutdowns++;
}
void
E(reap)(EP *e)
{
	(void) e;
	reaps++;
}
#ifdef LISTENER
void
nni_sock_remove_listener(nni_listener *l)
{
	(void) l;
	removes++;
}
#else
void
nni_sock_remove_dialer(nni_dialer *d)
{
	(void) d;
	removes++;
}
#endif
static EP ep;
#ifndef WORD
#define WORD "fcr"
#endif
void
harness(void)
{
	static const EP z;
	ep        = z;
	ep.F(id)  = 5;
	ep.F(ref) = 1;
	CHECK(nni_id_set(&TAB, 5, &ep) == 0, "endpoint registered");
	int refs = 1, closed = 0;
	const char *w = WORD;
	for (int k = 0; k < 8; k++) {
		char c = w[k];
		if (c == 0 || (closed && refs == 0))
			break;
		switch (c) {
		case 'f': {
			EP *o  = NULL;
			int rv = E(find)(&o, 5);
			if (!closed) {
				CHECK(rv == 0 && o == &ep, "an open endpoint is found by its id");
				refs++;
			} else {
				CHECK(rv == NNG_ENOENT && o == NULL, "a closed endpoint can no longer be looked up");
			}
			break;
		}
		case 'h': {
			int rv = E(hold)(&ep);
			if (!closed) {
				CHECK(rv == 0, "an open endpoint can be held");
				refs++;
			} else {
				CHECK(rv == NNG_ECLOSED, "a hold on a closed endpoint is refused with NNG_ECLOSED");
			}
			break;
		}
		case 'r':
			if (refs > (closed ? 0 : 1)) {
				refs--;
				E(rele)(&ep);
			}
			break;
		case 'c':
			if (refs > 0) {
				refs--;
				closed = 1;
				E(close)(&ep);
			}
			break;
		default:
			break;
		}
		CHECK(shutdowns == (closed ? 1 : 0) && removes == (closed ? 1 : 0), "the endpoint is shut down and detached from its socket exactly once, by the first close");
		if (closed && refs == 0) {
			CHECK(reaps == 1, "a closed endpoint is handed to the reaper when its last reference is released");
			WITNESS("reaped");
		} else {
			CHECK(reaps == 0, "an endpoint is never reaped while it is open or somebody still holds a reference");
		}
		{
			u32 q  = ND(u32);
			EP *o  = NULL;
			int rv = E(find)(&o, q);
			if (q == 5 && !closed) {
				CHECK(rv == 0 && o == &ep, "the id of the open endpoint resolves to it");
				E(rele)(&ep);
			} else {
				CHECK(rv == NNG_ENOENT && o == NULL, "every other id, and the id of a closed endpoint, resolves to nothing (NNG_ENOENT)");
			}
		}
		CHECK(env_locks_held == 0, "no lock held");
	}
	CHECK(reaps <= 1, "reaped at most once");
	WITNESS("end");
}

/* C20 / C10: creation of a dialer (or listener, -DLISTENER) through the real core/dialer.c nni_dialer_create_url
 * (core/listener.c nni_listener_create_url) when a step of the creation fails: FAILSTEP
 *   0 nothing fails                     1 the endpoint object cannot be allocated
 *   2 the URL copy fails                3 the transport's d_init / l_init fails
 *   4 the socket refuses the endpoint (closing)   5 the endpoint's id cannot be allocated (id table cannot grow)
 * Decided: the call reports the error of the failing step (NNG_ENOMEM for 1, 5); an endpoint that is given back to the
 * allocator is no longer on its socket's list (the socket would walk freed memory when it closes), is no longer
 * registered under an id, and is finalized once; nothing leaks; on success the endpoint is on the socket's list,
 * resolvable by its id, and has the creator's reference. */
#include "env_aio.h"
/* the endpoint object comes from a static, typed slot instead of the heap model: a heap object of this size (statistics
 * items, inline URL buffer) loses field sensitivity in symbolic execution; the slot keeps the allocator contract
 * (zero-filled, freed once with the size it was allocated with, failure on demand) */
static size_t ep_slot_size;
static int    ep_slot_live, ep_slot_frees, ep_slot_fail;
static void  *ep_zalloc(size_t sz);
static void   ep_free(void *p, size_t sz);
#define nni_zalloc(sz) ep_zalloc(sz)
#define nni_free(p, sz) ep_free((p), (sz))
#ifdef LISTENER
#include "core/listener.c"
#define EP nni_listener
#define E(x) nni_listener_##x
#define TAB listeners
#define F(x) l_##x
#define TRANEP tran_listener
#define TOPS nni_sp_listener_ops
#else
#include "core/dialer.c"
#define EP nni_dialer
#define E(x) nni_dialer_##x
#define TAB dialers
#define F(x) d_##x
#define TRANEP tran_dialer
#define TOPS nni_sp_dialer_ops
#endif
#undef nni_zalloc
#undef nni_free
#ifndef FAILSTEP
#define FAILSTEP 0
#endif
static struct {
	EP            e;
	unsigned char tran_data[16];
} ep_slot;
static void *
ep_zalloc(size_t sz)
{
	CHECK(sz <= sizeof(ep_slot) && !ep_slot_live, "harness: one endpoint object, slot large enough");
	if (ep_slot_fail)
		return NULL;
	static const EP z;
	ep_slot.e    = z;
	ep_slot_size = sz;
	ep_slot_live = 1;
	return &ep_slot;
}
static void
ep_free(void *p, size_t sz)
{
	CHECK(p == (void *) &ep_slot && ep_slot_live, "the endpoint object is freed once");
	CHECK(sz == ep_slot_size, "C03: with the size it was allocated with");
	ep_slot_live = 0;
	ep_slot_frees++;
}
extern int env_locks_held, env_alloc_live, env_alloc_fail_at, env_alloc_count, env_alloc_failed;
extern int env_idmap_fail_at, env_idmap_inserts, env_idmap_failed;
static int  on_sock_list, tran_inits, tran_finis, sock_holds;
static EP  *listed;
void
E(shutdown)(EP *e)
{
	(void) e;
}
void
E(reap)(EP *e)
{
	(void) e;
}
#ifdef LISTENER
void
nni_sock_remove_listener(nni_listener *l)
#else
void
nni_sock_remove_dialer(nni_dialer *l)
#endif
{
	if (listed == l) {
		on_sock_list = 0;
		listed       = NULL;
	}
}
/* core/socket.c nni_sock_add_dialer / nni_sock_add_listener: takes a reference for the socket and links the endpoint into
 * the socket's list (or refuses when the socket is closing) */
#ifdef LISTENER
int
nni_sock_add_listener(nni_sock *s, nni_listener *e)
#else
int
nni_sock_add_dialer(nni_sock *s, nni_dialer *e)
#endif
{
	(void) s;
	int rv;
#if FAILSTEP == 4
	return NNG_ECLOSED;
#endif
	if ((rv = E(hold)(e)) != 0)
		return rv;
	sock_holds++;
	on_sock_list = 1;
	listed       = e;
	return 0;
}
uint32_t
nni_sock_id(nni_sock *s)
{
	(void) s;
	return 7;
}
static nng_err
t_init(void *data, nng_url *url, EP *e)
{
	(void) data, (void) url, (void) e;
	tran_inits++;
#if FAILSTEP == 3
	return NNG_EADDRINVAL;
#endif
	return NNG_OK;
}
static void
t_fini(void *data)
{
	(void) data;
	tran_finis++;
	CHECK(!on_sock_list, "C20: an endpoint that is being destroyed is no longer on its socket's list (the socket would walk freed memory at close)");
}
static struct TOPS t_ops = { .F(size) = 8, .F(init) = t_init, .F(fini) = t_fini };
static nni_sp_tran the_tran = { .TRANEP = &t_ops };
nni_sp_tran *
nni_sp_tran_find(const char *scheme)
{
	(void) scheme;
	return &the_tran;
}
const char *
nng_url_scheme(const nng_url *u)
{
	(void) u;
	return "x";
}
nng_err
nni_url_clone_inline(nng_url *dst, const nng_url *src)
{
	(void) src;
#if FAILSTEP == 2
	return NNG_ENOMEM;
#endif
	dst->u_scheme = "x";
	return 0;
}
void
nni_url_fini(nng_url *u)
{
	(void) u;
}
static nni_sock *the_sock = (nni_sock *) &on_sock_list; /* opaque to this unit */
static nng_url   the_url;
void
harness(void)
{
	EP *e = NULL;
#if FAILSTEP == 1
	ep_slot_fail = 1;
#elif FAILSTEP == 5
	env_idmap_fail_at = env_idmap_inserts;
#endif
	int rv = E(create_url)(&e, the_sock, &the_url);
#if FAILSTEP == 0
	CHECK(rv == 0 && e != NULL, "creation succeeds");
	CHECK(on_sock_list && listed == e, "the new endpoint is on its socket's list");
	{
		EP *o = NULL;
		CHECK(E(find)(&o, e->F(id)) == 0 && o == e, "and resolvable by its id");
		E(rele)(e);
	}
	CHECK(e->F(id) != 0 && tran_inits == 1 && tran_finis == 0, "with a non-zero id and the transport part initialised once");
	WITNESS("created");
#else
	CHECK(rv != 0 && e == NULL, "a creation step failed: the call reports an error and hands out nothing");
#if FAILSTEP == 1 || FAILSTEP == 5 || FAILSTEP == 2
	CHECK(rv == NNG_ENOMEM, "C20: a failed allocation is reported as NNG_ENOMEM");
#elif FAILSTEP == 3
	CHECK(rv == NNG_EADDRINVAL, "the transport's error is reported");
#else
	CHECK(rv == NNG_ECLOSED, "the socket's refusal is reported");
#endif
	CHECK(!on_sock_list, "C20: the socket is not left with a pointer to an endpoint that was given back to the allocator");
	CHECK(tran_finis == (tran_inits ? 1 : 0) || FAILSTEP == 3, "the transport part is finalized once if it was initialised");
	CHECK(env_alloc_live == 0 && !ep_slot_live, "C20: a failed creation leaves nothing allocated");
	{
		u32 q = ND(u32);
		EP *o = NULL;
		CHECK(E(find)(&o, q) == NNG_ENOENT && o == NULL, "no id resolves to the endpoint that was never created");
	}
	WITNESS("creation failed cleanly");
#endif
	CHECK(env_locks_held == 0, "no lock held");
	WITNESS("end");
}

/* C10: core/refcnt.c - the destructor runs exactly once, exactly when the count reaches zero, for ANY initial
 * count 1..1000 and a symbolic sequence of up to 6 hold/release operations (releases never outnumber references). */
#include "vh.h"
#include "core/nng_impl.h"
#include "core/refcnt.c"
static int finis;
static void *fini_arg;
static void
my_fini(void *a)
{
	finis++;
	fini_arg = a;
}
void
harness(void)
{
	nni_refcnt rc;
	int        tag;
	unsigned   n = ND(u32);
	ASSUME(n >= 1 && n <= 1000);
	nni_refcnt_init(&rc, n, &tag, my_fini);
	unsigned refs = n;
	for (int k = 0; k < 6; k++) {
		if (refs == 0)
			break;
		if (ND(vbool)) {
			nni_refcnt_hold(&rc);
			refs++;
		} else {
			nni_refcnt_rele(&rc);
			refs--;
		}
		CHECK(finis == (refs == 0 ? 1 : 0), "the destructor has run iff the last reference is gone");
	}
	if (finis) {
		CHECK(fini_arg == &tag, "the destructor gets the registered object");
		WITNESS("destroyed");
	}
	WITNESS("end");
}

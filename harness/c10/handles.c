/* C10: handles are invalid after close - the lookup / reference layer of the real core/socket.c:
 * nni_sock_find, nni_sock_hold, nni_sock_rele, nni_ctx_open, nni_ctx_find, nni_ctx_close, nni_ctx_rele, nni_ctx_destroy.
 * A socket object is registered under its id as nni_sock_create does; contexts are opened through the real
 * nni_ctx_open (protocol ctx ops are counting stubs).
 * MODE 1  nni_sock_find(ID) for ANY 32-bit ID and any combination of the socket's closed / device flags:
 *         a reference is handed out iff ID is the socket's id and it is neither closed nor given to a device;
 *         otherwise NNG_ECLOSED / NNG_EBUSY and the reference count is untouched.
 * MODE 2  context life cycle, word of operations on one context with up to two extra references:
 *         f  nni_ctx_find(its id) (another thread starting an operation)   r  that thread releases its reference
 *         c  nni_ctx_close (the owner closes)                              s  the socket is marked closed
 *         after every step, for ANY id: find succeeds iff it is the id of the context, the context is not closed
 *         and its socket is not closed; the protocol's ctx_fini runs exactly once, exactly when the context is
 *         closed and the last reference is gone (never while an operation still holds one: no use after free),
 *         and from then on the id resolves to nothing; the memory is returned with its allocation size.
 */
#include "env_aio.h"
#include "core/socket.c"
extern int env_locks_held, env_alloc_live;
static int ctx_inits, ctx_finis;
static void
my_ctx_init(void *c, void *s)
{
	(void) c;
	(void) s;
	ctx_inits++;
}
static void
my_ctx_fini(void *c)
{
	(void) c;
	ctx_finis++;
}
static nni_sock S;
#ifndef WORD
#define WORD "fcr"
#endif
void
harness(void)
{
	static const nni_sock z;
	S = z;
	nni_mtx_init(&S.s_mx);
	nni_cv_init(&S.s_close_cv, &sock_lk);
	NNI_LIST_INIT(&S.s_ctxs, nni_ctx, c_node);
	S.s_id                 = 7;
	S.s_ref                = 1;
	S.s_ctx_ops.ctx_size   = 8;
	S.s_ctx_ops.ctx_init   = my_ctx_init;
	S.s_ctx_ops.ctx_fini   = my_ctx_fini;
	CHECK(nni_id_set(&sock_ids, S.s_id, &S) == 0, "socket registered");
#if MODE == 1
	S.s_closed = ND(vbool);
	S.s_device = ND(vbool);
	u32       id = ND(u32);
	nni_sock *out = NULL;
	int       ref0 = S.s_ref;
	int       rv   = nni_sock_find(&out, id);
	if (id == S.s_id && !S.s_closed && !S.s_device) {
		CHECK(rv == 0 && out == &S && S.s_ref == ref0 + 1, "a live socket is found by its id and the caller gets a reference");
		nni_sock_rele(&S);
		CHECK(S.s_ref == ref0, "releasing gives the reference back");
		WITNESS("found");
	} else {
		CHECK(rv != 0 && out == NULL && S.s_ref == ref0, "a closed socket, a socket given to a device and every other id resolve to nothing");
		CHECK(rv == NNG_ECLOSED || (rv == NNG_EBUSY && id == S.s_id && S.s_device && !S.s_closed), "the error is NNG_ECLOSED (NNG_EBUSY for a socket owned by a device)");
		WITNESS("refused");
	}
#elif MODE == 3
	{
		/* C20: the context cannot be allocated */
		extern int env_alloc_fail_at, env_alloc_count, env_alloc_failed;
		nni_ctx *c0    = NULL;
		int      live0 = env_alloc_live;
		env_alloc_fail_at = env_alloc_count;
		int rv = nni_ctx_open(&c0, &S);
		CHECK(env_alloc_failed && rv == NNG_ENOMEM && c0 == NULL, "a context that cannot be allocated is reported as NNG_ENOMEM");
		CHECK(ctx_inits == 0 && nni_list_empty(&S.s_ctxs) && env_alloc_live == live0, "nothing is initialised, registered or leaked");
		u32      q = ND(u32);
		nni_ctx *o = NULL;
		CHECK(nni_ctx_find(&o, q) == NNG_ECLOSED, "no id resolves to the context that was not created");
		env_alloc_fail_at = -1;
		CHECK(nni_ctx_open(&c0, &S) == 0 && c0 != NULL, "the socket works normally afterwards");
		WITNESS("allocation failure");
	}
#else
	nni_ctx *ctx = NULL;
	CHECK(nni_ctx_open(&ctx, &S) == 0 && ctx != NULL && ctx_inits == 1, "context opened");
	u32 cid     = ctx->c_id;
	int refs    = 1; /* the owner's */
	int closed  = 0, sclosed = 0, destroyed = 0;
	int live0   = env_alloc_live;
	const char *w = WORD;
	for (int k = 0; k < 8; k++) {
		char c = w[k];
		if (c == 0)
			break;
		if (destroyed)
			break;
		switch (c) {
		case 'f': {
			nni_ctx *o  = NULL;
			int      rv = nni_ctx_find(&o, cid);
			if (!closed && !sclosed) {
				CHECK(rv == 0 && o == ctx, "a live context is found by its id");
				refs++;
			} else {
				CHECK(rv == NNG_ECLOSED && o == NULL, "a closed context (or one of a closed socket) can no longer be looked up");
			}
			break;
		}
		case 'r':
			if (refs > (closed ? 0 : 1)) {
				refs--;
				nni_ctx_rele(ctx);
			}
			break;
		case 'c':
			if (!closed) {
				closed = 1;
				refs--;
				nni_ctx_close(ctx);
			}
			break;
		case 's':
			S.s_closed = true;
			sclosed    = 1;
			break;
		default:
			break;
		}
		if (closed && refs == 0) {
			destroyed = 1;
			CHECK(ctx_finis == 1, "the context is torn down when it is closed and its last reference is released");
			CHECK(env_alloc_live == live0 - 1, "and its memory is returned (with the size it was allocated with)");
			WITNESS("destroyed");
		} else {
			CHECK(ctx_finis == 0, "a context is never torn down while it is open or an operation still holds a reference");
			CHECK(env_alloc_live == live0, "nor freed");
		}
		/* whatever happened so far: what does ANY id resolve to now? */
		{
			u32      q  = ND(u32);
			nni_ctx *o  = NULL;
			int      rv = nni_ctx_find(&o, q);
			if (q == cid && !closed && !sclosed && !destroyed) {
				CHECK(rv == 0 && o == ctx, "the id of the live context resolves to it");
				nni_ctx_rele(ctx);
			} else {
				CHECK(rv == NNG_ECLOSED && o == NULL, "every other id, and the id of a closed context, resolves to nothing (NNG_ECLOSED)");
			}
		}
		CHECK(env_locks_held == 0, "no lock held");
	}
	CHECK(ctx_finis <= 1, "the protocol's ctx_fini runs at most once");
	if (!destroyed)
		WITNESS("still alive at the end");
#endif
	WITNESS("end");
}

/* C08 (+C03, C10, C15 monitors): PAIR over the real pair1/pair.c (default) or
 * pair0/pair.c (-DPAIR0).
 * events: A(p) attach (second attach must be refused while the first is alive)
 *         S(i,b) send  R(i,b) receive  T(p,ok) transport send done
 *         W(p,k) message arrives: k=1 hop count 1 (valid)  k=2 hop count ttl+1
 *                k=3 hop header > 0xff  k=4 shorter than a header
 *                k=0 ANY 32-bit hop header x ANY ttl 1..15 (last event only)
 *         C(p) pipe lost  B(n) SENDBUF := n   Q(n) RECVBUF := n   Z close
 */
#include "proto_kit.h"
#ifdef PAIR0
#include "sp/protocol/pair0/pair.c"
#define P(x) pair0_##x
#define PEER_ID NNI_PROTO_PAIR_V0
#define HOPS 0
#else
#include "sp/protocol/pair1/pair.c"
#define P(x) pair1_##x
#define PEER_ID PAIR1_PEER
#define HOPS 1
#endif
#define MAXW 4
static P(sock) sock;
static P(pipe) pd[MAXP];
static int sock_closed, ukind[MAXU], noted[MAXU];
static int accepted[MAXU], accept_seq, sent_seq_last, delivered[MAXU], lost[MAXU];
static int nw, wvalid[MAXW], wdeliv[MAXW], last_w_deliv;
static int attached = -1;

static int
id_to_user(int id)
{
	for (int i = 0; i < MAXU; i++)
		if (uaio_used[i] && ukind[i] == 1 && umsg_id[i] == id)
			return i;
	return -1;
}
static int
in_q(nni_lmq *q, int id)
{
	int n = 0;
	for (size_t k = 0; k < q->lmq_len; k++)
		if (q->lmq_msgs[(q->lmq_get + k) & q->lmq_mask]->id == id)
			n++;
	return n;
}
static void
sweep(void)
{
	for (int i = 0; i < MAXU; i++) {
		if (!uaio_used[i] || !KDONE(i) || noted[i])
			continue;
		noted[i] = 1;
		if (ukind[i] == 2 && KRESULT(i) == 0) {
			nni_msg *m = nni_aio_get_msg(&uaio_at(i));
			CHECK(m != NULL && m->tag >= 1 && m->tag <= nw, "a received message came from the peer");
			CHECK(wvalid[m->tag - 1], "C11: a message with a malformed or over-limit hop header is never delivered");
			wdeliv[m->tag - 1]++;
			CHECK(wdeliv[m->tag - 1] == 1, "a message is delivered at most once");
			CHECK(m->tag > last_w_deliv, "messages are delivered in the order the peer sent them");
			last_w_deliv = m->tag;
#if HOPS
			CHECK(nni_msg_header_len(m) == 4 && nni_msg_header_peek_u32(m) == (u32) wvalid[m->tag - 1], "delivered message carries the received hop count in its header");
#endif
			nni_msg_free(m);
			nni_aio_set_msg(&uaio_at(i), NULL);
		}
		if (ukind[i] == 1) {
			if (KRESULT(i) == 0) {
				CHECK(nni_aio_get_msg(&uaio_at(i)) == NULL, "C03: accepted send is owned by the library");
				accepted[i] = ++accept_seq;
			} else {
				CHECK(nni_aio_get_msg(&uaio_at(i)) == umsg[i], "C03: failed send leaves the message with the caller");
				nni_msg_free(umsg[i]);
				nni_aio_set_msg(&uaio_at(i), NULL);
			}
		}
	}
}
static void
monitor(void)
{
	kquiesce();
	sweep();
	for (int i = 0; i < MAXU; i++) {
		if (!uaio_used[i])
			continue;
		CHECK(env_aio_completed(&uaio_at(i)) <= 1, "operation completes at most once");
		if (ukind[i] == 1 && accepted[i] && !sock_closed) {
			int places = in_q(&sock.wmq, umsg_id[i]) + delivered[i] + lost[i];
			for (int p = 0; p < MAXP; p++)
				if (kpipe_up[p] && kpipe[p].wire_msg != NULL && kpipe[p].wire_msg->id == umsg_id[i])
					places++;
			CHECK(places == 1, "an accepted message is buffered, on the wire, delivered, or lost with its connection - exactly one (never duplicated, never silently discarded)");
		}
	}
	if (sock_closed)
		return;
	if (sock.wr_ready)
		CHECK(nni_lmq_empty(&sock.wmq) && nni_list_empty(&sock.waq), "an idle pipe implies nothing is buffered or blocked");
	if (!nni_list_empty(&sock.raq))
		CHECK(nni_lmq_empty(&sock.rmq) && !sock.rd_ready, "a blocked receiver implies nothing is buffered");
	CHECK(nni_atomic_get_bool(&sock.readable.p_raised) == (!nni_lmq_empty(&sock.rmq) || sock.rd_ready), "C15: receive poll state mirrors whether a message is available");
	CHECK(nni_atomic_get_bool(&sock.writable.p_raised) == (sock.wr_ready || !nni_lmq_full(&sock.wmq)), "C15: send poll state mirrors whether a send would be accepted");
}
static void
ev_attach(int p)
{
	KNEED(!kpipe_up[p] && !sock_closed);
	if (kstop)
		return;
	env_pipe_init(&kpipe[p], 100 + p, PEER_ID);
	{
		static const __typeof__(pd[0]) pd_zero;
		pd[p] = pd_zero; /* struct assignment keeps field sensitivity, memset does not */
	}
	CHECK(P(pipe_init)(&pd[p], &kpipe[p], &sock) == 0, "pipe_init");
	int rv = P(pipe_start)(&pd[p]);
	if (attached >= 0) {
		CHECK(rv == NNG_EBUSY, "a second peer is refused while the first is connected");
		CHECK(sock.p == &pd[attached], "the first peer stays the one attached");
		/* a refused pipe is torn down by the core */
		P(pipe_close)(&pd[p]);
		kquiesce();
		P(pipe_stop)(&pd[p]);
		P(pipe_fini)(&pd[p]);
		CHECK(sock.p == &pd[attached], "tearing down the refused pipe does not detach the connected peer");
		WITNESS("second peer refused");
	} else {
		CHECK(rv == 0, "the first peer is accepted");
		kpipe_up[p] = 1;
		attached    = p;
	}
	monitor();
}
static void
ev_send(int i, int blocking)
{
	KNEED(!uaio_used[i] && !sock_closed);
	if (kstop)
		return;
	bool can = sock.wr_ready || !nni_lmq_full(&sock.wmq);
	kuaio_prepare(i, blocking);
	ukind[i]   = 1;
	umsg[i]    = kmsg(2);
	umsg_id[i] = umsg[i]->id;
	nni_aio_set_msg(&uaio_at(i), umsg[i]);
	env_aio_submit(&uaio_at(i));
	P(sock_send)(&sock, &uaio_at(i));
	if (can)
		CHECK(KDONE(i) && KRESULT(i) == 0, "C15: send is accepted at once when the peer is idle or the buffer has room");
	else if (!blocking)
		CHECK(KDONE(i) && KRESULT(i) == NNG_ETIMEDOUT, "C15: non-blocking send with no room fails at once");
	else {
		CHECK(!KDONE(i), "send blocks rather than discarding when the peer is not reading");
		KWAIT_POST(i, 0);
		WITNESS("send blocks");
	}
	monitor();
}
static void
ev_recv(int i, int blocking)
{
	KNEED(!uaio_used[i] && !sock_closed);
	if (kstop)
		return;
	bool can = !nni_lmq_empty(&sock.rmq) || sock.rd_ready;
	kuaio_prepare(i, blocking);
	ukind[i] = 2;
	env_aio_submit(&uaio_at(i));
	P(sock_recv)(&sock, &uaio_at(i));
	if (can)
		CHECK(KDONE(i) && KRESULT(i) == 0, "C15: receive succeeds at once when a message is available");
	else if (!blocking)
		CHECK(KDONE(i) && KRESULT(i) == NNG_ETIMEDOUT, "C15: non-blocking receive with nothing available fails at once");
	else {
		CHECK(!KDONE(i), "blocking receive waits");
		KWAIT_POST(i, 1);
	}
	monitor();
}
static void
ev_txdone(int p, int ok)
{
	KNEED(kpipe_up[p] && kpipe[p].send_aio != NULL);
	if (kstop)
		return;
	nni_msg *w = kpipe[p].wire_msg;
	int      u = id_to_user(w->id);
	CHECK(u >= 0, "what is on the wire is a message a user sent");
	if (u >= 0) {
		CHECK(accepted[u] > sent_seq_last, "messages go on the wire in the order they were accepted");
		sent_seq_last = accepted[u];
#if HOPS
		CHECK(nni_msg_header_len(w) == 4 && nni_msg_header_peek_u32(w) == 1, "a locally originated message leaves with hop count 1 (0 incremented once)");
#endif
		if (ok)
			delivered[u]++;
		else
			lost[u]++;
	}
	env_pipe_send_done(&kpipe[p], ok ? 0 : NNG_ECONNRESET);
	monitor();
}
static void
ev_wire(int p, int k)
{
	KNEED(kpipe_up[p] && kpipe[p].recv_aio != NULL && nw < MAXW);
	if (kstop)
		return;
	nni_msg *m;
	int      live0 = env_msg_live;
#if HOPS
	int ttl = nni_atomic_get(&sock.ttl);
	u32 hdr = 1;
	if (k == 0) {
		hdr = ND(u32);
		ttl = ND(vint);
		ASSUME(ttl >= 1 && ttl <= 15);
		CHECK(pair1_sock_set_max_ttl(&sock, &ttl, sizeof(ttl), NNI_TYPE_INT32) == 0, "MAXTTL accepts 1..15");
	} else if (k == 2)
		hdr = (u32) ttl + 1;
	else if (k == 3)
		hdr = 0x100 + (ND(u32) & 0xffffff00u);
	if (k == 4) {
		m = kmsg(3);
	} else {
		nni_msg_alloc(&m, 6);
		u8 *b = nni_msg_body(m);
		b[0] = (u8) (hdr >> 24), b[1] = (u8) (hdr >> 16), b[2] = (u8) (hdr >> 8), b[3] = (u8) hdr;
		b[4] = ND(u8), b[5] = ND(u8);
	}
	int malformed = (k == 4) || hdr > 0xff;
	int overttl   = !malformed && (int) hdr > ttl;
#else
	(void) k;
	m = kmsg(2);
	int malformed = 0, overttl = 0;
	u32 hdr = 1;
#endif
	nw++;
	m->tag         = nw;
	wvalid[nw - 1] = (!malformed && !overttl) ? (int) (hdr ? hdr : 1) : 0;
#if HOPS
	if (!malformed && !overttl && hdr == 0)
		wvalid[nw - 1] = -1; /* hop count 0: delivered with header 0 */
#endif
	env_pipe_recv_done(&kpipe[p], m, 0);
	kquiesce();
	if (malformed) {
		CHECK(kpipe[p].closed, "a malformed hop header disconnects its sender");
		CHECK(env_msg_live == live0, "the malformed message is freed");
		WITNESS("malformed disconnects");
	} else if (overttl) {
		CHECK(!kpipe[p].closed, "a message over the hop limit is dropped without disconnecting");
		CHECK(kpipe[p].recv_aio != NULL, "receive is re-armed after dropping");
		WITNESS("over ttl dropped");
	} else {
		CHECK(!kpipe[p].closed, "a valid message keeps the connection");
		WITNESS("valid message");
	}
	if (k != 0)
		monitor();
}
static void
ev_pipe_lost(int p)
{
	KNEED(kpipe_up[p]);
	if (kstop)
		return;
	if (kpipe[p].wire_msg != NULL) {
		int u = id_to_user(kpipe[p].wire_msg->id);
		if (u >= 0)
			lost[u]++;
	}
	P(pipe_close)(&pd[p]);
	kquiesce();
	P(pipe_stop)(&pd[p]);
	P(pipe_fini)(&pd[p]);
	kpipe_up[p] = 0;
	attached    = -1;
	CHECK(sock.p == NULL, "losing the peer frees the slot for a new connection");
	monitor();
}
static void
ev_sendbuf(int n)
{
	int v = n;
	KNEED(!sock_closed);
	if (kstop)
		return;
	KQ_SNAP(&sock.wmq);
	nng_err brv = P(set_send_buf_len)(&sock, &v, sizeof(v), NNI_TYPE_INT32);
	KQ_FAULT_RESULT(brv, &sock.wmq);
	CHECK(brv == 0, "set SENDBUF");
	int newly_lost = 0;
	for (int i = 0; i < MAXU; i++)
		if (uaio_used[i] && ukind[i] == 1 && accepted[i] && !delivered[i] && !lost[i] && in_q(&sock.wmq, umsg_id[i]) == 0) {
			int onwire = 0;
			for (int p = 0; p < MAXP; p++)
				if (kpipe_up[p] && kpipe[p].wire_msg != NULL && kpipe[p].wire_msg->id == umsg_id[i])
					onwire = 1;
			if (!onwire) {
				lost[i]++;
				newly_lost++;
			}
		}
	CHECK(newly_lost == (ksn_len > (size_t) n ? (int) (ksn_len - (size_t) n) : 0),
	    "C08/C18: changing the send buffer discards exactly as many accepted messages as no longer fit - none when it grows");
	monitor();
}
static void
ev_recvbuf(int n)
{
	int v = n;
	KNEED(!sock_closed);
	if (kstop)
		return;
	KQ_SNAP(&sock.rmq);
	nng_err brv = P(set_recv_buf_len)(&sock, &v, sizeof(v), NNI_TYPE_INT32);
	KQ_FAULT_RESULT(brv, &sock.rmq);
	CHECK(brv == 0, "set RECVBUF");
	monitor();
}
static void
ev_close(void)
{
	KNEED(!sock_closed);
	if (kstop)
		return;
	for (int p = 0; p < MAXP; p++)
		if (kpipe_up[p])
			P(pipe_close)(&pd[p]);
	P(sock_close)(&sock);
	sock_closed = 1;
	kquiesce();
	for (int p = 0; p < MAXP; p++)
		if (kpipe_up[p]) {
			P(pipe_stop)(&pd[p]);
			P(pipe_fini)(&pd[p]);
			kpipe_up[p] = 0;
		}
	kquiesce();
	sweep();
	for (int i = 0; i < MAXU; i++)
		if (uaio_used[i])
			CHECK(KDONE(i), "C10: close completes every pending operation");
	P(sock_fini)(&sock);
	CHECK(env_msg_live == 0, "C03: after close and fini every message has been released exactly once");
	WITNESS("closed");
}
#define A(p) if (!kstop) ev_attach(p);
#define S(i, b) if (!kstop) ev_send(i, b);
#define R(i, b) if (!kstop) ev_recv(i, b);
#define T(p, ok) if (!kstop) ev_txdone(p, ok);
#define W(p, k) if (!kstop) ev_wire(p, k);
#define C(p) if (!kstop) ev_pipe_lost(p);
#define B(n) if (!kstop) ev_sendbuf(n);
#define Q(n) if (!kstop) ev_recvbuf(n);
#define Z if (!kstop) ev_close();
#ifndef SKEL
#define SKEL A(0) S(0, 1) T(0, 1) W(0, 1) R(1, 0) Z
#endif
void
harness(void)
{
#ifdef PAIR0
	pair0_sock_init(&sock, NULL);
#else
	pair1_sock_init(&sock, NULL);
#endif
	monitor();
	SKEL
	if (!kstop)
		WITNESS("skeleton ran to its end");
#ifdef MUSTEND
	/* a curated skeleton whose every event is applicable on the library as it should be: an event that finds nothing to act
	 * on (e.g. no transfer outstanding because a message vanished) is a failure, not the end of the skeleton */
	CHECK(!kstop, "every event of the skeleton found the library in the state the previous events must have left it in");
#endif
	WITNESS("end");
}

/* C14 / C10: the life end of a pipe in the real core/pipe.c: nni_pipe_close, pipe_reap, nni_pipe_find, nni_pipe_hold /
 * nni_pipe_rele, pipe_destroy (with the real core/refcnt.c).  The pipe object is filled in as pipe_create does, with
 * protocol / transport operation tables that record the order of the calls; the reaper is played by the harness.
 * EXTRA holders (0..2) still have a reference (a lookup in progress, an endpoint) when the pipe is closed.
 * checked:  nni_pipe_close is idempotent (closing twice reaps once);  the reaper runs protocol close, transport close,
 * the REM_POST notification, unregisters the id, stops protocol and transport and only then tells the socket the pipe is
 * gone (nni_pipe_remove is what lets nng_close return: REM_POST is never later than that);  after the reap ANY id, in
 * particular the pipe's, resolves to nothing (NNG_ENOENT);  protocol / transport fini and the free happen exactly once,
 * exactly when the last reference is released - never while a holder remains;  the memory is freed with its size. */
#include "env_aio.h"
static int   freed;
static void *freed_ptr;
static size_t freed_size;
static void
h_free(void *p, size_t sz)
{
	freed++;
	freed_ptr  = p;
	freed_size = sz;
}
#define nni_free(p, s) h_free((p), (s))
#include "core/refcnt.c"
#include "core/pipe.c"
#undef nni_free
extern int env_locks_held;
#ifndef EXTRA
#define EXTRA 1
#endif
static int clock_, t_pclose, t_tclose, t_rempost, t_pstop, t_tstop, t_remove, t_pfini, t_tfini, t_unreg;
static nni_pipe P;
static void
p_close(void *a)
{
	(void) a;
	CHECK(t_pclose == 0, "protocol pipe_close called once");
	t_pclose = ++clock_;
}
static void
t_close(void *a)
{
	(void) a;
	CHECK(t_tclose == 0, "transport close called once");
	t_tclose = ++clock_;
}
static void
p_stop(void *a)
{
	(void) a;
	t_pstop = ++clock_;
	/* the id is no longer resolvable once the pipe is being stopped */
	nni_pipe *o = NULL;
	CHECK(nni_pipe_find(&o, 9) == NNG_ENOENT, "the pipe id is unregistered before the pipe is stopped");
	t_unreg = clock_;
}
static void
t_stop(void *a)
{
	(void) a;
	t_tstop = ++clock_;
}
static void
p_fini(void *a)
{
	(void) a;
	CHECK(t_pfini == 0, "protocol pipe_fini called once");
	t_pfini = ++clock_;
}
static void
t_fini(void *a)
{
	(void) a;
	CHECK(t_tfini == 0, "transport fini called once");
	t_tfini = ++clock_;
}
void
nni_pipe_run_cb(nni_pipe *p, nng_pipe_ev ev)
{
	(void) p;
	if (ev == NNG_PIPE_EV_REM_POST) {
		CHECK(t_rempost == 0, "REM_POST raised once");
		t_rempost = ++clock_;
	}
}
void
nni_pipe_remove(nni_pipe *p)
{
	(void) p;
	CHECK(t_remove == 0, "the socket is told once that the pipe is gone");
	t_remove = ++clock_;
}
void
harness(void)
{
	static const nni_pipe z;
	P                        = z;
	P.p_id                   = 9;
	P.p_size                 = 777;
	P.p_proto_ops.pipe_close = p_close;
	P.p_proto_ops.pipe_stop  = p_stop;
	P.p_proto_ops.pipe_fini  = p_fini;
	P.p_tran_ops.p_close     = t_close;
	P.p_tran_ops.p_stop      = t_stop;
	P.p_tran_ops.p_fini      = t_fini;
	nni_atomic_init_bool(&P.p_closed);
	nni_refcnt_init(&P.p_refcnt, 1, &P, pipe_destroy);
	CHECK(nni_id_set(&pipes, 9, &P) == 0, "pipe registered");
	for (int k = 0; k < EXTRA; k++) {
		nni_pipe *o = NULL;
		CHECK(nni_pipe_find(&o, 9) == 0 && o == &P, "a live pipe is found by its id (the caller gets a reference)");
	}
	CHECK(!nni_pipe_is_closed(&P), "open");
	nni_pipe_close(&P);
	CHECK(nni_pipe_is_closed(&P) && env_reap_pending() == 1, "close marks the pipe and hands it to the reaper");
	CHECK(t_pclose == 0, "close itself does not tear anything down (it may be called from any context)");
	nni_pipe_close(&P);
	CHECK(env_reap_pending() == 1, "closing twice queues the pipe for reaping once");
	{
		/* a lookup between close and reap still resolves (properties may be read in the REM_POST callback) */
		nni_pipe *o = NULL;
		CHECK(nni_pipe_find(&o, 9) == 0 && o == &P, "until it is reaped a closed pipe can still be looked up");
		nni_pipe_rele(&P);
	}
	CHECK(env_reap_take(0) == (void *) &P, "what was queued is the pipe");
	pipe_reap(&P); /* the reaper thread */
	CHECK(t_pclose && t_tclose && t_rempost && t_pstop && t_tstop && t_remove, "the reaper closes and stops protocol and transport, raises REM_POST and detaches the pipe");
	CHECK(t_pclose < t_tclose && t_tclose < t_rempost, "protocol close, transport close, then the REM_POST notification");
	CHECK(t_rempost < t_pstop && t_pstop < t_tstop && t_tstop < t_remove, "REM_POST precedes the stops, and the socket is told last (so REM_POST is never later than the return of nng_close)");
	{
		u32       q = ND(u32);
		nni_pipe *o = NULL;
		CHECK(nni_pipe_find(&o, q) == NNG_ENOENT && o == NULL, "after the reap no id resolves to the pipe any more");
	}
#if EXTRA == 0
	CHECK(t_pfini && t_tfini && freed == 1, "with no other holder the reaper's release destroys the pipe");
#else
	CHECK(!t_pfini && !t_tfini && freed == 0, "the pipe is not destroyed while somebody still holds a reference");
	for (int k = 0; k < EXTRA; k++) {
		CHECK(freed == 0, "not before the last holder is done");
		nni_pipe_rele(&P);
	}
#endif
	CHECK(t_pfini && t_tfini && t_pfini > t_remove && freed == 1, "protocol and transport fini run once, after everything else, when the last reference is released");
	CHECK(freed_ptr == (void *) &P && freed_size == 777, "the pipe's memory is returned with the size it was allocated with");
	CHECK(env_locks_held == 0, "no lock held");
	WITNESS("end");
}

/* C14 / C02 / C10 / C20: the DIALING endpoint of a stream transport, the real sp/transport/tcp/tcp.c (TRAN 0) or
 * sp/transport/ipc/ipc.c (TRAN 2): *_ep_connect, *_dial_cb, *_ep_cancel, *_pipe_start, *_pipe_nego_cb, *_ep_match,
 * *_ep_close over a stub stream dialer.  This is what core/dialer.c drives: one connect request at a time; its result
 * decides whether the dialer redials (any error but close / cancel / stop) or owns a pipe.
 * events (SKEL), result codes concrete (R1):
 *   U(i)   the core dialer posts connect aio i          D0     the stream dial succeeds
 *   DR     the stream dial fails (NNG_ECONNREFUSED)     DP     it succeeds but no pipe can be allocated (NNG_ENOMEM)
 *   N(ok)  the handshake of the connection finishes: 1 valid peer header, 0 the stream fails with NNG_ECONNRESET,
 *          2 the stream fails with NNG_ECLOSED (the peer hung up: EPIPE)
 *   X(i)   connect aio i is aborted (the dialer is being closed, or nng_dialer_start_aio's aio is cancelled)
 *   Z      the endpoint is closed
 * checked after every event:
 *   - the connect aio completes at most once: with the pipe after a valid handshake, with the error of the failed dial /
 *     handshake / pipe allocation, with the abort code, with NNG_ECLOSED at close; a second connect while one is pending
 *     is refused with NNG_EBUSY; while it is pending and nothing has failed, a dial or a handshake is in progress (it
 *     cannot stay pending for ever);
 *   - a failure that is not a close of THIS endpoint is never reported with NNG_ECLOSED / NNG_ECANCELED / NNG_ESTOPPED
 *     (core/dialer.c would stop redialing);
 *   - a connection that gets no pipe, or whose handshake fails, is closed / released once;
 *   - after close nothing is outstanding.
 */
#include "proto_kit.h"
#if TRAN == 0
#include "sp/transport/tcp/tcp.c"
#define TP tcptran_pipe
#define TE tcptran_ep
#define F(x) tcptran_##x
#define ACCEPT_CB tcptran_accept_cb
#define HDRSZ 8
#define RXHEAD rxlen
#define CONNAIO connaio
#define TIMEAIO timeaio
#define NEGOAIO negoaio
#define NPIPE npipe
#else
#include "sp/transport/ipc/ipc.c"
#define TP ipc_pipe
#define TE ipc_ep
#define F(x) ipc_##x
#define ACCEPT_CB ipc_ep_accept_cb
#define HDRSZ 8
#define RXHEAD rx_head
#define CONNAIO conn_aio
#define TIMEAIO time_aio
#define NEGOAIO neg_aio
#define NPIPE pipe
#define waitpipes wait_pipes
#define negopipes nego_pipes
#define useraio user_aio
#define tcptran_ep_accept ipc_ep_accept
#define tcptran_ep_connect ipc_ep_connect
#define tcptran_dialer_init ipc_ep_init_dialer
#define tcptran_dial_cb ipc_ep_dial_cb
#define tcptran_ep_close ipc_ep_close
#define tcptran_ep_init ipc_ep_init
#define tcptran_pipe_init ipc_pipe_init
#endif

#define NC 3
/* ---- stub connections: one outstanding transfer each ---- */
struct conn {
	nni_aio *xfer;
	int      is_recv;
	int      closed, freed;
};
static struct conn conns[NC];
static int         nconn;
static void
xfer_cancel(nni_aio *aio, void *arg, nng_err rv)
{
	struct conn *c = arg;
	if (c->xfer == aio) {
		c->xfer = NULL;
		nni_aio_finish_error(aio, rv);
	}
}
static void
xfer_start(nng_stream *s, nni_aio *aio, int is_recv)
{
	struct conn *c = (struct conn *) s;
	nni_aio_reset(aio);
	if (!nni_aio_start(aio, xfer_cancel, c))
		return;
	CHECK(c->xfer == NULL, "one stream transfer at a time during the handshake");
	c->xfer    = aio;
	c->is_recv = is_recv;
}
void
nng_stream_send(nng_stream *s, nni_aio *aio)
{
	xfer_start(s, aio, 0);
}
void
nng_stream_recv(nng_stream *s, nni_aio *aio)
{
	xfer_start(s, aio, 1);
}
void
nng_stream_close(nng_stream *s)
{
	((struct conn *) s)->closed++;
}
void
nng_stream_stop(nng_stream *s)
{
	(void) s;
}
void
nng_stream_free(nng_stream *s)
{
	((struct conn *) s)->freed++;
}
static nng_sockaddr s_addr;
const nng_sockaddr *
nng_stream_peer_addr(nng_stream *s)
{
	(void) s;
	return &s_addr;
}
const nng_sockaddr *
nng_stream_self_addr(nng_stream *s)
{
	(void) s;
	return &s_addr;
}
const char *
nng_str_sockaddr(const nng_sockaddr *sa, char *buf, size_t bufsz)
{
	(void) sa;
	if (bufsz > 0)
		buf[0] = 0;
	return buf;
}
nng_err
nng_stream_get_int(nng_stream *s, const char *n, int *v)
{
	(void) s;
	(void) n;
	(void) v;
	return NNG_ENOTSUP;
}
uint32_t
nni_pipe_sock_id(nni_pipe *p)
{
	(void) p;
	return 1;
}
static int pipe_released;
void
nni_pipe_rele(nni_pipe *p)
{
	(void) p;
	pipe_released++;
}


/* ---- stub stream dialer ---- */
static nni_aio *dial_aio;
static int      d_closed;
static void
dial_cancel(nni_aio *aio, void *arg, nng_err rv)
{
	(void) arg;
	if (dial_aio == aio) {
		dial_aio = NULL;
		nni_aio_finish_error(aio, rv);
	}
}
void
nng_stream_dialer_dial(nng_stream_dialer *d, nni_aio *aio)
{
	(void) d;
	nni_aio_reset(aio);
	if (d_closed) {
		nni_aio_finish_error(aio, NNG_ECLOSED);
		return;
	}
	if (!nni_aio_start(aio, dial_cancel, NULL))
		return;
	CHECK(dial_aio == NULL, "one stream dial at a time per endpoint (the same aio is never started twice)");
	dial_aio = aio;
}
void
nng_stream_dialer_close(nng_stream_dialer *d)
{
	(void) d;
	d_closed = 1;
	if (dial_aio != NULL) {
		nni_aio *a = dial_aio;
		dial_aio   = NULL;
		nni_aio_finish_error(a, NNG_ECLOSED);
	}
}
void
nng_stream_listener_close(nng_stream_listener *l)
{
	(void) l;
}
void
nng_stream_listener_accept(nng_stream_listener *l, nni_aio *aio)
{
	(void) l, (void) aio;
}
void
nng_sleep_aio(nng_duration ms, nng_aio *aio)
{
	(void) ms, (void) aio;
}
struct nni_dialer {
	int x;
};
struct nni_socket {
	uint16_t proto;
};
static struct nni_dialer nd;
static struct nni_socket sk = { 0x30 };
nni_sock *
nni_dialer_sock(nni_dialer *d)
{
	(void) d;
	return &sk;
}
void
nni_dialer_add_stat(nni_dialer *d, nni_stat_item *item)
{
	(void) d, (void) item;
}
nng_err
nng_stream_dialer_alloc_url(nng_stream_dialer **dp, const nng_url *u)
{
	static int obj;
	(void) u;
	*dp = (nng_stream_dialer *) &obj;
	return NNG_OK;
}
uint16_t
nni_sock_proto_id(nni_sock *s)
{
	return s->proto;
}
static TP       tpp[NC];
static nni_pipe npp[NC];
static int      npool;
static int      fail_next_pipe;
int
nni_pipe_alloc_dialer(void **datap, nni_dialer *d)
{
	(void) d;
	if (fail_next_pipe) {
		fail_next_pipe = 0;
		return NNG_ENOMEM;
	}
	CHECK(npool < NC, "harness: pipe pool large enough");
	int k = npool < NC ? npool : 0;
	npool++;
	env_pipe_init(&npp[k], 300 + k, 0);
	tcptran_pipe_init(&tpp[k], &npp[k]);
	*datap = &tpp[k];
	return 0;
}
int
nni_pipe_alloc_listener(void **datap, nni_listener *l)
{
	(void) datap, (void) l;
	return NNG_ENOTSUP;
}

static TE  ep;
static int closed_;
static int user_cur = -1; /* the core dialer's outstanding connect */
static int expect_done[MAXU];
static nng_err expect_rv[MAXU];
static int expect_pipe[MAXU];
static int nego_k = -1;   /* connection whose handshake is in progress */

static void
settle_user(nng_err rv, int pipe_k)
{
	if (user_cur < 0)
		return;
	expect_done[user_cur] = 1;
	expect_rv[user_cur]   = rv;
	expect_pipe[user_cur] = pipe_k;
	user_cur              = -1;
}
static void
monitor(void)
{
	kquiesce();
	for (int i = 0; i < MAXU; i++) {
		if (!uaio_used[i])
			continue;
		CHECK(env_aio_completed(&uaio_at(i)) <= 1, "C02: a connect request completes at most once");
		if (!expect_done[i]) {
			CHECK(!KDONE(i), "a connect request that nothing has decided yet stays pending");
			continue;
		}
		CHECK(KDONE(i), "C02: a connect request that was decided (connected, failed, aborted, closed) has completed");
		CHECK(KRESULT(i) == expect_rv[i], "connect result: 0 with the pipe, the error of the failed dial / handshake / allocation, the abort code, NNG_ECLOSED at close, NNG_EBUSY for a second concurrent request");
		if (expect_rv[i] == 0)
			CHECK(nni_aio_get_output(&uaio_at(i), 0) == (void *) &npp[expect_pipe[i]], "the connect request gets the pipe of the connection that finished its handshake");
	}
	CHECK((ep.useraio != NULL) == (user_cur >= 0), "the endpoint remembers exactly the pending connect request");
	if (user_cur >= 0 && !closed_)
		CHECK(dial_aio != NULL || nego_k >= 0, "C02/C14: while a connect request is pending, a dial or a handshake is in progress (otherwise it would stay pending for ever and the dialer would never redial)");
	for (int k = 0; k < NC; k++)
		CHECK(conns[k].freed <= 1 && conns[k].closed <= 2, "a connection is released once");
}
static void
ev_user(int i)
{
	KNEED(!uaio_used[i]);
	if (kstop)
		return;
	kuaio_prepare(i, 1);
	env_aio_submit(&uaio_at(i));
	if (closed_) {
		expect_done[i] = 1;
		expect_rv[i]   = NNG_ECLOSED;
	} else if (user_cur >= 0) {
		expect_done[i] = 1;
		expect_rv[i]   = NNG_EBUSY;
		WITNESS("second concurrent connect refused");
	} else {
		user_cur = i;
	}
	tcptran_ep_connect(&ep, &uaio_at(i));
	monitor();
}
/* kind 0: connected, 1: refused, 2: connected but no pipe */
static void
ev_dial(int kind)
{
	KNEED(dial_aio == &ep.CONNAIO && !closed_);
	if (kstop)
		return;
	nni_aio *a = dial_aio;
	dial_aio   = NULL;
	if (kind == 1) {
		nni_aio_finish_error(a, NNG_ECONNREFUSED);
		kquiesce();
		settle_user(NNG_ECONNREFUSED, 0);
		WITNESS("dial refused");
	} else {
		CHECK(nconn < NC, "harness: connection pool large enough");
		int k = nconn < NC ? nconn : 0;
		nconn++;
		if (kind == 2)
			fail_next_pipe = 1;
		nni_aio_set_output(a, 0, &conns[k]);
		nni_aio_finish(a, 0, 0);
		kquiesce();
		if (kind == 2) {
			CHECK(conns[k].freed == 1, "C20: a connection that gets no pipe is released");
			settle_user(NNG_ENOMEM, 0);
			WITNESS("no pipe for the new connection");
		} else {
			CHECK(conns[k].xfer != NULL && !conns[k].is_recv, "the handshake starts by sending our header");
			nego_k = k;
			WITNESS("connected, handshake started");
		}
	}
	monitor();
}
static void
ev_nego(int ok)
{
	KNEED(nego_k >= 0 && !closed_);
	if (kstop)
		return;
	struct conn *c  = &conns[nego_k];
	int          pk = -1;
	for (int j = 0; j < NC; j++)
		if (j < npool && tpp[j].conn == (nng_stream *) c)
			pk = j;
	KNEED(pk >= 0 && c->xfer != NULL);
	if (kstop)
		return;
	nego_k = -1;
	if (ok == 1) {
		nni_aio *a = c->xfer;
		c->xfer    = NULL;
		nni_aio_finish(a, 0, HDRSZ);
		kquiesce();
		CHECK(c->xfer != NULL && c->is_recv, "then the peer's header is read");
		a       = c->xfer;
		c->xfer = NULL;
		u8 *h   = tpp[pk].RXHEAD;
		h[0] = 0, h[1] = 'S', h[2] = 'P', h[3] = 0, h[4] = 0, h[5] = 0x31, h[6] = 0, h[7] = 0;
		nni_aio_finish(a, 0, HDRSZ);
		kquiesce();
		CHECK(tpp[pk].peer == 0x31, "the peer's protocol id is taken from its header");
		settle_user(0, pk);
		WITNESS("handshake completed");
	} else {
		nni_aio *a   = c->xfer;
		c->xfer      = NULL;
		nng_err  srv = ok == 2 ? NNG_ECLOSED : NNG_ECONNRESET;
		int      had = user_cur;
		nni_aio_finish_error(a, srv);
		kquiesce();
		CHECK(c->closed >= 1 && npp[pk].close_calls >= 1, "a connection whose handshake fails is closed, and its pipe");
		if (had >= 0) {
			nng_err got = nni_aio_result(&uaio_at(had));
			CHECK(KDONE(had) && got != NNG_ECLOSED && got != NNG_ECANCELED && got != NNG_ESTOPPED && got != 0,
			    "C14: a failed handshake is reported as a connection failure, never as 'endpoint closed' (core/dialer.c would stop redialing)");
		}
		settle_user(ok == 2 ? NNG_ECONNSHUT : NNG_ECONNRESET, 0);
		WITNESS("handshake failed");
	}
	monitor();
}
static void
ev_abort(int i)
{
	KNEED(uaio_used[i] && !KDONE(i) && user_cur == i);
	if (kstop)
		return;
	settle_user(NNG_ECANCELED, 0);
	nni_aio_abort(&uaio_at(i), NNG_ECANCELED);
	monitor();
	WITNESS("connect aborted");
}
static void
ev_close(void)
{
	KNEED(!closed_);
	if (kstop)
		return;
	tcptran_ep_close(&ep);
	closed_ = 1;
	settle_user(NNG_ECLOSED, 0);
	monitor();
	CHECK(dial_aio == NULL, "closing the endpoint aborts the dial in progress");
	WITNESS("closed");
}
#define U(i) if (!kstop) ev_user(i);
#define D0 if (!kstop) ev_dial(0);
#define DR if (!kstop) ev_dial(1);
#define DP if (!kstop) ev_dial(2);
#define N(ok) if (!kstop) ev_nego(ok);
#define X(i) if (!kstop) ev_abort(i);
#define Z if (!kstop) ev_close();
#ifndef SKEL
#define SKEL U(0) D0 N(1) Z
#endif
void
harness(void)
{
	static nng_url url;
	static char    path[] = "x";
	static char empty[] = "";
	url.u_path     = TRAN == 0 ? empty : path;
	url.u_hostname = path;
	url.u_port     = 80;
	CHECK(tcptran_dialer_init(&ep, &url, &nd) == 0, "dialer endpoint initialised");
	SKEL
	if (!kstop)
		WITNESS("skeleton ran to its end");
#ifdef MUSTEND
	CHECK(!kstop, "every event of the skeleton found the library in the state the previous events must have left it in");
#endif
	if (!closed_) {
		tcptran_ep_close(&ep);
		closed_ = 1;
		settle_user(NNG_ECLOSED, 0);
		monitor();
	}
	for (int i = 0; i < MAXU; i++)
		if (uaio_used[i])
			CHECK(env_aio_completed(&uaio_at(i)) == 1, "C10: after close every connect request has completed exactly once");
	CHECK(dial_aio == NULL, "nothing is outstanding after close");
	CHECK(env_locks_held == 0, "no lock held");
	WITNESS("end");
}

/* C14: real core/socket.c
 * MODE 1: the pipe-event filter nni_pipe_run_cb under a SYMBOLIC sequence of 5
 *   event submissions (each any of ADD_PRE / ADD_POST / REM_POST): the callbacks
 *   the application sees form a strictly increasing subsequence of
 *   ADD_PRE < ADD_POST < REM_POST, each at most once, and never ADD_POST or
 *   REM_POST without ADD_PRE.
 * MODE 2: the redial back-off dialer_timer_start_locked for ANY current / initial
 *   / maximum reconnect time (0 .. 2^30 ms, current <= max(initial, maximum))
 *   and ANY random number: the delay is below the current back-off, which is at
 *   most the larger configured time; the next back-off stays within that bound;
 *   no signed overflow.
 */
#include "env_aio.h"
#include "core/socket.c"
extern int env_locks_held;
static int seen[8], nseen, order_ok = 1, last_ev;
static void
my_cb(nng_pipe p, nng_pipe_ev ev, void *arg)
{
	(void) p;
	(void) arg;
	seen[ev & 7]++;
	if ((int) ev <= last_ev)
		order_ok = 0;
	last_ev = (int) ev;
	nseen++;
}
static nni_sock   S;
static nni_pipe   P;
static nni_dialer D;
void
harness(void)
{
#if MODE == 1
	nni_mtx_init(&S.s_pipe_cbs_mtx);
	S.s_want_evs = true;
	for (int e = 0; e < NNG_PIPE_EV_NUM; e++)
		S.s_pipe_cbs[e].cb_fn = my_cb;
	P.p_sock       = &S;
	P.p_id         = 5;
	P.p_last_event = NNG_PIPE_EV_NONE;
	last_ev        = -1;
	for (int i = 0; i < 5; i++) {
		int ev = ND(vint);
		ASSUME(ev == NNG_PIPE_EV_ADD_PRE || ev == NNG_PIPE_EV_ADD_POST || ev == NNG_PIPE_EV_REM_POST);
		nni_pipe_run_cb(&P, (nng_pipe_ev) ev);
	}
	CHECK(order_ok, "notifications fire in the order ADD_PRE, ADD_POST, REM_POST");
	CHECK(seen[NNG_PIPE_EV_ADD_PRE] <= 1 && seen[NNG_PIPE_EV_ADD_POST] <= 1 && seen[NNG_PIPE_EV_REM_POST] <= 1, "each notification fires at most once per pipe");
	CHECK(seen[NNG_PIPE_EV_ADD_PRE] == 1 || (seen[NNG_PIPE_EV_ADD_POST] == 0 && seen[NNG_PIPE_EV_REM_POST] == 0), "never ADD_POST or REM_POST without ADD_PRE");
	if (nseen == 3)
		WITNESS("all three events");
	if (nseen == 0)
		WITNESS("nothing delivered");
	CHECK(env_locks_held == 0, "no lock held");
#else
	nni_mtx_init(&S.s_mx);
	D.d_sock = &S;
	nni_aio_init(&D.d_tmo_aio, NULL, NULL);
	nni_duration cur = ND(i32), ini = ND(i32), mx = ND(i32);
	ASSUME(ini >= 0 && ini < (1 << 30) && mx >= 0 && mx < (1 << 30)); /* < 2^30 ms (12 days): doubling cannot overflow; larger values are outside the claim */
	nni_duration bound = ini > mx ? ini : mx;
	ASSUME(cur >= 0 && cur <= bound);
	D.d_currtime     = cur;
	D.d_inirtime     = ini;
	D.d_maxrtime     = mx;
	env_random_value = ND(u32);
	env_now          = 5000;
	dialer_timer_start_locked(&D);
	CHECK(env_aio_outstanding(&D.d_tmo_aio), "a redial is scheduled");
	nni_time delay = D.d_tmo_aio.a_expire - env_now;
	CHECK(cur == 0 ? delay == 0 : delay < (nni_time) cur, "the randomised delay is below the current back-off");
	CHECK(delay <= (nni_time) bound, "the delay never exceeds the larger configured reconnect time");
	CHECK(D.d_currtime >= 0 && D.d_currtime <= bound, "the next back-off stays within the larger configured reconnect time");
	CHECK(D.d_currtime >= cur || D.d_currtime == mx, "the back-off grows until it reaches the maximum");
	if (delay > 0)
		WITNESS("positive delay");
	if (D.d_currtime == mx && cur < mx)
		WITNESS("capped at maximum");
#endif
	WITNESS("end");
}

/* C14: real core/socket.c
 * MODE 1: the pipe-event filter nni_pipe_run_cb under a SYMBOLIC sequence of 5
 *   event submissions (each any of ADD_PRE / ADD_POST / REM_POST): the callbacks
 *   the application sees form a strictly increasing subsequence of
 *   ADD_PRE < ADD_POST < REM_POST, each at most once, and never ADD_POST or
 *   REM_POST without ADD_PRE.
 * MODE 2: the redial back-off dialer_timer_start_locked for ANY current / initial
 *   / maximum reconnect time (0 .. 2^30 ms, current <= max(initial, maximum))
 *   and ANY random number: the delay is below the current back-off, which is at
 *   most the larger configured time; the next back-off stays within that bound;
 *   no signed overflow.
 * MODE 3: dialer_start_pipe / listener_start_pipe (LISTENER) for a new connection: ADD_PRE, then the protocol's
 *   pipe_start, then ADD_POST; a pipe closed by the application inside ADD_PRE (CLOSEPRE) is never started and never
 *   announced with ADD_POST (it carries no application messages); a pipe the protocol refuses (pipe_start returns ANY
 *   non-zero code) is closed and not announced; in every case exactly one reference is released; a dialer records the
 *   pipe as its one pipe and resets its back-off.
 * MODE 4: nni_pipe_remove: the pipe leaves the socket's and the endpoint's lists; if it was its dialer's current pipe
 *   the dialer forgets it and a redial is scheduled (WHOSE 0); a pipe that is not the dialer's current one (WHOSE 1)
 *   or belongs to a listener (WHOSE 2) schedules nothing; a closing socket is woken.
 * MODE 5: nng_pipe_notify registration (real nni_sock_set_pipe_cb) against the event filter: NREG arbitrary calls
 *   (ANY event number incl. invalid ones, callback or NULL) before a pipe is born, one more deregistration in the middle
 *   of its life: exactly the events that have a callback registered when they happen are delivered (in order, once each,
 *   with the argument registered for that event); removing the callback of ONE event never silences the others, an
 *   invalid event number changes nothing.
 */
#include "env_aio.h"
#include "core/socket.c"
extern int env_locks_held, env_cv_wakes;
static int seen[8], nseen, order_ok = 1, last_ev;
static int clock_, t_pre, t_start, t_post, pipe_closes, pipe_reles;
static nni_sock   S;
static nni_pipe   P, P2;
static nni_dialer D;
static nni_listener L;
static void
my_cb(nng_pipe p, nng_pipe_ev ev, void *arg)
{
	(void) p;
	(void) arg;
	seen[ev & 7]++;
	if ((int) ev <= last_ev)
		order_ok = 0;
	last_ev = (int) ev;
	nseen++;
#if MODE == 3
	if (ev == NNG_PIPE_EV_ADD_PRE) {
		t_pre = ++clock_;
#ifdef CLOSEPRE
		nni_pipe_close(&P); /* what nng_pipe_close(p) from the callback does */
#endif
	}
	if (ev == NNG_PIPE_EV_ADD_POST)
		t_post = ++clock_;
#endif
}
#if MODE == 3 || MODE == 4
void
nni_pipe_close(nni_pipe *p)
{
	nni_atomic_set_bool(&p->p_closed, true);
	pipe_closes++;
}
bool
nni_pipe_is_closed(nni_pipe *p)
{
	return nni_atomic_get_bool(&p->p_closed);
}
void
nni_pipe_rele(nni_pipe *p)
{
	(void) p;
	pipe_reles++;
}
/* logging is switched off (NNG_LOG_NONE is the default level): the address formatting behind it is not reached */
nng_log_level
nng_log_get_level(void)
{
	return NNG_LOG_NONE;
}
static int start_rv;
static int
my_pipe_start(void *a)
{
	(void) a;
	t_start = ++clock_;
	return start_rv;
}
#endif
#if MODE == 5
static int argtag[4];
static int got_arg_ok = 1;
static void
my_cb5(nng_pipe p, nng_pipe_ev ev, void *arg)
{
	if (arg != &argtag[ev & 3])
		got_arg_ok = 0;
	my_cb(p, ev, arg);
}
#endif
void
harness(void)
{
#if MODE == 5
	int reg[4] = { 0, 0, 0, 0 };
	nni_mtx_init(&S.s_pipe_cbs_mtx);
	P.p_sock       = &S;
	P.p_id         = 5;
	P.p_last_event = NNG_PIPE_EV_NONE;
	last_ev        = -1;
	for (int i = 0; i < NREG; i++) {
		int  ev = ND(vint);
		bool on = ND(vbool);
		ASSUME(ev >= -1 && ev <= 4);
		nni_sock_set_pipe_cb(&S, ev, on ? my_cb5 : NULL, on ? &argtag[ev & 3] : NULL);
		if (ev > NNG_PIPE_EV_NONE && ev < NNG_PIPE_EV_NUM)
			reg[ev] = on;
	}
	int any_at_birth = reg[NNG_PIPE_EV_ADD_PRE] || reg[NNG_PIPE_EV_ADD_POST] || reg[NNG_PIPE_EV_REM_POST];
	nni_pipe_run_cb(&P, NNG_PIPE_EV_ADD_PRE);
	CHECK(seen[NNG_PIPE_EV_ADD_PRE] == (reg[NNG_PIPE_EV_ADD_PRE] ? 1 : 0), "ADD_PRE is delivered iff a callback is registered for it");
	CHECK(seen[NNG_PIPE_EV_ADD_POST] == 0 && seen[NNG_PIPE_EV_REM_POST] == 0, "nothing else is delivered at ADD_PRE");
	{
		/* the application drops the callback of one event while the pipe is alive */
		int ev = ND(vint);
		ASSUME(ev >= NNG_PIPE_EV_ADD_PRE && ev <= NNG_PIPE_EV_REM_POST);
		bool doit = ND(vbool);
		if (doit) {
			nni_sock_set_pipe_cb(&S, ev, NULL, NULL);
			reg[ev] = 0;
			WITNESS("deregistered mid-life");
		}
	}
	nni_pipe_run_cb(&P, NNG_PIPE_EV_ADD_POST);
	if (reg[NNG_PIPE_EV_ADD_POST] && any_at_birth) {
		CHECK(seen[NNG_PIPE_EV_ADD_POST] == 1, "ADD_POST is delivered to its registered callback whatever happened to the callbacks of other events");
		WITNESS("ADD_POST delivered");
	}
	if (!reg[NNG_PIPE_EV_ADD_POST])
		CHECK(seen[NNG_PIPE_EV_ADD_POST] == 0, "an event without a registered callback is not delivered");
	nni_pipe_run_cb(&P, NNG_PIPE_EV_REM_POST);
	if (reg[NNG_PIPE_EV_REM_POST] && any_at_birth) {
		CHECK(seen[NNG_PIPE_EV_REM_POST] == 1, "REM_POST is delivered to its registered callback whatever happened to the callbacks of other events");
		WITNESS("REM_POST delivered");
	}
	if (!reg[NNG_PIPE_EV_REM_POST])
		CHECK(seen[NNG_PIPE_EV_REM_POST] == 0, "an event without a registered callback is not delivered");
	CHECK(order_ok && got_arg_ok, "in order, each with the argument registered for that event");
	CHECK(seen[NNG_PIPE_EV_ADD_PRE] <= 1 && seen[NNG_PIPE_EV_ADD_POST] <= 1 && seen[NNG_PIPE_EV_REM_POST] <= 1, "each at most once");
	CHECK(env_locks_held == 0, "no lock held");
#elif MODE == 1
	nni_mtx_init(&S.s_pipe_cbs_mtx);
	S.s_want_evs = true;
	for (int e = 0; e < NNG_PIPE_EV_NUM; e++)
		S.s_pipe_cbs[e].cb_fn = my_cb;
	P.p_sock       = &S;
	P.p_id         = 5;
	P.p_last_event = NNG_PIPE_EV_NONE;
	last_ev        = -1;
	for (int i = 0; i < 5; i++) {
		int ev = ND(vint);
		ASSUME(ev == NNG_PIPE_EV_ADD_PRE || ev == NNG_PIPE_EV_ADD_POST || ev == NNG_PIPE_EV_REM_POST);
		nni_pipe_run_cb(&P, (nng_pipe_ev) ev);
	}
	CHECK(order_ok, "notifications fire in the order ADD_PRE, ADD_POST, REM_POST");
	CHECK(seen[NNG_PIPE_EV_ADD_PRE] <= 1 && seen[NNG_PIPE_EV_ADD_POST] <= 1 && seen[NNG_PIPE_EV_REM_POST] <= 1, "each notification fires at most once per pipe");
	CHECK(seen[NNG_PIPE_EV_ADD_PRE] == 1 || (seen[NNG_PIPE_EV_ADD_POST] == 0 && seen[NNG_PIPE_EV_REM_POST] == 0), "never ADD_POST or REM_POST without ADD_PRE");
	if (nseen == 3)
		WITNESS("all three events");
	if (nseen == 0)
		WITNESS("nothing delivered");
	CHECK(env_locks_held == 0, "no lock held");
#elif MODE == 3
	nni_mtx_init(&S.s_mx);
	nni_mtx_init(&S.s_pipe_cbs_mtx);
	S.s_want_evs = true;
	for (int e = 0; e < NNG_PIPE_EV_NUM; e++)
		S.s_pipe_cbs[e].cb_fn = my_cb;
	P.p_sock                 = &S;
	P.p_id                   = 5;
	P.p_last_event           = NNG_PIPE_EV_NONE;
	P.p_proto_ops.pipe_start = my_pipe_start;
	nni_atomic_init_bool(&P.p_closed);
	last_ev = -1;
#ifdef BADSTART
	start_rv = ND(vint);
	ASSUME(start_rv != 0);
#else
	start_rv = 0;
#endif
#ifdef LISTENER
	L.l_sock = &S;
	listener_start_pipe(&L, &P);
#else
	D.d_sock     = &S;
	D.d_inirtime = 100;
	D.d_currtime = 800;
	dialer_start_pipe(&D, &P);
	CHECK(D.d_pipe == &P, "the dialer records the new pipe as its (one) pipe");
	CHECK(D.d_currtime == D.d_inirtime, "a successful connection resets the redial back-off");
#endif
	CHECK(t_pre == 1, "ADD_PRE is the first thing that happens to a new pipe");
	CHECK(pipe_reles == 1, "the creation reference is released exactly once on every path");
#ifdef CLOSEPRE
	CHECK(t_start == 0, "a pipe closed inside ADD_PRE is never handed to the protocol (it carries no application messages)");
	CHECK(t_post == 0, "and ADD_POST is not raised for it");
	WITNESS("rejected in ADD_PRE");
#elif defined(BADSTART)
	CHECK(t_start == 2 && t_post == 0, "a pipe the protocol refuses is not announced with ADD_POST");
	CHECK(pipe_closes == 1 && nni_pipe_is_closed(&P), "it is closed");
	WITNESS("refused by the protocol");
#else
	CHECK(t_start == 2 && t_post == 3, "ADD_PRE, then the protocol's pipe_start, then ADD_POST");
	CHECK(pipe_closes == 0, "an accepted pipe stays open");
	WITNESS("started");
#endif
	CHECK(env_locks_held == 0, "no lock held");
#elif MODE == 4
	nni_mtx_init(&S.s_mx);
	nni_cv_init(&S.s_cv, &S.s_mx);
	NNI_LIST_INIT(&S.s_pipes, nni_pipe, p_sock_node);
	NNI_LIST_INIT(&D.d_pipes, nni_pipe, p_ep_node);
	NNI_LIST_INIT(&L.l_pipes, nni_pipe, p_ep_node);
	D.d_sock = &S;
	L.l_sock = &S;
	nni_aio_init(&D.d_tmo_aio, NULL, NULL);
	D.d_currtime = 100;
	D.d_inirtime = 100;
	D.d_maxrtime = 1000;
	P.p_sock     = &S;
	nni_list_append(&S.s_pipes, &P);
#if WHOSE == 2
	P.p_listener = &L;
	nni_list_append(&L.l_pipes, &P);
#else
	P.p_dialer = &D;
	nni_list_append(&D.d_pipes, &P);
	D.d_pipe = (WHOSE == 0) ? &P : &P2;
#endif
	int wakes0 = env_cv_wakes;
	nni_pipe_remove(&P);
	CHECK(nni_list_empty(&S.s_pipes) && nni_list_empty(&D.d_pipes) && nni_list_empty(&L.l_pipes), "the pipe leaves the socket's and its endpoint's lists");
	CHECK(env_cv_wakes > wakes0, "a socket waiting in close for its pipes is woken");
#if WHOSE == 0
	CHECK(D.d_pipe == NULL, "the dialer no longer owns a pipe");
	CHECK(env_aio_outstanding(&D.d_tmo_aio), "losing its pipe makes the dialer schedule a redial");
	CHECK(D.d_tmo_aio.a_expire - env_now < 100, "after a delay below the current back-off");
	WITNESS("redial scheduled");
#else
	CHECK(D.d_pipe == (WHOSE == 1 ? &P2 : NULL), "a dialer's current pipe is not touched by the removal of another pipe");
	CHECK(!env_aio_outstanding(&D.d_tmo_aio), "and no redial is scheduled");
	WITNESS("no redial");
#endif
	CHECK(env_locks_held == 0, "no lock held");
#else
	nni_mtx_init(&S.s_mx);
	D.d_sock = &S;
	nni_aio_init(&D.d_tmo_aio, NULL, NULL);
	nni_duration cur = ND(i32), ini = ND(i32), mx = ND(i32);
	ASSUME(ini >= 0 && ini < (1 << 30) && mx >= 0 && mx < (1 << 30)); /* < 2^30 ms (12 days): doubling cannot overflow; larger values are outside the claim */
	nni_duration bound = ini > mx ? ini : mx;
	ASSUME(cur >= 0 && cur <= bound);
	D.d_currtime     = cur;
	D.d_inirtime     = ini;
	D.d_maxrtime     = mx;
	env_random_value = ND(u32);
	env_now          = 5000;
	dialer_timer_start_locked(&D);
	CHECK(env_aio_outstanding(&D.d_tmo_aio), "a redial is scheduled");
	nni_time delay = D.d_tmo_aio.a_expire - env_now;
	CHECK(cur == 0 ? delay == 0 : delay < (nni_time) cur, "the randomised delay is below the current back-off");
	CHECK(delay <= (nni_time) bound, "the delay never exceeds the larger configured reconnect time");
	CHECK(D.d_currtime >= 0 && D.d_currtime <= bound, "the next back-off stays within the larger configured reconnect time");
	CHECK(D.d_currtime >= cur || D.d_currtime == mx, "the back-off grows until it reaches the maximum");
	if (delay > 0)
		WITNESS("positive delay");
	if (D.d_currtime == mx && cur < mx)
		WITNESS("capped at maximum");
#endif
	WITNESS("end");
}

/* C14: real core/dialer.c dialer_connect_cb for ANY result of a connection
 * attempt: a background dial (no user aio) that fails is retried - the redial
 * timer is armed - unless the dialer was closed / cancelled / stopped; a
 * successful attempt starts the pipe; a dial owned by a user aio reports the
 * result to it exactly once and does not arm the timer. */
#include "env_aio.h"
#include "core/dialer.c"
extern int env_locks_held;
static int pipe_starts, timer_starts, connects;
void
nni_pipe_start(nni_pipe *p)
{
	(void) p;
	pipe_starts++;
}
void
nni_dialer_timer_start(nni_dialer *d)
{
	(void) d;
	timer_starts++;
}
uint32_t
nni_sock_id(nni_sock *s)
{
	(void) s;
	return 1;
}
const char *
nng_strerror(nng_err e)
{
	(void) e;
	return "";
}
static void
my_connect(void *data, nni_aio *aio)
{
	(void) data;
	(void) aio;
	connects++;
}
static nni_dialer D;
void
harness(void)
{
	nni_aio user;
	nni_mtx_init(&D.d_mtx);
	nni_aio_init(&D.d_con_aio, dialer_connect_cb, &D);
	nni_aio_init(&D.d_tmo_aio, dialer_timer_cb, &D);
	D.d_ops.d_connect = my_connect;
	nng_err rv = (nng_err) ND(vint);
	D.d_con_aio.a_result = rv;
#ifdef STARTAIO
	/* C02: nng_dialer_start_aio with a user aio in ANY state (fresh, stopped,
	 * zero timeout, aborted beforehand): the operation completes exactly once */
	{
		int cls = STARTAIO; /* 0 fresh, 1 stopped, 2 zero timeout, 3 aborted before start */
		nni_aio_init(&user, NULL, NULL);
		if (cls == 1)
			nni_aio_stop(&user);
		if (cls == 2)
			nni_aio_set_timeout(&user, NNG_DURATION_ZERO);
		if (cls == 3)
			nni_aio_abort(&user, NNG_ECANCELED);
		nni_aio_reset(&user);
		if (cls == 3) {
			user.a_abort  = true; /* (reset clears the latch; the abort arrives after reset, before start) */
			user.a_result = NNG_ECANCELED;
		}
		env_aio_submit(&user);
		int r0 = nni_dialer_start_aio(&D, 0, &user);
		CHECK(r0 == 0, "dial is started");
		if (connects == 1) {
			/* the transport finishes the attempt */
			dialer_connect_cb(&D);
		}
		CHECK(env_aio_completed(&user) == 1, "C02: the dial operation completes exactly once whatever state the aio was submitted in");
		WITNESS("start_aio");
		WITNESS("end");
		return;
	}
#endif
#ifdef USERAIO
	nni_aio_init(&user, NULL, NULL);
	env_aio_submit(&user);
	D.d_user_aio = &user;
#else
	(void) user;
#endif
	dialer_connect_cb(&D);
	int terminal = (rv == NNG_ECLOSED || rv == NNG_ECANCELED || rv == NNG_ESTOPPED);
#ifdef USERAIO
	CHECK(env_aio_completed(&user) == 1 && nni_aio_result(&user) == rv, "a dial owned by a user operation reports its result to it exactly once");
	CHECK(timer_starts == 0, "a dial owned by a user operation is not retried behind its back");
	CHECK(D.d_user_aio == NULL, "the user operation is released");
	WITNESS("user dial");
#else
	if (rv == 0) {
		CHECK(pipe_starts == 1 && timer_starts == 0, "a successful connection is started");
		WITNESS("connected");
	} else if (terminal) {
		CHECK(timer_starts == 0 && pipe_starts == 0, "a closed, cancelled or stopped dialer does not redial");
		WITNESS("terminal");
	} else {
		CHECK(timer_starts == 1, "after any other failure of a background dial the redial timer is armed");
		WITNESS("redial armed");
	}
#endif
	CHECK(env_locks_held == 0, "no lock held");
	WITNESS("end");
}

/* C14 / C20 / C11: the accept loop of a stream transport's listener endpoint, the real
 * sp/transport/tcp/tcp.c (TRAN 0) or sp/transport/ipc/ipc.c (TRAN 2): *_ep_accept, *_accept_cb,
 * *_timer_cb, *_pipe_start, *_pipe_nego_cb, *_ep_match, *_ep_close over a stub stream listener.
 * events (SKEL), result codes concrete (R1):
 *   U(i)   the socket posts its accept aio i
 *   C0     the stream listener delivers a connection
 *   CM CF  the stream accept fails with NNG_ENOMEM / NNG_ENOFILES (resource exhaustion)
 *   CA     the stream accept fails with NNG_ECONNABORTED (that one connection is gone)
 *   CP     a connection arrives but no pipe can be allocated for it (NNG_ENOMEM)
 *   T      the 10 ms cool-down timer fires
 *   N(ok)  the oldest negotiating connection finishes its handshake (ok=1: valid SP header of the
 *          peer; ok=0: the stream fails with NNG_ECONNRESET; ok=2: with NNG_ECLOSED - the peer hung up, EPIPE)
 *   Z      the endpoint is closed
 * checked after every event:
 *   - "listeners keep accepting after individual failures": an open, started listener is always
 *     either waiting in the stream accept or in its cool-down pause - exactly one of the two - and
 *     after the pause it accepts again; a failure costs at most that one connection;
 *   - a connection whose pipe cannot be allocated, or whose handshake fails, is closed/freed once;
 *   - the socket's accept aio completes at most once: with the pipe of the first connection that
 *     finished a valid handshake (first come first served), or with the error of a failed accept /
 *     handshake (a notice, the core listener posts a new accept), or NNG_ECLOSED at close;
 *   - after close nothing is outstanding.
 */
#include "proto_kit.h"
#if TRAN == 0
#include "sp/transport/tcp/tcp.c"
#define TP tcptran_pipe
#define TE tcptran_ep
#define F(x) tcptran_##x
#define ACCEPT_CB tcptran_accept_cb
#define HDRSZ 8
#define RXHEAD rxlen
#define CONNAIO connaio
#define TIMEAIO timeaio
#define NEGOAIO negoaio
#define NPIPE npipe
#else
#include "sp/transport/ipc/ipc.c"
#define TP ipc_pipe
#define TE ipc_ep
#define F(x) ipc_##x
#define ACCEPT_CB ipc_ep_accept_cb
#define HDRSZ 8
#define RXHEAD rx_head
#define CONNAIO conn_aio
#define TIMEAIO time_aio
#define NEGOAIO neg_aio
#define NPIPE pipe
#define waitpipes wait_pipes
#define negopipes nego_pipes
#define useraio user_aio
#define tcptran_ep_accept ipc_ep_accept
#define tcptran_ep_close ipc_ep_close
#define tcptran_ep_init ipc_ep_init
#define tcptran_pipe_init ipc_pipe_init
#endif

#define NC 3
/* ---- stub connections: one outstanding transfer each ---- */
struct conn {
	nni_aio *xfer;
	int      is_recv;
	int      closed, freed;
};
static struct conn conns[NC];
static int         nconn;
static void
xfer_cancel(nni_aio *aio, void *arg, nng_err rv)
{
	struct conn *c = arg;
	if (c->xfer == aio) {
		c->xfer = NULL;
		nni_aio_finish_error(aio, rv);
	}
}
static void
xfer_start(nng_stream *s, nni_aio *aio, int is_recv)
{
	struct conn *c = (struct conn *) s;
	nni_aio_reset(aio);
	if (!nni_aio_start(aio, xfer_cancel, c))
		return;
	CHECK(c->xfer == NULL, "one stream transfer at a time during the handshake");
	c->xfer    = aio;
	c->is_recv = is_recv;
}
void
nng_stream_send(nng_stream *s, nni_aio *aio)
{
	xfer_start(s, aio, 0);
}
void
nng_stream_recv(nng_stream *s, nni_aio *aio)
{
	xfer_start(s, aio, 1);
}
void
nng_stream_close(nng_stream *s)
{
	((struct conn *) s)->closed++;
}
void
nng_stream_stop(nng_stream *s)
{
	(void) s;
}
void
nng_stream_free(nng_stream *s)
{
	((struct conn *) s)->freed++;
}
static nng_sockaddr s_addr;
const nng_sockaddr *
nng_stream_peer_addr(nng_stream *s)
{
	(void) s;
	return &s_addr;
}
const nng_sockaddr *
nng_stream_self_addr(nng_stream *s)
{
	(void) s;
	return &s_addr;
}
const char *
nng_str_sockaddr(const nng_sockaddr *sa, char *buf, size_t bufsz)
{
	(void) sa;
	if (bufsz > 0)
		buf[0] = 0;
	return buf;
}
nng_err
nng_stream_get_int(nng_stream *s, const char *n, int *v)
{
	(void) s;
	(void) n;
	(void) v;
	return NNG_ENOTSUP;
}
uint32_t
nni_pipe_sock_id(nni_pipe *p)
{
	(void) p;
	return 1;
}
static int pipe_released;
void
nni_pipe_rele(nni_pipe *p)
{
	(void) p;
	pipe_released++;
}

/* ---- stub stream listener and timer ---- */
static nni_aio *acc_aio, *tmr_aio;
static int      l_closed;
static void
slot_cancel(nni_aio *aio, void *arg, nng_err rv)
{
	nni_aio **slot = arg;
	if (*slot == aio) {
		*slot = NULL;
		nni_aio_finish_error(aio, rv);
	}
}
void
nng_stream_listener_accept(nng_stream_listener *l, nni_aio *aio)
{
	(void) l;
	nni_aio_reset(aio);
	if (l_closed) {
		nni_aio_finish_error(aio, NNG_ECLOSED);
		return;
	}
	if (!nni_aio_start(aio, slot_cancel, &acc_aio))
		return;
	CHECK(acc_aio == NULL, "one stream accept at a time");
	acc_aio = aio;
}
void
nng_stream_listener_close(nng_stream_listener *l)
{
	(void) l;
	l_closed = 1;
	if (acc_aio != NULL) {
		nni_aio *a = acc_aio;
		acc_aio    = NULL;
		nni_aio_finish_error(a, NNG_ECLOSED);
	}
}
void
nng_stream_dialer_close(nng_stream_dialer *d)
{
	(void) d;
}
void
nng_sleep_aio(nng_duration ms, nng_aio *aio)
{
	CHECK(ms > 0, "the cool-down pause is a positive time");
	nni_aio_reset(aio);
	if (!nni_aio_start(aio, slot_cancel, &tmr_aio))
		return;
	CHECK(tmr_aio == NULL, "one cool-down timer at a time");
	tmr_aio = aio;
}

/* ---- pipes from a pool (the core allocates pipe + transport data and calls p_init) ---- */
struct nni_listener {
	int x;
};
struct nni_socket {
	uint16_t proto;
};
static struct nni_listener nl;
static struct nni_socket   sk = { 0x30 };
uint16_t
nni_sock_proto_id(nni_sock *s)
{
	return s->proto;
}
static TP       tpp[NC];
static nni_pipe npp[NC];
static int      npool;
static int      fail_next_pipe;
int
nni_pipe_alloc_listener(void **datap, nni_listener *l)
{
	(void) l;
	if (fail_next_pipe) {
		fail_next_pipe = 0;
		return NNG_ENOMEM;
	}
	CHECK(npool < NC, "harness: pipe pool large enough");
	int k = npool < NC ? npool : 0;
	npool++;
	env_pipe_init(&npp[k], 300 + k, 0);
	tcptran_pipe_init(&tpp[k], &npp[k]);
	*datap = &tpp[k];
	return 0;
}
int
nni_pipe_alloc_dialer(void **datap, nni_dialer *d)
{
	(void) datap;
	(void) d;
	return NNG_ENOTSUP;
}

static TE  ep;
static int started, closed_;
/* membership in one particular list (nni_list_active only says "linked somewhere") */
static int
in_list(nni_list *l, TP *p)
{
	TP *q;
	NNI_LIST_FOREACH (l, q) {
		if (q == p)
			return 1;
	}
	return 0;
}
static int nego_order[NC], nnego, nnego_done; /* connections in the order their handshake started */
static int ready_q[NC], nready, nready_taken;  /* connections with a valid handshake, not yet handed to the socket */
static int user_cur = -1;                      /* the socket's outstanding accept */
static int expect_done[MAXU];
static nng_err expect_rv[MAXU];
static int expect_pipe[MAXU];

static void
settle_user(nng_err rv, int pipe_k)
{
	if (user_cur < 0)
		return;
	expect_done[user_cur] = 1;
	expect_rv[user_cur]   = rv;
	expect_pipe[user_cur] = pipe_k;
	user_cur              = -1;
}
static void
model_match(void)
{
	if (user_cur >= 0 && nready_taken < nready) {
		int k = ready_q[nready_taken < NC ? nready_taken : 0];
		nready_taken++;
		settle_user(0, k);
	}
}
static void
monitor(void)
{
	kquiesce();
	int acc = acc_aio == &ep.CONNAIO, tmr = tmr_aio == &ep.TIMEAIO;
	if (closed_) {
		CHECK(!acc && !tmr, "a closed listener has neither an accept nor a timer outstanding");
	} else if (started) {
		CHECK(acc + tmr == 1, "an open listener is always either accepting or in its cool-down pause: no failure leaves it deaf");
	} else {
		CHECK(!acc && !tmr, "nothing is started before the socket asks for a connection");
	}
	for (int i = 0; i < MAXU; i++) {
		if (!uaio_used[i])
			continue;
		CHECK(env_aio_completed(&uaio_at(i)) <= 1, "the socket's accept completes at most once");
		if (!expect_done[i]) {
			CHECK(!KDONE(i), "the socket's accept stays pending until a connection is ready or a failure is reported");
			continue;
		}
		CHECK(KDONE(i), "the socket's accept has completed");
		CHECK(KRESULT(i) == expect_rv[i], "accept result: 0 with a ready connection, else the failure that was reported, NNG_ECLOSED at close");
		if (expect_rv[i] == 0) {
			CHECK(nni_aio_get_output(&uaio_at(i), 0) == (void *) &npp[expect_pipe[i]], "connections are handed to the socket in the order their handshakes completed");
		}
	}
	CHECK((ep.useraio != NULL) == (user_cur >= 0), "the endpoint remembers exactly the pending accept of the socket");
	for (int k = 0; k < NC; k++)
		CHECK(conns[k].freed <= 1 && conns[k].closed <= 2, "a connection is released once");
}

static void
ev_user(int i)
{
	KNEED(!uaio_used[i] && user_cur < 0);
	if (kstop)
		return;
	kuaio_prepare(i, 1);
	env_aio_submit(&uaio_at(i));
	tcptran_ep_accept(&ep, &uaio_at(i));
	if (closed_) {
		expect_done[i] = 1;
		expect_rv[i]   = NNG_ECLOSED;
	} else {
		user_cur = i;
		started  = 1;
		model_match();
	}
	monitor();
}
/* kind: 0 connection, 1 ENOMEM, 2 ENOFILES, 3 ECONNABORTED, 4 connection but no pipe */
static void
ev_conn(int kind)
{
	KNEED(acc_aio == &ep.CONNAIO && !closed_);
	if (kstop)
		return;
	nni_aio *a = acc_aio;
	acc_aio    = NULL;
	if (kind == 0 || kind == 4) {
		CHECK(nconn < NC, "harness: connection pool large enough");
		int k = nconn < NC ? nconn : 0;
		nconn++;
		if (kind == 4)
			fail_next_pipe = 1;
		nni_aio_set_output(a, 0, &conns[k]);
		nni_aio_finish(a, 0, 0);
		kquiesce();
		if (kind == 4) {
			CHECK(conns[k].freed == 1, "a connection that gets no pipe is released");
			settle_user(NNG_ENOMEM, 0);
			CHECK(tmr_aio == &ep.TIMEAIO, "resource exhaustion starts the cool-down pause");
			WITNESS("no pipe for an accepted connection");
		} else {
			CHECK(conns[k].xfer != NULL && !conns[k].is_recv, "the handshake starts by sending our header");
			CHECK(in_list(&ep.negopipes, &tpp[npool - 1]), "the new connection is negotiating");
			nego_order[nnego < NC ? nnego : 0] = k;
			nnego++;
			CHECK(acc_aio == &ep.CONNAIO, "after delivering a connection the listener accepts the next one at once");
			WITNESS("connection accepted");
		}
	} else {
		nng_err e = kind == 1 ? NNG_ENOMEM : kind == 2 ? NNG_ENOFILES : NNG_ECONNABORTED;
		nni_aio_finish_error(a, e);
		kquiesce();
		settle_user(e, 0);
		if (kind == 3) {
			CHECK(acc_aio == &ep.CONNAIO, "an aborted connection costs only itself: the listener accepts again at once");
			WITNESS("aborted connection skipped");
		} else {
			CHECK(tmr_aio == &ep.TIMEAIO && acc_aio == NULL, "resource exhaustion starts the cool-down pause instead of spinning");
			WITNESS("cool-down started");
		}
	}
	monitor();
}
static void
ev_timer(void)
{
	KNEED(tmr_aio == &ep.TIMEAIO && !closed_);
	if (kstop)
		return;
	nni_aio *a = tmr_aio;
	tmr_aio    = NULL;
	nni_aio_finish(a, 0, 0);
	kquiesce();
	CHECK(acc_aio == &ep.CONNAIO, "when the cool-down pause ends the listener accepts again");
	WITNESS("accepting again after the pause");
	monitor();
}
static void
ev_nego(int ok)
{
	KNEED(nnego_done < nnego && !closed_);
	if (kstop)
		return;
	int          k = nego_order[nnego_done < NC ? nnego_done : 0];
	struct conn *c = &conns[k];
	int          pk = -1;
	for (int j = 0; j < NC; j++)
		if (j < npool && tpp[j].conn == (nng_stream *) c)
			pk = j;
	KNEED(pk >= 0 && c->xfer != NULL);
	if (kstop)
		return;
	nnego_done++;
	if (ok == 1) {
		nni_aio *a = c->xfer;
		c->xfer    = NULL;
		nni_aio_finish(a, 0, HDRSZ); /* our header went out */
		kquiesce();
		CHECK(c->xfer != NULL && c->is_recv, "then the peer's header is read");
		a       = c->xfer;
		c->xfer = NULL;
		u8 *h   = tpp[pk].RXHEAD;
		h[0] = 0, h[1] = 'S', h[2] = 'P', h[3] = 0, h[4] = 0, h[5] = 0x31, h[6] = 0, h[7] = 0;
		nni_aio_finish(a, 0, HDRSZ);
		kquiesce();
		CHECK(!in_list(&ep.negopipes, &tpp[pk]), "a finished handshake leaves the negotiating set");
		CHECK(tpp[pk].peer == 0x31, "the peer's protocol id is taken from its header");
		ready_q[nready < NC ? nready : 0] = pk;
		nready++;
		model_match();
		WITNESS("handshake completed");
	} else {
		nni_aio *a = c->xfer;
		c->xfer    = NULL;
		/* ok == 2: the peer hung up before the handshake went out - the platform stream reports EPIPE as NNG_ECLOSED */
		nng_err srv = ok == 2 ? NNG_ECLOSED : NNG_ECONNRESET;
		int     had = user_cur;
		nni_aio_finish_error(a, srv);
		kquiesce();
		if (had >= 0) {
			/* core/listener.c listener_accept_cb (and dialer_connect_cb) read NNG_ECLOSED / NNG_ECANCELED / NNG_ESTOPPED as
			 * "this endpoint was closed" and stop accepting (dialing) for good: a connection-level failure must never be
			 * reported to the socket with one of those codes while the endpoint is open */
			nng_err got = nni_aio_result(&uaio_at(had));
			CHECK(KDONE(had) && got != NNG_ECLOSED && got != NNG_ECANCELED && got != NNG_ESTOPPED && got != 0,
			    "C11/C14: a peer that drops out of the handshake is reported as a connection failure, never as 'endpoint closed' (the listener would stop accepting)");
			if (ok == 2)
				WITNESS("peer hung up during the handshake");
		}
		CHECK(c->closed >= 1, "a connection whose handshake fails is closed");
		CHECK(npp[pk].close_calls >= 1, "and its pipe is closed");
		CHECK(!in_list(&ep.negopipes, &tpp[pk]) && !in_list(&ep.waitpipes, &tpp[pk]), "it is never offered to the socket");
		settle_user(ok == 2 ? NNG_ECONNSHUT : NNG_ECONNRESET, 0);
		WITNESS("handshake failed");
	}
	monitor();
}
static void
ev_close(void)
{
	KNEED(!closed_);
	if (kstop)
		return;
	tcptran_ep_close(&ep);
	closed_ = 1;
	settle_user(NNG_ECLOSED, 0);
	monitor();
	for (int j = 0; j < NC; j++)
		if (j < npool && (in_list(&ep.negopipes, &tpp[j]) || in_list(&ep.waitpipes, &tpp[j])))
			CHECK(npp[j].close_calls >= 1, "closing the listener closes the connections it had not handed over yet");
	WITNESS("closed");
}

#define U(i) if (!kstop) ev_user(i);
#define C0 if (!kstop) ev_conn(0);
#define CM if (!kstop) ev_conn(1);
#define CF if (!kstop) ev_conn(2);
#define CA if (!kstop) ev_conn(3);
#define CP if (!kstop) ev_conn(4);
#define T if (!kstop) ev_timer();
#define N(ok) if (!kstop) ev_nego(ok);
#define Z if (!kstop) ev_close();
#ifndef SKEL
#define SKEL U(0) C0 N(1) Z
#endif

void
harness(void)
{
	tcptran_ep_init(&ep, &sk, ACCEPT_CB);
	ep.nlistener = &nl;
	ep.listener  = (nng_stream_listener *) &l_closed; /* opaque */
	SKEL
	if (!kstop)
		WITNESS("skeleton ran to its end");
#ifdef MUSTEND
	/* a curated skeleton whose every event is applicable on the library as it should be: an event that finds nothing to act
	 * on (e.g. no transfer outstanding because a message vanished) is a failure, not the end of the skeleton */
	CHECK(!kstop, "every event of the skeleton found the library in the state the previous events must have left it in");
#endif
	if (!closed_) {
		tcptran_ep_close(&ep);
		closed_ = 1;
		settle_user(NNG_ECLOSED, 0);
		monitor();
	}
	CHECK(acc_aio == NULL && tmr_aio == NULL, "after close nothing is outstanding at the stream listener or the timer");
	CHECK(env_locks_held == 0, "no lock held");
	WITNESS("end");
}

/* C11 / C14: the listener's accept loop (real core/listener.c
 * listener_accept_cb / listener_timer_cb): for ANY result code of an accept
 * the listener keeps accepting - it re-arms the accept at once or after its
 * cool-down timer - unless it was closed/stopped/cancelled. */
#include "env_aio.h"
#include "core/listener.c"
extern int env_locks_held;
static void
kquiesce(void)
{
	for (int i = 0; i < 8; i++)
		if (env_run_callbacks() == 0)
			break;
}
static int accepts, pipe_starts;
static void
my_accept(void *data, nni_aio *aio)
{
	(void) data;
	(void) aio;
	accepts++;
}
void
nni_pipe_start(nni_pipe *p)
{
	(void) p;
	pipe_starts++;
}
uint32_t
nni_sock_id(nni_sock *s)
{
	(void) s;
	return 1;
}
const char *
nng_strerror(nng_err e)
{
	(void) e;
	return "";
}
static nni_listener L;
void
harness(void)
{
	nni_aio_init(&L.l_acc_aio, listener_accept_cb, &L);
	nni_aio_init(&L.l_tmo_aio, listener_timer_cb, &L);
	L.l_ops.l_accept = my_accept;
	nng_err rv = (nng_err) ND(vint);
	L.l_acc_aio.a_result = rv;
	listener_accept_cb(&L);
	int terminal = (rv == NNG_ECLOSED || rv == NNG_ESTOPPED || rv == NNG_ECANCELED);
	int rearmed  = accepts == 1;
	int cooling  = env_aio_outstanding(&L.l_tmo_aio);
	if (terminal) {
		CHECK(!rearmed && !cooling, "a closed, stopped or cancelled accept ends the loop");
		WITNESS("terminal");
	} else {
		CHECK(rearmed || cooling, "after any other accept outcome the listener keeps accepting (at once or after its cool-down)");
		CHECK(!(rearmed && cooling), "exactly one re-arm path is taken");
		if (rv == 0) {
			CHECK(pipe_starts == 1 && rearmed, "an accepted connection is started and the next accept armed at once");
			WITNESS("accepted");
		}
		if (cooling) {
			/* the cool-down timer fires */
			env_aio_expire(&L.l_tmo_aio);
			kquiesce();
			CHECK(accepts == 1, "when the cool-down ends the accept is re-armed");
			WITNESS("cool down then re-armed");
		}
	}
	WITNESS("end");
}

/* C14 / C10 / C20: the rendezvous of the real sp/transport/inproc/inproc.c (inproc_ep_bind,
 * inproc_ep_connect, inproc_ep_accept, inproc_accept_clients, inproc_conn_finish, inproc_ep_cancel,
 * inproc_ep_close) between one listener endpoint and two dialer endpoints of the same address.
 * events (SKEL):
 *   B        the listener binds                      A(i)    the listener posts accept aio i
 *   K(j,i)   dialer j posts connect aio i            X(i)    operation i is cancelled (timeout / abort)
 *   CL       the listener endpoint is closed         CD(j)   dialer endpoint j is closed
 *   B2       a second listener binds the same address
 * checked after every event:
 *   - a connect with no listener bound is refused at once with NNG_ECONNREFUSED;
 *   - connects and accepts are matched first come first served, one connect with one accept;
 *     both complete once with 0 and each gets its own pipe of one pair (peer protocol ids
 *     crossed, one end's send queue is the other end's receive queue);
 *   - an unmatched connect or accept stays pending (never completes spuriously);
 *   - closing the listener completes its pending accepts with NNG_ECLOSED and the connects
 *     waiting on it with NNG_ECONNREFUSED - the code a dialer treats as "try again later";
 *     NNG_ECLOSED / NNG_ECANCELED / NNG_ESTOPPED would tell the dialer that it was closed
 *     itself and end its redialing (core/dialer.c dialer_connect_cb) - and the address can
 *     be bound again;
 *   - closing a dialer completes its connects with NNG_ECLOSED and takes it off the
 *     listener's client list (a later accept is not matched with it);
 *   - a cancelled connect completes once with the cancel code and is not matched later (a pending
 *     accept is only ever cancelled after its listener closed - nni_listener_shutdown closes the
 *     endpoint before it stops the accept aio - so words do not cancel an accept that is still pending:
 *     inproc_ep_cancel would take the listener off the server list, a state no caller can produce);
 *   - FAILPAIR: the pair object cannot be allocated: both sides get NNG_ENOMEM, nothing leaks.
 */
#include "proto_kit.h"
extern int env_alloc_fail_at, env_alloc_count, env_alloc_failed;
#include "sp/transport/inproc/inproc.c"

struct nni_dialer {
	int x;
};
struct nni_listener {
	int x;
};
struct nni_socket {
	uint16_t proto;
};
static struct nni_socket   sock_l = { 0x10 }, sock_d = { 0x11 };
static struct nni_dialer   nd[2];
static struct nni_listener nl, nl2;
nni_sock *
nni_dialer_sock(nni_dialer *d)
{
	(void) d;
	return &sock_d;
}
nni_sock *
nni_listener_sock(nni_listener *l)
{
	(void) l;
	return &sock_l;
}
uint16_t
nni_sock_proto_id(nni_sock *s)
{
	return s->proto;
}
void
nni_pipe_rele(nni_pipe *p)
{
	(void) p;
}
/* pipes come from a static pool: the core would allocate pipe + transport data and call p_init */
static inproc_pipe tp[4];
static nni_pipe    np[4];
static int         np_used;
static int         fail_pipe_at = -1;
static int np_reaped[4];
/* what the core's reaper does with a closed pipe's transport half (pipe_reap, then pipe_destroy) */
static void
reap_pipe(int k)
{
	np_reaped[k] = 1;
	inproc_pipe_close(&tp[k]);
	inproc_pipe_stop(&tp[k]);
	inproc_pipe_fini(&tp[k]);
}
static int
pool_pipe(void **datap)
{
	if (np_used == fail_pipe_at) {
		/* core/pipe.c pipe_create: the transport's p_init has run when the pipe's id or the protocol's per-pipe
		 * state cannot be allocated; the unfinished pipe is closed and reaped, the caller gets the error */
		fail_pipe_at = -1;
		int k = np_used++;
		env_pipe_init(&np[k], 200 + k, 0);
		{
			static const inproc_pipe tp_zero;
			tp[k] = tp_zero;
		}
		inproc_pipe_init(&tp[k], &np[k]);
		reap_pipe(k);
		return NNG_ENOMEM;
	}
	CHECK(np_used < 4, "harness: pipe pool large enough");
	int k = np_used < 4 ? np_used : 0;
	np_used++;
	env_pipe_init(&np[k], 200 + k, 0);
	inproc_pipe_init(&tp[k], &np[k]);
	*datap = &tp[k];
	return 0;
}
int
nni_pipe_alloc_dialer(void **datap, nni_dialer *d)
{
	(void) d;
	return pool_pipe(datap);
}
int
nni_pipe_alloc_listener(void **datap, nni_listener *l)
{
	(void) l;
	return pool_pipe(datap);
}

static inproc_ep  L, L2, D[2];
static nng_url    url;
static int        bound, l_closed, d_closed[2];
static int        kind[MAXU];  /* 1 accept, 2 connect */
static int        owner[MAXU]; /* dialer index of a connect */
static int        seq[MAXU], seqclk;
static int        expect_done[MAXU];
static nng_err    expect_rv[MAXU];
static int        matched_with[MAXU];

static void
expect(int i, nng_err rv)
{
	expect_done[i] = 1;
	expect_rv[i]   = rv;
}
/* the reference model: pending accepts and pending connects, each first come first served */
static int
first_pending(int k)
{
	int best = -1;
	for (int i = 0; i < MAXU; i++)
		if (uaio_used[i] && kind[i] == k && !expect_done[i] && (best < 0 || seq[i] < seq[best]))
			best = i;
	return best;
}
static void
model_match(void)
{
	for (int n = 0; n < MAXU; n++) {
		int a = first_pending(1), c = first_pending(2);
		if (a < 0 || c < 0)
			break;
#if defined(FAILPAIR) || defined(FAILPIPE)
		expect(a, NNG_ENOMEM);
		expect(c, NNG_ENOMEM);
#else
		expect(a, 0);
		expect(c, 0);
		matched_with[a] = c + 1;
		matched_with[c] = a + 1;
#endif
	}
}
static void
monitor(void)
{
	kquiesce();
	for (int i = 0; i < MAXU; i++) {
		if (!uaio_used[i])
			continue;
		CHECK(env_aio_completed(&uaio_at(i)) <= 1, "a connect / accept completes at most once");
		if (!expect_done[i]) {
			CHECK(!KDONE(i), "an unmatched connect or accept stays pending");
			continue;
		}
		CHECK(KDONE(i), "a matched, refused, cancelled or closed connect / accept has completed");
		if (expect_rv[i] == NNG_ECONNREFUSED && kind[i] == 2) {
			CHECK(KRESULT(i) != NNG_ECLOSED && KRESULT(i) != NNG_ECANCELED && KRESULT(i) != NNG_ESTOPPED,
			    "a connect that fails because of the listener is never reported as a close of the dialer (the dialer would stop redialing)");
		}
		CHECK(KRESULT(i) == expect_rv[i], "connect / accept result: 0 when matched, ECONNREFUSED without a listener, ECLOSED when its own endpoint closed, the cancel code when cancelled");
		if (expect_rv[i] == 0 && matched_with[i]) {
			int          o  = matched_with[i] - 1;
			nni_pipe    *p  = nni_aio_get_output(&uaio_at(i), 0);
			nni_pipe    *q  = nni_aio_get_output(&uaio_at(o), 0);
			CHECK(p != NULL && q != NULL && p != q, "each side of a connection gets its own pipe");
			if (p != NULL && q != NULL && KDONE(o)) {
				int pi = (int) (p - np), qi = (int) (q - np);
				ASSUME(pi >= 0 && pi < 4 && qi >= 0 && qi < 4);
				CHECK(tp[pi].pair != NULL && tp[pi].pair == tp[qi].pair, "the two pipes of a connection share one pair");
				CHECK(tp[pi].send_queue == tp[qi].recv_queue && tp[pi].recv_queue == tp[qi].send_queue && tp[pi].send_queue != tp[pi].recv_queue,
				    "what one end sends is what the other end receives");
				CHECK(tp[pi].peer == tp[qi].proto && tp[qi].peer == tp[pi].proto, "each end reports the other end's protocol as its peer");
				CHECK(tp[pi].proto == (kind[i] == 1 ? sock_l.proto : sock_d.proto), "each end carries its own socket's protocol id");
			}
		}
	}
	/* the endpoint lists agree with the model */
	int pend_acc = 0;
	for (int i = 0; i < MAXU; i++)
		if (uaio_used[i] && kind[i] == 1 && !expect_done[i])
			pend_acc++;
	int n = 0;
	nni_aio *a;
	NNI_LIST_FOREACH (&L.aios, a) {
		n++;
	}
	CHECK(n == pend_acc, "the listener holds exactly its pending accepts");
	for (int j = 0; j < 2; j++) {
		int pc = 0;
		for (int i = 0; i < MAXU; i++)
			if (uaio_used[i] && kind[i] == 2 && owner[i] == j && !expect_done[i])
				pc++;
		CHECK(nni_list_active(&L.clients, &D[j]) == (pc > 0), "a dialer is on the listener's client list exactly while one of its connects waits there");
	}
	CHECK(nni_list_active(&nni_inproc.servers, &L) == (bound && !l_closed), "a listener is registered exactly while it is bound and open");
}

static void
ev_bind(void)
{
	KNEED(!bound);
	if (kstop)
		return;
	CHECK(inproc_ep_bind(&L, &url) == NNG_OK, "binding a free address succeeds");
	bound = 1;
	monitor();
}
static void
ev_bind2(void)
{
	nng_err rv = inproc_ep_bind(&L2, &url);
	if (bound && !l_closed) {
		CHECK(rv == NNG_EADDRINUSE, "an address that is bound cannot be bound again");
		CHECK(!nni_list_active(&nni_inproc.servers, &L2), "a refused bind registers nothing");
		WITNESS("second bind refused");
	} else {
		CHECK(rv == NNG_OK, "a free address (never bound, or whose listener closed) can be bound");
		CHECK(nni_list_active(&nni_inproc.servers, &L2), "a bound listener is registered");
		WITNESS("address bound again after its listener closed");
		inproc_ep_close(&L2);
	}
	monitor();
}
static void
ev_accept(int i)
{
	KNEED(!uaio_used[i] && bound && !l_closed);
	if (kstop)
		return;
	kuaio_prepare(i, 1);
	kind[i] = 1;
	seq[i]  = ++seqclk;
	env_aio_submit(&uaio_at(i));
	inproc_ep_accept(&L, &uaio_at(i));
	model_match();
	monitor();
	if (expect_done[i])
		WITNESS("accept met a waiting connect");
}
static void
ev_connect(int j, int i)
{
	KNEED(!uaio_used[i] && !d_closed[j]);
	if (kstop)
		return;
	kuaio_prepare(i, 1);
	kind[i]  = 2;
	owner[i] = j;
	seq[i]   = ++seqclk;
	env_aio_submit(&uaio_at(i));
	inproc_ep_connect(&D[j], &uaio_at(i));
	if (!bound || l_closed) {
		expect(i, NNG_ECONNREFUSED);
		WITNESS("connect refused: no listener");
	} else {
		model_match();
	}
	monitor();
	if (expect_done[i] && expect_rv[i] == 0)
		WITNESS("connect met a waiting accept");
}
static void
ev_cancel(int i)
{
	KNEED(uaio_used[i] && (kind[i] == 2 || expect_done[i]));
	if (kstop)
		return;
	if (!expect_done[i])
		expect(i, NNG_ETIMEDOUT);
	nni_aio_abort(&uaio_at(i), NNG_ETIMEDOUT);
	monitor();
	WITNESS("cancelled");
}
static void
ev_close_listener(void)
{
	KNEED(bound && !l_closed);
	if (kstop)
		return;
	for (int i = 0; i < MAXU; i++) {
		if (!uaio_used[i] || expect_done[i])
			continue;
		if (kind[i] == 1) {
			expect(i, NNG_ECLOSED);
			WITNESS("pending accept closed");
		} else {
			expect(i, NNG_ECONNREFUSED);
			WITNESS("waiting connect refused by the closing listener");
		}
	}
	inproc_ep_close(&L);
	l_closed = 1;
	monitor();
}
static void
ev_close_dialer(int j)
{
	KNEED(!d_closed[j]);
	if (kstop)
		return;
	for (int i = 0; i < MAXU; i++)
		if (uaio_used[i] && kind[i] == 2 && owner[i] == j && !expect_done[i]) {
			expect(i, NNG_ECLOSED);
			WITNESS("pending connect closed with its dialer");
		}
	inproc_ep_close(&D[j]);
	d_closed[j] = 1;
	monitor();
}

#define B if (!kstop) ev_bind();
#define B2 if (!kstop) ev_bind2();
#define A(i) if (!kstop) ev_accept(i);
#define K(j, i) if (!kstop) ev_connect(j, i);
#define X(i) if (!kstop) ev_cancel(i);
#define CL if (!kstop) ev_close_listener();
#define CD(j) if (!kstop) ev_close_dialer(j);
#ifndef SKEL
#define SKEL B K(0, 0) A(1) CL
#endif

void
harness(void)
{
	static char path[] = "x";
	url.u_path         = path;
	CHECK(inproc_listener_init(&L, &url, &nl) == NNG_OK, "listener init");
	CHECK(inproc_listener_init(&L2, &url, &nl2) == NNG_OK, "listener init");
	CHECK(inproc_dialer_init(&D[0], &url, &nd[0]) == NNG_OK && inproc_dialer_init(&D[1], &url, &nd[1]) == NNG_OK, "dialer init");
#ifdef FAILPAIR
	env_alloc_fail_at = env_alloc_count;
#endif
#ifdef FAILPIPE
	fail_pipe_at = FAILPIPE - 1; /* 1: the dialer's pipe, 2: the listener's pipe (the dialer's is allocated first) */
#endif
	SKEL
	if (!kstop)
		WITNESS("skeleton ran to its end");
#ifdef MUSTEND
	/* a curated skeleton whose every event is applicable on the library as it should be: an event that finds nothing to act
	 * on (e.g. no transfer outstanding because a message vanished) is a failure, not the end of the skeleton */
	CHECK(!kstop, "every event of the skeleton found the library in the state the previous events must have left it in");
#endif
	/* teardown: closing every endpoint leaves nothing pending */
	if (bound && !l_closed)
		inproc_ep_close(&L);
	for (int j = 0; j < 2; j++)
		if (!d_closed[j])
			inproc_ep_close(&D[j]);
	kquiesce();
	for (int i = 0; i < MAXU; i++)
		if (uaio_used[i])
			CHECK(env_aio_completed(&uaio_at(i)) == 1, "after every endpoint closed each connect / accept has completed exactly once");
#ifdef FAILPIPE
	/* the pipe that was allocated before its partner failed has been closed by the transport: the reaper takes it */
	for (int k = 0; k < 4; k++)
		if (k < np_used && !np_reaped[k]) {
			CHECK(np[k].closed, "C20: the half of a connection whose other half could not be allocated is closed");
			reap_pipe(k);
		}
	WITNESS("pipe allocation failed");
#endif
#if defined(FAILPAIR) || defined(FAILPIPE)
	CHECK(env_alloc_live == 0, "a connection that could not be set up leaves nothing allocated");
#endif
	CHECK(env_locks_held == 0, "no lock held");
	WITNESS("end");
}

/* C19 (ii): nni_url_canonify_uri on every string of N bytes that can follow
 * the authority (starts with '/', '?', '#' or is empty).
 *  - never writes outside the N+1 byte buffer (CBMC bounds checks)
 *  - accepted => every %XX was followed by two hex digits, the result is valid
 *    UTF-8, no escape of an unreserved character or of a byte >= 0x80 is left,
 *    remaining escapes are upper-case, the path part has no "//", "/./",
 *    "/../" and does not end in "/." or "/..", the result is not longer than
 *    the input and canonify(result) == result (idempotent)
 *  - a '%' not followed by two hex digits => NNG_EINVAL
 */
#include "vh.h"
#include "core/url.c"
#include <stdlib.h>

#ifndef N
#define N 5
#endif

static int
ref_utf8_valid(const u8 *s)
{
	while (*s) {
		u8 a = s[0];
		if (a < 0x80) {
			s += 1;
		} else if (a >= 0xc2 && a <= 0xdf) {
			if (s[1] < 0x80 || s[1] > 0xbf)
				return 0;
			s += 2;
		} else if (a >= 0xe0 && a <= 0xef) {
			u8 lo = (a == 0xe0) ? 0xa0 : 0x80;
			u8 hi = (a == 0xed) ? 0x9f : 0xbf;
			if (s[1] < lo || s[1] > hi)
				return 0;
			if (s[2] < 0x80 || s[2] > 0xbf)
				return 0;
			s += 3;
		} else if (a >= 0xf0 && a <= 0xf4) {
			u8 lo = (a == 0xf0) ? 0x90 : 0x80;
			u8 hi = (a == 0xf4) ? 0x8f : 0xbf;
			if (s[1] < lo || s[1] > hi)
				return 0;
			if (s[2] < 0x80 || s[2] > 0xbf)
				return 0;
			if (s[3] < 0x80 || s[3] > 0xbf)
				return 0;
			s += 4;
		} else {
			return 0;
		}
	}
	return 1;
}
static int
hexv(u8 c)
{
	if (c >= '0' && c <= '9')
		return c - '0';
	if (c >= 'a' && c <= 'f')
		return c - 'a' + 10;
	if (c >= 'A' && c <= 'F')
		return c - 'A' + 10;
	return -1;
}
static int
unreserved(int c)
{
	return (c >= 'A' && c <= 'Z') || (c >= 'a' && c <= 'z') || (c >= '0' && c <= '9') || c == '.' || c == '~' ||
	    c == '_' || c == '-';
}

void
harness(void)
{
	char *in  = malloc(N + 1);
	char *buf = malloc(N + 1);
	char *again = malloc(N + 1);
	ASSUME(in != NULL && buf != NULL && again != NULL);
	for (int i = 0; i < N; i++) {
		in[i] = (char) ND(u8);
		ASSUME(in[i] != 0);
	}
	in[N] = 0;
#if N > 0
	ASSUME(in[0] == '/' || in[0] == '?' || in[0] == '#');
#endif
	/* reference: is there a malformed escape? (scan like a decoder) */
	int bad_escape = 0;
	for (int i = 0; i < N;) {
		if (in[i] == '%') {
			if (i + 2 >= N) { /* truncated escape */
				bad_escape = 1;
				break;
			}
			if (hexv((u8) in[i + 1]) < 0 || hexv((u8) in[i + 2]) < 0) {
				bad_escape = 1;
				break;
			}
			i += 3;
		} else {
			i++;
		}
	}
	memcpy(buf, in, N + 1);
	nng_err rv = nni_url_canonify_uri(buf);
	CHECK(rv == NNG_OK || rv == NNG_EINVAL, "canonify returns OK or EINVAL");
	if (bad_escape) {
		CHECK(rv == NNG_EINVAL, "malformed percent-escape is rejected");
#if N >= 2
		WITNESS("bad escape");
#endif
	}
	if (rv == NNG_OK) {
		size_t l = strlen(buf);
		CHECK(l <= N, "result not longer than input");
		CHECK(ref_utf8_valid((u8 *) buf), "accepted result is valid UTF-8");
		/* escapes left */
		int    inpath = 1;
		for (size_t i = 0; i < l; i++) {
			u8 c = (u8) buf[i];
			if (c == '%') {
				CHECK(i + 2 < l, "escape has two following characters");
				int h1 = hexv((u8) buf[i + 1]), h2 = hexv((u8) buf[i + 2]);
				CHECK(h1 >= 0 && h2 >= 0, "remaining escape is hexadecimal");
				int v = h1 * 16 + h2;
				CHECK(!unreserved(v) && v < 0x80, "no escape of an unreserved or high byte remains");
				CHECK(!(buf[i + 1] >= 'a' && buf[i + 1] <= 'f') && !(buf[i + 2] >= 'a' && buf[i + 2] <= 'f'),
				    "remaining escapes are upper-case");
#if N >= 4
				WITNESS("escape kept");
#endif
			}
			if (c == '?' || c == '#')
				inpath = 0;
			if (inpath && c == '/') {
				CHECK(buf[i + 1] != '/', "no duplicate slash in path");
				if (buf[i + 1] == '.') {
					u8 d = (u8) buf[i + 2];
					CHECK(!(d == 0 || d == '/' || d == '?' || d == '#'), "no '.' segment in path");
					if (d == '.') {
						u8 e = (u8) buf[i + 3];
						CHECK(!(e == 0 || e == '/' || e == '?' || e == '#'), "no '..' segment in path");
					}
				}
			}
		}
		memcpy(again, buf, N + 1);
		nng_err rv2 = nni_url_canonify_uri(again);
		CHECK(rv2 == NNG_OK, "canonical form is accepted again");
		CHECK(strcmp(again, buf) == 0, "canonify is idempotent");
		WITNESS("accepted");
#if N >= 2
		if (l < N)
			WITNESS("shortened");
#endif
	} else {
#if N >= 2
		WITNESS("rejected");
#endif
	}
}

/* C19 (iv) at the storage boundary: a URL whose part after "scheme://" is
 * TAIL bytes long (sweep across the 128-byte inline buffer: 126..130), the
 * last NSYM path bytes symbolic lower-case letters.  Whatever storage the
 * parser picks, the URL is accepted and no byte of the path is lost.
 * NSYM defaults to 0 in the registered queries: with symbolic bytes the
 * 130-iteration scanning loops of the parser do not finish (900 s); the
 * boundary itself does not depend on the content. */
#include "vh.h"
#include "env_printf.h"
#include "core/url.c"
extern int env_alloc_live;
#ifndef TAIL
#define TAIL 128
#endif
#ifndef NSYM
#define NSYM 2
#endif
#ifndef SCHEME
#define SCHEME "http://"
#endif
void
harness(void)
{
	static char raw[sizeof(SCHEME) + TAIL + 2];
	static char out[sizeof(SCHEME) + TAIL + 16];
	size_t      sl = sizeof(SCHEME) - 1;
	for (size_t i = 0; i < sl; i++)
		raw[i] = SCHEME[i];
	raw[sl]     = 'h';
	raw[sl + 1] = '/';
	for (size_t i = 2; i < TAIL; i++)
		raw[sl + i] = 'a';
	for (int i = 0; i < NSYM; i++) {
		char c = (char) ND(u8);
		ASSUME(c >= 'a' && c <= 'z');
		raw[sl + TAIL - NSYM + i] = c;
	}
	raw[sl + TAIL] = 0;
	nng_url *u  = NULL;
	nng_err  rv = nng_url_parse(&u, raw);
	CHECK(rv == NNG_OK && u != NULL, "a well-formed URL is accepted whatever its length");
	if (rv == NNG_OK) {
		size_t pl = 0;
		while (pl < TAIL + 4 && u->u_path[pl] != 0)
			pl++;
		CHECK(pl == TAIL - 1, "path keeps every byte (length)");
		for (int i = 0; i < NSYM; i++)
			CHECK(u->u_path[TAIL - 1 - NSYM + i] == raw[sl + TAIL - NSYM + i], "path keeps every byte (content of the tail)");
		CHECK(u->u_hostname[0] == 'h' && u->u_hostname[1] == 0, "host");
		/* (printing is checked on the short templates of c19/parse.c; CBMC reports a spurious pointer failure in the
		 * %s model for components that live in the heap buffer, which the native replay does not confirm) */
		(void) out;
		WITNESS("accepted");
		nng_url_free(u);
	}
	CHECK(env_alloc_live == 0, "all URL memory returned");
	WITNESS("end");
}

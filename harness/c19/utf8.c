/* C19 (i): url_utf8_validate accepts only well-formed UTF-8 (RFC 3629):
 * no overlong forms, surrogates, code points above U+10FFFF, stray
 * continuation bytes or truncated sequences.  All strings of N bytes + NUL. */
#include "vh.h"
#include "core/url.c"

#ifndef N
#define N 5
#endif

/* RFC 3629 section 4 grammar, byte ranges */
static int
ref_utf8_valid(const u8 *s)
{
	while (*s) {
		u8 a = s[0];
		if (a < 0x80) {
			s += 1;
		} else if (a >= 0xc2 && a <= 0xdf) {
			if (s[1] < 0x80 || s[1] > 0xbf)
				return 0;
			s += 2;
		} else if (a >= 0xe0 && a <= 0xef) {
			u8 lo = (a == 0xe0) ? 0xa0 : 0x80;
			u8 hi = (a == 0xed) ? 0x9f : 0xbf;
			if (s[1] < lo || s[1] > hi)
				return 0;
			if (s[2] < 0x80 || s[2] > 0xbf)
				return 0;
			s += 3;
		} else if (a >= 0xf0 && a <= 0xf4) {
			u8 lo = (a == 0xf0) ? 0x90 : 0x80;
			u8 hi = (a == 0xf4) ? 0x8f : 0xbf;
			if (s[1] < lo || s[1] > hi)
				return 0;
			if (s[2] < 0x80 || s[2] > 0xbf)
				return 0;
			if (s[3] < 0x80 || s[3] > 0xbf)
				return 0;
			s += 4;
		} else {
			return 0;
		}
	}
	return 1;
}

void
harness(void)
{
	u8 s[N + 1];
	ND_BYTES(s, N);
	s[N] = 0;
	nng_err rv = url_utf8_validate(s);
	int     ok = ref_utf8_valid(s);
	if (rv == NNG_OK) {
		CHECK(ok, "accepted string is well-formed UTF-8 (RFC 3629)");
		WITNESS("accepted");
	} else {
		CHECK(rv == NNG_EINVAL, "rejection code is NNG_EINVAL");
		WITNESS("rejected");
#ifdef CONVERSE
		CHECK(!ok, "rejected string is not well-formed UTF-8");
#endif
	}
#if N >= 3
	if (rv == NNG_OK && s[0] >= 0xe0)
		WITNESS("accepted multi-byte");
#endif
}

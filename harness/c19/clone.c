/* C19 (v): nng_url_clone yields an equal, independent URL whatever its length.
 * The source is produced by the real parser from a concrete URL (LONG=0: fits
 * the 128-byte inline buffer; LONG=1: 150 bytes, heap buffer); afterwards
 * NSYM path bytes are replaced by symbolic non-NUL bytes so the copy is
 * checked for arbitrary content. */
#include "vh.h"
#include "env_printf.h"
#include "core/url.c"
extern int env_alloc_live;

#if LONG
#define URL                                                                                                        \
	"http://user@host.example.com:8080/aaaaaaaaaaaaaaaaaaaaaaaaaaaaaaaaaaaaaaaaaaaaaaaaaaaaaaaaaaaaaaaaaaaaaaaaaaaaaa" \
	"aaaaaaaaaaaaaaaaaaaaaaaaaaaaaaaaaaaaaaaaaaaaaaaaaa/file?query=1#frag"
#else
#define URL "http://user@host.example.com:8080/some/path?query=1#frag"
#endif
#ifndef NSYM
#define NSYM 2
#endif

static int
eqs(const char *a, const char *b)
{
	if (a == NULL || b == NULL)
		return a == b;
	return strcmp(a, b) == 0;
}
static int
inside(const char *p, const char *base, size_t len)
{
	return p >= base && p < base + len;
}

void
harness(void)
{
	nng_url *src = NULL, *dst = NULL;
	nng_err  rv  = nng_url_parse(&src, URL);
	CHECK(rv == NNG_OK && src != NULL, "concrete source URL parses");
	CHECK((src->u_bufsz != 0) == (LONG != 0), "long URLs use the heap buffer, short ones the inline buffer");
	for (int i = 0; i < NSYM; i++) {
		char c = (char) ND(u8);
		ASSUME(c != 0);
		src->u_path[1 + i] = c;
	}
	rv = nng_url_clone(&dst, src);
	CHECK(rv == NNG_OK, "clone succeeds");
	if (rv == NNG_OK) {
		CHECK(dst != NULL && dst != src, "clone is a new object");
		CHECK(dst->u_scheme == src->u_scheme, "clone: scheme");
		CHECK(dst->u_port == src->u_port, "clone: port");
		CHECK(eqs(dst->u_hostname, src->u_hostname), "clone: host");
		CHECK(eqs(dst->u_path, src->u_path), "clone: path");
		CHECK(eqs(dst->u_query, src->u_query), "clone: query");
		CHECK(eqs(dst->u_fragment, src->u_fragment), "clone: fragment");
		CHECK(eqs(dst->u_userinfo, src->u_userinfo), "clone: userinfo");
		CHECK(dst->u_bufsz == src->u_bufsz, "clone: buffer size recorded");
		size_t      len  = LONG ? dst->u_bufsz : sizeof(dst->u_static);
		const char *base = LONG ? dst->u_buffer : dst->u_static;
		CHECK(dst->u_buffer != src->u_buffer, "clone: separate storage");
		CHECK(inside(dst->u_hostname, base, len) && inside(dst->u_path, base, len) && inside(dst->u_query, base, len) &&
		        inside(dst->u_fragment, base, len) && inside(dst->u_userinfo, base, len),
		    "clone: every component points into the clone's own storage");
		/* independence */
		char keep          = src->u_path[1];
		dst->u_path[1]     = (char) (keep ^ 0x01) ? (char) (keep ^ 0x01) : 'x';
		CHECK(src->u_path[1] == keep, "clone: writing the copy leaves the original");
		WITNESS("cloned");
		nng_url_free(dst);
	}
	nng_url_free(src);
	CHECK(env_alloc_live == 0, "all URL memory returned (sizes match)");
	WITNESS("end");
}

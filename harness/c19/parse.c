/* C19 (iii)+(iv): the whole nng_url_parse over a concrete template
 *    PRE  sym[NSYM]  POST
 * with every sym byte symbolic (non-NUL).  Accepted => scheme is exactly a
 * table entry followed by "://", authority well formed, components canonical,
 * and nng_url_sprintf + parse again gives the same components. */
#include "vh.h"
#include "env_printf.h"
#include "core/url.c"
#include <stdlib.h>

#ifndef LONGURL
/* The template is far shorter than the 128-byte inline buffer: the heap path
 * (nni_strdup of a symbolic-length string) is proved unreachable and cut; it
 * is exercised by c19/longurl.c with a concrete long template instead. */
char *
nni_strdup(const char *s)
{
	(void) s;
	CHECK(0, "heap path of the parser is unreachable for a template shorter than 128 bytes");
	ASSUME(0);
	return NULL;
}
#endif

#ifndef PRE
#define PRE "tcp://"
#endif
#ifndef POST
#define POST ""
#endif
#ifndef NSYM
#define NSYM 2
#endif

#define RAWMAX (sizeof(PRE) + NSYM + sizeof(POST))

static int
is_pathlike(const char *scheme)
{
	return strcmp(scheme, "ipc") == 0 || strcmp(scheme, "unix") == 0 || strcmp(scheme, "abstract") == 0 ||
	    strcmp(scheme, "inproc") == 0 || strcmp(scheme, "socket") == 0;
}
static int
eqs(const char *a, const char *b)
{
	if (a == NULL || b == NULL)
		return a == b;
	return strcmp(a, b) == 0;
}

void
harness(void)
{
	char     raw[RAWMAX];
	nng_url *u = NULL;
	size_t   pl = sizeof(PRE) - 1;
	for (size_t i = 0; i < pl; i++)
		raw[i] = PRE[i]; /* byte-wise: keeps the template concrete for symex */
	for (int i = 0; i < NSYM; i++) {
		raw[pl + i] = (char) ND(u8);
		ASSUME(raw[pl + i] != 0);
#ifdef SYM_PRINTABLE
		ASSUME((u8) raw[pl + i] >= 0x20 && (u8) raw[pl + i] < 0x7f);
#endif
	}
	for (size_t i = 0; i < sizeof(POST); i++)
		raw[pl + NSYM + i] = POST[i];

	/* the url struct lives on the stack (nng_url_parse only adds an allocation
	 * around nni_url_parse_inline; that wrapper is covered by c19/clone.c) */
	nng_url ustore;
	memset(&ustore, 0, sizeof(ustore));
	u          = &ustore;
	nng_err rv = nni_url_parse_inline(u, raw);
	if (rv != NNG_OK) {
#ifndef NO_REJECT
		WITNESS("rejected");
#endif
		return;
	}
	WITNESS("accepted");
	CHECK(u != NULL && u->u_scheme != NULL, "accepted URL has a scheme");
	/* 1. scheme: exactly the text before "://" */
	size_t sl = strlen(u->u_scheme);
	CHECK(strncmp(raw, u->u_scheme, sl) == 0 && strncmp(raw + sl, "://", 3) == 0,
	    "scheme is exactly a known scheme followed by ://");
	if (!(strncmp(raw, u->u_scheme, sl) == 0 && strncmp(raw + sl, "://", 3) == 0))
		return; /* (reported above; the checks below assume it) */
	CHECK(u->u_path != NULL, "path never NULL");

	if (!is_pathlike(u->u_scheme)) {
		const char *auth = raw + sl + 3;
		size_t      al   = 0; /* (strcspn has no CBMC model) */
		while (auth[al] != 0 && auth[al] != '/' && auth[al] != '?' && auth[al] != '#')
			al++;
		/* authority: one '@' at most */
		int ats = 0;
		for (size_t i = 0; i < al; i++)
			if (auth[i] == '@')
				ats++;
		CHECK(ats <= 1, "at most one userinfo separator");
		CHECK(u->u_hostname != NULL, "hostname never NULL for host schemes");
		for (size_t i = 0; u->u_hostname[i]; i++) {
			char c = u->u_hostname[i];
			CHECK(!(c >= 'A' && c <= 'Z'), "hostname is lower-case");
			CHECK(c != '@', "no @ in hostname");
		}
		CHECK(u->u_port <= 0xffff, "port within 0..65535");
		/* port text */
		const char *hp = auth;
		for (size_t i = 0; i < al; i++)
			if (auth[i] == '@')
				hp = auth + i + 1;
		size_t      hl = al - (size_t) (hp - auth);
		const char *pt = NULL;
		if (hl > 0 && hp[0] == '[') {
			size_t j = 1;
			while (j < hl && hp[j] != ']')
				j++;
			CHECK(j < hl, "IPv6 literal has a closing bracket");
			CHECK(j + 1 == hl || hp[j + 1] == ':', "only a port may follow an IPv6 literal");
			if (j + 1 < hl)
				pt = hp + j + 2;
			CHECK(strlen(u->u_hostname) == j - 1 && strncmp(u->u_hostname, hp + 1, 0) == 0,
			    "IPv6 hostname is the bracket content");
		} else {
			for (size_t i = 0; i < hl; i++)
				if (hp[i] == ':') {
					pt = hp + i + 1;
					break;
				}
		}
		if (pt != NULL) {
			size_t ptl = hl - (size_t) (pt - hp);
			CHECK(ptl > 0, "a colon is followed by a port");
			int    seen_digit = 0;
			u32    val        = 0;
			for (size_t i = 0; i < ptl; i++) {
				char c = pt[i];
				if (c >= '0' && c <= '9') {
					seen_digit = 1;
					if (val <= 0xffff)
						val = val * 10 + (u32) (c - '0');
				} else {
					CHECK(!seen_digit && (c == '+' || c == '-' || c == ' ' || (c >= '\t' && c <= '\r')),
					    "port text is a decimal number");
				}
			}
			CHECK(seen_digit, "port text has digits");
			CHECK(val == u->u_port || val == 0, "port value equals the number written");
#ifdef HAS_PORT
			WITNESS("explicit port accepted");
#endif
		}
		/* canonical path */
		for (size_t i = 0; u->u_path[i]; i++) {
			if (u->u_path[i] == '/') {
				CHECK(u->u_path[i + 1] != '/', "no duplicate slash in path");
				if (u->u_path[i + 1] == '.') {
					char d = u->u_path[i + 2];
					CHECK(!(d == 0 || d == '/'), "no '.' segment in path");
					if (d == '.') {
						char e = u->u_path[i + 3];
						CHECK(!(e == 0 || e == '/'), "no '..' segment in path");
					}
				}
			}
			CHECK(u->u_path[i] != '?' && u->u_path[i] != '#', "path stops at query/fragment");
		}
	}
#ifdef ROUNDTRIP
	/* (iv) round trip */
	{
		char     out[RAWMAX + 16];
		nng_url *v = NULL;
		int      n = nng_url_sprintf(out, sizeof(out), u);
		CHECK(n >= 0 && (size_t) n < sizeof(out), "formatted URL fits (not longer than input + port)");
		nng_err rv2 = nng_url_parse(&v, out);
		CHECK(rv2 == NNG_OK, "formatted URL parses again");
		if (rv2 == NNG_OK) {
			CHECK(v->u_scheme == u->u_scheme, "round trip: scheme");
			CHECK(eqs(v->u_hostname, u->u_hostname), "round trip: host");
			CHECK(v->u_port == u->u_port, "round trip: port");
			CHECK(eqs(v->u_path, u->u_path), "round trip: path");
			CHECK(eqs(v->u_query, u->u_query), "round trip: query");
			CHECK(eqs(v->u_fragment, u->u_fragment), "round trip: fragment");
			nng_url_free(v);
		}
	}
#endif
	nni_url_fini(u);
}

/* C04 / C12 (+C03, C10, C15 monitors): REQ over the real reqrep0/req.c with
 * the socket context (c=0) and one extra context (c=1).
 * events: A(p) attach           S(c,i,b) ctx c sends a request (user aio i)
 *         R(c,i,b) ctx c receives T(p,ok) transport finished the send on p
 *         Y(p,k)  a reply arrives on pipe p whose id is
 *                 k=0/1: the id ctx k's request CURRENTLY has (0 if none)
 *                 k=2: any id different from every live request id
 *                 k=3: any id without the request bit   k=4: < 4 bytes
 *                 k=5/6: the id of ctx 0/1's PREVIOUS request (stale)
 *         X(i) cancel aio i     C(p) pipe lost
 *         O(c,v) REQ_RESENDTIME of ctx c := v ms (-1 = never)
 *         K(d) clock advances by d ms and the retry timer fires
 *         Z close
 */
#include "proto_kit.h"
#include "sp/protocol/reqrep0/req.c"
#define NCTX 2
static req0_sock sock;
static req0_ctx  xctx;
static req0_pipe pd[MAXP];
static req0_ctx *ctxs[NCTX];
static int       gen[NCTX];          /* requests issued so far by ctx */
static u32       cur_id[NCTX], prev_id[NCTX];
static int       answered[NCTX];     /* replies delivered for the current request */
static int       txcount[NCTX];      /* transmissions of the current request */
static int       uctx[MAXU], ukind[MAXU], noted[MAXU]; /* kind 1 send 2 recv */
static int       sock_closed, have_x;
static int       lost_conn[NCTX];
static nng_duration retry_at_send[NCTX]; /* resend option when the current request was issued */

static int
outstanding(int c)
{
	return ctxs[c]->request_id != 0 && ctxs[c]->req_msg != NULL && ctxs[c]->rep_msg == NULL;
}
static int
on_list(nni_list *l, void *item)
{
	return nni_list_active(l, item);
}
static void
sweep(void)
{
	for (int i = 0; i < MAXU; i++) {
		if (!uaio_used[i] || !KDONE(i) || noted[i])
			continue;
		noted[i] = 1;
		int c    = uctx[i];
		if (ukind[i] == 2 && KRESULT(i) == 0) {
			nni_msg *m = nni_aio_get_msg(&uaio_at(i));
			CHECK(m != NULL, "successful receive carries a reply");
			CHECK(m->tag / 100 == c + 1, "a reply is delivered only to the context whose request it answers");
			CHECK(m->tag % 100 == gen[c], "a reply is delivered only for the context's currently outstanding request (not a cancelled or superseded one)");
			answered[c]++;
			CHECK(answered[c] == 1, "a request is answered at most once (duplicates are discarded)");
			nni_msg_free(m);
			nni_aio_set_msg(&uaio_at(i), NULL);
			WITNESS("reply delivered");
		}
		if (ukind[i] == 1) {
			if (KRESULT(i) == 0)
				CHECK(nni_aio_get_msg(&uaio_at(i)) == NULL, "C03: accepted request is owned by the library");
			else {
				CHECK(nni_aio_get_msg(&uaio_at(i)) == umsg[i], "C03: failed send leaves the request with the caller");
				nni_msg_free(umsg[i]);
				nni_aio_set_msg(&uaio_at(i), NULL);
			}
		}
	}
}
static void
monitor(void)
{
	kquiesce();
	sweep();
	for (int i = 0; i < MAXU; i++)
		if (uaio_used[i])
			CHECK(env_aio_completed(&uaio_at(i)) <= 1, "operation completes at most once");
	if (sock_closed)
		return;
	/* C12 progress invariant */
	for (int c = 0; c < NCTX; c++) {
		if (c == 1 && !have_x)
			continue;
		if (!outstanding(c))
			continue;
		req0_ctx *x = ctxs[c];
		if (x->retry > 0 && retry_at_send[c] > 0) {
			int queued = on_list(&sock.send_queue, x);
			int onpipe = 0;
			for (int p = 0; p < MAXP; p++)
				if (kpipe_up[p] && !pd[p].closed && on_list(&pd[p].contexts, x))
					onpipe = 1;
			CHECK(queued || onpipe, "C12: an outstanding request is waiting for a pipe or assigned to a live pipe (never orphaned)");
			CHECK(on_list(&sock.retry_queue, x), "C12: an outstanding request with resending enabled has a resend deadline");
			CHECK(sock.retry_active && env_aio_outstanding(&sock.retry_aio), "C12: the resend timer is running while requests are outstanding");
		} else if (x->retry <= 0 && retry_at_send[c] <= 0) {
			CHECK(txcount[c] <= 1, "C12: with resending disabled a request goes on the wire at most once");
		}
	}
	/* C15 */
	CHECK(nni_atomic_get_bool(&sock.readable.p_raised) == (sock.master.rep_msg != NULL), "C15: receive poll state mirrors whether a reply is waiting");
	CHECK(nni_atomic_get_bool(&sock.writable.p_raised) == !nni_list_empty(&sock.ready_pipes) || !nni_list_empty(&sock.send_queue),
	    "C15: send poll state mirrors whether a pipe is ready");
}
static void
ev_attach(int p)
{
	KNEED(!kpipe_up[p] && !sock_closed);
	if (kstop)
		return;
	env_pipe_init(&kpipe[p], 100 + p, REQ0_PEER);
	{
		static const __typeof__(pd[0]) pd_zero;
		pd[p] = pd_zero; /* struct assignment keeps field sensitivity, memset does not */
	}
	CHECK(req0_pipe_init(&pd[p], &kpipe[p], &sock) == 0, "pipe_init");
	kpipe_up[p] = 1;
	CHECK(req0_pipe_start(&pd[p]) == 0, "pipe_start accepts a REP peer");
	monitor();
}
static void
note_tx(void)
{
	/* count transmissions by looking at what is on the wire */
	for (int p = 0; p < MAXP; p++)
		if (kpipe_up[p] && kpipe[p].wire_msg != NULL && kpipe[p].wire_msg->tag == 0) {
			u32 id = nni_msg_header_peek_u32(kpipe[p].wire_msg);
			kpipe[p].wire_msg->tag = -1; /* counted */
			CHECK(nni_msg_header_len(kpipe[p].wire_msg) == 4 && (id & 0x80000000u), "a request on the wire carries one id with the request bit");
			for (int c = 0; c < NCTX; c++)
				if (id == cur_id[c])
					txcount[c]++;
		}
}
static void
ev_send(int c, int i, int blocking)
{
	KNEED(!uaio_used[i] && !sock_closed && (c == 0 || have_x));
	if (kstop)
		return;
	kuaio_prepare(i, blocking);
	uctx[i]  = c;
	ukind[i] = 1;
	umsg[i]  = kmsg(2);
	nni_aio_set_msg(&uaio_at(i), umsg[i]);
	env_aio_submit(&uaio_at(i));
	int ready = !nni_list_empty(&sock.ready_pipes);
	retry_at_send[c] = ctxs[c]->retry;
	int idfail0 = env_idmap_failed;
	req0_ctx_send(ctxs[c], &uaio_at(i));
	kquiesce();
#ifdef VH_FAULTPASS
	if (env_idmap_failed && !idfail0) {
		SCHECK(KDONE(i) && KRESULT(i) == NNG_ENOMEM, "C20: a request whose id cannot be allocated fails at once with NNG_ENOMEM");
		SCHECK(nni_aio_get_msg(&uaio_at(i)) == umsg[i], "C20/C03: and the message stays with the caller");
		SCHECK(ctxs[c]->request_id == 0 && ctxs[c]->req_msg == NULL, "C20: no half-made request is left in the context");
		WITNESS("request refused: no id");
	}
#endif
	if (KDONE(i) && KRESULT(i) == 0) {
		gen[c]++;
		prev_id[c]  = cur_id[c];
		cur_id[c]   = ctxs[c]->request_id;
		answered[c] = 0;
		txcount[c]  = 0;
		CHECK((cur_id[c] & 0x80000000u) != 0, "C18: request ids carry the request bit");
		CHECK(cur_id[c] != cur_id[1 - c] || !outstanding(1 - c), "C18: live request ids are unique");
	} else if (!KDONE(i)) {
		/* accepted for later transmission: the request exists already */
		gen[c]++;
		prev_id[c]  = cur_id[c];
		cur_id[c]   = ctxs[c]->request_id;
		answered[c] = 0;
		txcount[c]  = 0;
	}
	if (ready)
		CHECK(KDONE(i) && KRESULT(i) == 0, "C15: send is accepted at once when a pipe is ready");
	else if (!blocking)
		CHECK(KDONE(i) && KRESULT(i) == NNG_ETIMEDOUT, "C15: non-blocking send without a ready pipe fails at once");
	note_tx();
	monitor();
}
static void
ev_recv(int c, int i, int blocking)
{
	KNEED(!uaio_used[i] && !sock_closed && (c == 0 || have_x));
	if (kstop)
		return;
	int had_recv = ctxs[c]->recv_aio != NULL;
	int state_ok = (ctxs[c]->req_msg != NULL) || (ctxs[c]->rep_msg != NULL);
	int reset    = ctxs[c]->conn_reset;
	int have_rep = ctxs[c]->rep_msg != NULL;
	kuaio_prepare(i, blocking);
	uctx[i]  = c;
	ukind[i] = 2;
	env_aio_submit(&uaio_at(i));
	req0_ctx_recv(ctxs[c], &uaio_at(i));
	if (had_recv) {
		CHECK(KDONE(i) && KRESULT(i) == NNG_ESTATE, "a second concurrent receive fails with ESTATE");
		WITNESS("second receive refused");
	} else if (!state_ok) {
		CHECK(KDONE(i) && KRESULT(i) == (reset ? NNG_ECONNRESET : NNG_ESTATE), "receive without an outstanding request fails with ESTATE (ECONNRESET if the request's connection was lost with resending disabled)");
		WITNESS("receive before send refused");
	} else if (have_rep) {
		CHECK(KDONE(i) && KRESULT(i) == 0, "C15: receive succeeds at once when the reply is waiting");
	} else if (!blocking) {
		CHECK(KDONE(i) && KRESULT(i) == NNG_ETIMEDOUT, "C15: non-blocking receive without a reply fails at once");
	} else {
		CHECK(!KDONE(i), "blocking receive waits for the reply");
	}
	monitor();
}
static void
ev_txdone(int p, int ok)
{
	KNEED(kpipe_up[p] && kpipe[p].send_aio != NULL);
	if (kstop)
		return;
	env_pipe_send_done(&kpipe[p], ok ? 0 : NNG_ECONNRESET);
	kquiesce();
	note_tx();
	monitor();
}
static void
ev_reply(int p, int k)
{
	KNEED(kpipe_up[p] && kpipe[p].recv_aio != NULL);
	if (kstop)
		return;
	nni_msg *m;
	u32      id;
	int      tag = 0;
	if (k == 4) {
		m = kmsg(3);
		env_pipe_recv_done(&kpipe[p], m, 0);
		kquiesce();
		CHECK(kpipe[p].closed, "C11: a reply shorter than its id closes the connection");
		monitor();
		WITNESS("short reply");
		return;
	}
	if (k == 0 || k == 1) {
		KNEED(k == 0 || have_x);
		if (kstop)
			return;
		id = cur_id[k]; /* concrete */
		KNEED(id != 0);
		if (kstop)
			return;
		/* is it (still) the id of an outstanding request that was put on the wire? */
		if (ctxs[k]->request_id == id && ctxs[k]->send_aio == NULL && ctxs[k]->rep_msg == NULL)
			tag = (k + 1) * 100 + gen[k];
	} else if (k == 5 || k == 6) {
		id = prev_id[k - 5];
		KNEED(id != 0 && id != cur_id[0] && id != cur_id[1]);
		if (kstop)
			return;
	} else if (k == 2) {
		id = ND(u32);
		ASSUME(id != cur_id[0] && id != cur_id[1]);
	} else {
		id = ND(u32) & 0x7fffffffu;
	}
	nni_msg_alloc(&m, 6);
	u8 *b = nni_msg_body(m);
	b[0]  = (u8) (id >> 24);
	b[1]  = (u8) (id >> 16);
	b[2]  = (u8) (id >> 8);
	b[3]  = (u8) id;
	b[4]  = ND(u8);
	b[5]  = ND(u8);
	m->tag = tag;
	int live0 = env_msg_live;
	int rep0[NCTX], rcv0[NCTX];
	for (int c = 0; c < NCTX; c++) {
		rep0[c] = ctxs[c]->rep_msg != NULL;
		rcv0[c] = ctxs[c]->recv_aio != NULL;
	}
	env_pipe_recv_done(&kpipe[p], m, 0);
	kquiesce();
	CHECK(kpipe[p].recv_aio != NULL, "receive is re-armed after a reply");
	if (tag == 0) {
		/* stale / foreign / unsolicited: discarded, nobody disturbed */
		for (int c = 0; c < NCTX; c++) {
			CHECK((ctxs[c]->rep_msg != NULL) == rep0[c] && (ctxs[c]->recv_aio != NULL) == rcv0[c],
			    "a reply that answers no outstanding request disturbs no context");
		}
		CHECK(env_msg_live == live0 - 1, "a reply that answers no outstanding request is discarded (freed once)");
		WITNESS("reply discarded");
	} else {
		WITNESS("reply matched");
	}
	monitor();
}
static void
ev_cancel(int i)
{
	KNEED(uaio_used[i]);
	if (kstop)
		return;
	int was_pending = !KDONE(i);
	(void) KRESULT(i);
	int c = uctx[i];
	nni_aio_abort(&uaio_at(i), NNG_ECANCELED);
	kquiesce();
	if (was_pending) {
		CHECK(KDONE(i) && KRESULT(i) == NNG_ECANCELED, "cancel completes the pending operation with ECANCELED");
		/* the request is abandoned: later replies to it must be discarded */
		if (ctxs[c]->request_id == 0)
			gen[c] += 0;
		WITNESS("cancelled");
	}
	monitor();
}
static void
ev_pipe_lost(int p)
{
	KNEED(kpipe_up[p]);
	if (kstop)
		return;
	int had[NCTX], wait[NCTX];
	for (int c = 0; c < NCTX; c++) {
		had[c]  = (c == 0 || have_x) && on_list(&pd[p].contexts, ctxs[c]) && ctxs[c]->retry <= 0;
		wait[c] = ctxs[c]->recv_aio != NULL;
	}
	req0_pipe_close(&pd[p]);
	kquiesce();
	req0_pipe_stop(&pd[p]);
	req0_pipe_fini(&pd[p]);
	kpipe_up[p] = 0;
	note_tx();
	for (int c = 0; c < NCTX; c++)
		if (had[c]) {
			if (wait[c]) {
				int found = 0;
				for (int i = 0; i < MAXU; i++)
					if (uaio_used[i] && ukind[i] == 2 && uctx[i] == c && KDONE(i) && KRESULT(i) == NNG_ECONNRESET)
						found = 1;
				CHECK(found, "C12: with resending disabled, losing the request's connection fails the receive with ECONNRESET");
				WITNESS("connreset");
			} else {
				CHECK(ctxs[c]->conn_reset, "C12: with resending disabled, a lost connection is remembered for the next receive");
			}
		}
	monitor();
}
static void
ev_setretry(int c, int v)
{
	nng_duration d = v;
	KNEED(!sock_closed && (c == 0 || have_x));
	if (kstop)
		return;
	CHECK(req0_ctx_set_resend_time(ctxs[c], &d, sizeof(d), NNI_TYPE_DURATION) == 0, "set resend time");
	kquiesce();
	sweep();
}
static void
ev_tick(int d)
{
	KNEED(!sock_closed && env_aio_outstanding(&sock.retry_aio));
	if (kstop)
		return;
	env_now += (nni_time) d;
	int due[NCTX];
	for (int c = 0; c < NCTX; c++)
		due[c] = (c == 0 || have_x) && outstanding(c) && ctxs[c]->retry > 0 && retry_at_send[c] > 0 && ctxs[c]->retry_time <= env_now &&
		    on_list(&sock.retry_queue, ctxs[c]);
	int sends0 = 0; /* transport sends issued so far (a resent copy shares the message object, so it is counted here, not by note_tx) */
	for (int p = 0; p < MAXP; p++)
		sends0 += kpipe[p].sends;
	env_aio_expire(&sock.retry_aio);
	kquiesce();
	note_tx();
	for (int c = 0; c < NCTX; c++)
		if (due[c]) {
			/* it is transmitted again now (a copy went on the wire) or waits in the send queue for a pipe */
			int sends1 = 0;
			for (int p = 0; p < MAXP; p++)
				sends1 += kpipe[p].sends;
			CHECK(on_list(&sock.send_queue, ctxs[c]) || sends1 > sends0, "C12: when the resend time has elapsed the request is queued for (re)transmission");
			WITNESS("resend due");
		}
	monitor();
}
static void
ev_close(void)
{
	KNEED(!sock_closed);
	if (kstop)
		return;
	for (int p = 0; p < MAXP; p++)
		if (kpipe_up[p])
			req0_pipe_close(&pd[p]);
	req0_sock_close(&sock);
	sock_closed = 1;
	kquiesce();
	if (have_x)
		req0_ctx_fini(&xctx);
	for (int p = 0; p < MAXP; p++)
		if (kpipe_up[p]) {
			req0_pipe_stop(&pd[p]);
			req0_pipe_fini(&pd[p]);
			kpipe_up[p] = 0;
		}
	kquiesce();
	req0_sock_fini(&sock);
	kquiesce();
	sweep();
	for (int i = 0; i < MAXU; i++)
		if (uaio_used[i])
			CHECK(KDONE(i), "C10: close completes every pending operation");
	CHECK(env_msg_live == 0, "C03: after close and fini every message has been released exactly once");
	CHECK(env_alloc_live == 0, "C03: after close and fini all memory is returned");
	WITNESS("closed");
}
#define A(p) if (!kstop) ev_attach(p);
#define S(c, i, b) if (!kstop) ev_send(c, i, b);
#define R(c, i, b) if (!kstop) ev_recv(c, i, b);
#define T(p, ok) if (!kstop) ev_txdone(p, ok);
#define Y(p, k) if (!kstop) ev_reply(p, k);
#define X(i) if (!kstop) ev_cancel(i);
#define C(p) if (!kstop) ev_pipe_lost(p);
#define O(c, v) if (!kstop) ev_setretry(c, v);
#define K(d) if (!kstop) ev_tick(d);
#define Z if (!kstop) ev_close();
#ifndef SKEL
#define SKEL A(0) S(0, 0, 1) T(0, 1) Y(0, 0) R(0, 1, 0) Z
#endif
void
harness(void)
{
#ifdef RANDOM0
	env_random_value = RANDOM0;
#endif
	req0_sock_init(&sock, NULL);
	ctxs[0] = &sock.master;
	ctxs[1] = &xctx;
#ifdef TWOCTX
	req0_ctx_init(&xctx, &sock);
	have_x = 1;
#endif
	monitor();
	SKEL
	if (!kstop)
		WITNESS("skeleton ran to its end");
#ifdef MUSTEND
	/* a curated skeleton whose every event is applicable on the library as it should be: an event that finds nothing to act
	 * on (e.g. no transfer outstanding because a message vanished) is a failure, not the end of the skeleton */
	CHECK(!kstop, "every event of the skeleton found the library in the state the previous events must have left it in");
#endif
	WITNESS("end");
}

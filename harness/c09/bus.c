/* C09 (+C03, C10, C15 monitors): BUS over the real bus0/bus.c (cooked, or raw
 * with -DRAW).
 * events: A(p) attach, S(i,b) send (cooked), SR(i,b,h) raw send whose header
 *         names pipe h (h=-1: no header), T(p,ok) transport send done,
 *         W(p) message arrives on pipe p, R(i,b) receive, C(p) pipe lost, Z.
 */
#include "proto_kit.h"
#include "sp/protocol/bus0/bus.c"
#define MAXW 4
static bus0_sock sock;
static bus0_pipe pd[MAXP];
static int       sock_closed;
static int       wid[MAXW], wpipe[MAXW], nw, wdeliv[MAXW];
static int       last_deliv_on_pipe[MAXP];
static int       noted[MAXU];
static int       is_recv[MAXU];
static int       got_w[MAXU]; /* 1 + index of the arrival the receive got (0: none yet) */

static int
count_on_pipe(int p, int id)
{
	int n = 0;
	if (kpipe[p].wire_msg != NULL && kpipe[p].wire_msg->id == id)
		n++;
	nni_lmq *q = &pd[p].send_queue;
	for (size_t k = 0; k < q->lmq_len; k++)
		if (q->lmq_msgs[(q->lmq_get + k) & q->lmq_mask]->id == id)
			n++;
	return n;
}
static int
widx(int id)
{
	for (int i = 0; i < MAXW; i++)
		if (i < nw && wid[i] == id)
			return i;
	return -1;
}
static void
sweep(void)
{
	for (int i = 0; i < MAXU; i++)
		if (uaio_used[i] && is_recv[i] && KDONE(i) && KRESULT(i) == 0 && !noted[i]) {
			noted[i]   = 1;
			nni_msg *m = nni_aio_get_msg(&uaio_at(i));
			CHECK(m != NULL, "successful receive carries a message");
			int w = widx(m->id);
			CHECK(w >= 0, "a received message came from a peer (never echoed from this socket's own send)");
			if (w >= 0) {
				wdeliv[w]++;
				CHECK(wdeliv[w] == 1, "a message is delivered at most once");
				CHECK(w + 1 > last_deliv_on_pipe[wpipe[w]], "messages from one peer are delivered in that peer's send order");
				last_deliv_on_pipe[wpipe[w]] = w + 1;
				/* receives are served in the order they were posted: an application that keeps several receives
				 * outstanding and reads them in that order sees each peer's messages in send order */
				got_w[i] = w + 1;
				for (int j = 0; j < MAXU; j++) {
					if (j == i || !got_w[j] || wpipe[got_w[j] - 1] != wpipe[w])
						continue;
					CHECK((j < i) == (got_w[j] < got_w[i]), "of two outstanding receives the one posted first gets the earlier message of a peer");
				}
#ifdef RAW
				CHECK(nni_msg_header_len(m) == 4 && nni_msg_header_peek_u32(m) == kpipe[wpipe[w]].id,
				    "raw receive: header names the pipe the message arrived on");
#endif
			}
			nni_msg_free(m);
			nni_aio_set_msg(&uaio_at(i), NULL);
		}
}
static void
monitor(void)
{
	kquiesce();
	sweep();
	for (int i = 0; i < MAXU; i++)
		if (uaio_used[i])
			CHECK(env_aio_completed(&uaio_at(i)) <= 1, "operation completes at most once");
	if (!sock_closed)
		CHECK(nni_atomic_get_bool(&sock.can_recv.p_raised) == !nni_lmq_empty(&sock.recv_msgs),
		    "C15: receive poll state mirrors whether a message is buffered");
}
static void
ev_attach(int p)
{
	KNEED(!kpipe_up[p] && !sock_closed);
	if (kstop)
		return;
	env_pipe_init(&kpipe[p], 100 + p, NNI_PROTO_BUS_V0);
	{
		static const __typeof__(pd[0]) pd_zero;
		pd[p] = pd_zero; /* struct assignment keeps field sensitivity, memset does not */
	}
	CHECK(bus0_pipe_init(&pd[p], &kpipe[p], &sock) == 0, "pipe_init");
	kpipe_up[p] = 1;
	CHECK(bus0_pipe_start(&pd[p]) == 0, "pipe_start accepts a BUS peer");
	monitor();
}
static void
do_send(int i, int blocking, int hdrpipe)
{
	KNEED(!uaio_used[i] && !sock_closed);
	if (kstop)
		return;
	int before[MAXP], full[MAXP], sends0[MAXP];
	kuaio_prepare(i, blocking);
	umsg[i]    = kmsg(2);
	umsg_id[i] = umsg[i]->id;
#ifdef RAW
	if (hdrpipe >= 0)
		nni_msg_header_append_u32(umsg[i], 100 + hdrpipe);
#else
	(void) hdrpipe;
#endif
	for (int p = 0; p < MAXP; p++) {
		before[p] = kpipe_up[p] ? 1 : 0;
		full[p]   = kpipe_up[p] && pd[p].busy && nni_lmq_full(&pd[p].send_queue);
		sends0[p] = kpipe[p].sends;
	}
	nni_aio_set_msg(&uaio_at(i), umsg[i]);
	env_aio_submit(&uaio_at(i));
	bus0_sock_send(&sock, &uaio_at(i));
	CHECK(KDONE(i), "BUS send never blocks: it has completed when the call returns");
#ifdef KF_BUS_NONBLOCK_EAGAIN
	/* known finding F6b excluded: a non-blocking BUS send is refused with
	 * NNG_ETIMEDOUT (-> NNG_EAGAIN).  With the finding excluded the send must at
	 * least fail cleanly: nothing offered to any peer, message left with the caller. */
	if (!blocking) {
		CHECK(KRESULT(i) == NNG_ETIMEDOUT, "known finding F6b: non-blocking BUS send reports EAGAIN");
		CHECK(nni_aio_get_msg(&uaio_at(i)) == umsg[i], "C03: failed send leaves the message with the caller");
		for (int p = 0; p < MAXP; p++)
			if (before[p])
				CHECK(count_on_pipe(p, umsg_id[i]) == 0, "a refused send offers nothing to any peer");
		nni_msg_free(umsg[i]);
		nni_aio_set_msg(&uaio_at(i), NULL);
		monitor();
		return;
	}
#endif
	CHECK(KRESULT(i) == 0, "BUS send is accepted in every state, also when submitted non-blocking");
	CHECK(nni_aio_get_msg(&uaio_at(i)) == NULL, "accepted send: message owned by the library");
	for (int p = 0; p < MAXP; p++) {
		if (!before[p])
			continue;
		int n = count_on_pipe(p, umsg_id[i]);
		CHECK(n <= 1, "each connected peer is offered a message at most once");
#ifdef RAW
		if (hdrpipe == p) {
			CHECK(n == 0, "raw: a message is not forwarded to the pipe its header names");
			WITNESS("origin skipped");
			continue;
		}
#endif
		if (!full[p])
			CHECK(n == 1, "each connected peer with room is offered the message");
		else
			CHECK(n == 0, "a full per-peer queue drops the whole message");
	}
	monitor();
	WITNESS("sent");
}
static void
ev_txdone(int p, int ok)
{
	KNEED(kpipe_up[p] && kpipe[p].send_aio != NULL);
	if (kstop)
		return;
	env_pipe_send_done(&kpipe[p], ok ? 0 : NNG_ECONNRESET);
	monitor();
}
static void
ev_wire(int p)
{
	KNEED(kpipe_up[p] && kpipe[p].recv_aio != NULL && nw < MAXW);
	if (kstop)
		return;
	int sends0[MAXP];
	for (int q = 0; q < MAXP; q++)
		sends0[q] = kpipe[q].sends;
	int      room = !nni_lmq_full(&sock.recv_msgs) || !nni_list_empty(&sock.recv_wait);
	nni_msg *m    = kmsg(2);
	wid[nw]       = m->id;
	wpipe[nw]     = p;
	nw++;
	env_pipe_recv_done(&kpipe[p], m, 0);
	kquiesce();
	for (int q = 0; q < MAXP; q++)
		CHECK(kpipe[q].sends == sends0[q], "a received message is never sent on by the socket (no echo, no forwarding)");
	CHECK(kpipe[p].recv_aio != NULL, "receive is re-armed after a message");
	(void) room;
	monitor();
	WITNESS("message arrived");
}
static void
ev_recv(int i, int blocking)
{
	KNEED(!uaio_used[i] && !sock_closed);
	if (kstop)
		return;
	bool can = !nni_lmq_empty(&sock.recv_msgs);
	kuaio_prepare(i, blocking);
	is_recv[i] = 1;
	env_aio_submit(&uaio_at(i));
	bus0_sock_recv(&sock, &uaio_at(i));
	if (can)
		CHECK(KDONE(i) && KRESULT(i) == 0, "receive succeeds at once when a message is buffered");
	else if (!blocking)
		CHECK(KDONE(i) && KRESULT(i) == NNG_ETIMEDOUT, "non-blocking receive on an empty buffer fails at once (EAGAIN)");
	else {
		CHECK(!KDONE(i), "blocking receive waits");
		KWAIT_POST(i, 0);
	}
	monitor();
}
/* NNG_OPT_RECVBUF := n while messages may be buffered (and the ring may have wrapped) */
static void
ev_recvbuf(int n)
{
	int v = n;
	KNEED(!sock_closed);
	if (kstop)
		return;
	KQ_SNAP(&sock.recv_msgs);
	nng_err brv = bus0_sock_set_recv_buf_len(&sock, &v, sizeof(v), NNI_TYPE_INT32);
	KQ_FAULT_RESULT(brv, &sock.recv_msgs);
	CHECK(brv == 0, "set RECVBUF");
	size_t keep = ksn_len < (size_t) n ? ksn_len : (size_t) n;
	CHECK(nni_lmq_len(&sock.recv_msgs) == keep, "C18: resizing the receive buffer discards only as many whole messages as no longer fit");
	for (size_t k = 0; k < 8; k++)
		if (k < keep)
			CHECK(sock.recv_msgs.lmq_msgs[(sock.recv_msgs.lmq_get + k) & sock.recv_msgs.lmq_mask]->id == ksn_id[k],
			    "C09/C18: resizing the receive buffer keeps the buffered messages in their arrival order");
	monitor();
	WITNESS("receive buffer resized");
}
static void
ev_pipe_lost(int p)
{
	KNEED(kpipe_up[p]);
	if (kstop)
		return;
	bus0_pipe_close(&pd[p]);
	kquiesce();
	bus0_pipe_stop(&pd[p]);
	bus0_pipe_fini(&pd[p]);
	kpipe_up[p] = 0;
	monitor();
}
static void
ev_close(void)
{
	KNEED(!sock_closed);
	if (kstop)
		return;
	for (int p = 0; p < MAXP; p++)
		if (kpipe_up[p])
			bus0_pipe_close(&pd[p]);
	bus0_sock_close(&sock);
	sock_closed = 1;
	kquiesce();
	for (int p = 0; p < MAXP; p++)
		if (kpipe_up[p]) {
			bus0_pipe_stop(&pd[p]);
			bus0_pipe_fini(&pd[p]);
			kpipe_up[p] = 0;
		}
	kquiesce();
	sweep();
	for (int i = 0; i < MAXU; i++)
		if (uaio_used[i]) {
			CHECK(KDONE(i), "C10: socket close completes every pending operation");
			if (KRESULT(i) != 0 && nni_aio_get_msg(&uaio_at(i)) != NULL) {
				nni_msg_free(nni_aio_get_msg(&uaio_at(i)));
			}
		}
	bus0_sock_fini(&sock);
	CHECK(env_msg_live == 0, "C03: after close and fini every message has been released exactly once");
	WITNESS("closed");
}
#define A(p) if (!kstop) ev_attach(p);
#define S(i, b) if (!kstop) do_send(i, b, -1);
#define SR(i, b, h) if (!kstop) do_send(i, b, h);
#define T(p, ok) if (!kstop) ev_txdone(p, ok);
#define W(p) if (!kstop) ev_wire(p);
#define R(i, b) if (!kstop) ev_recv(i, b);
#define C(p) if (!kstop) ev_pipe_lost(p);
#define Q(n) if (!kstop) ev_recvbuf(n);
#define Z if (!kstop) ev_close();
#ifndef SKEL
#define SKEL A(0) A(1) S(0, 0) Z
#endif
void
harness(void)
{
#ifdef RAW
	bus0_sock_init_raw(&sock, NULL);
#else
	bus0_sock_init(&sock, NULL);
#endif
#ifdef SENDBUF
	{
		/* through the real option setter (NNG_OPT_SENDBUF): it records the depth for pipes that attach later */
		int v = SENDBUF;
		CHECK(bus0_sock_set_send_buf_len(&sock, &v, sizeof(v), NNI_TYPE_INT32) == 0 && sock.send_buf == SENDBUF, "set SENDBUF");
	}
#endif
	monitor();
	SKEL
	if (!kstop)
		WITNESS("skeleton ran to its end");
#ifdef MUSTEND
	/* a curated skeleton whose every event is applicable on the library as it should be: an event that finds nothing to act
	 * on (e.g. no transfer outstanding because a message vanished) is a failure, not the end of the skeleton */
	CHECK(!kstop, "every event of the skeleton found the library in the state the previous events must have left it in");
#endif
	WITNESS("end");
}

/* C18: waiting readers and writers of the real core/msgqueue.c are served first come first served, and the queue plus
 * its blocked writers behave as ONE first-in-first-out sequence.  From nni_msgq_init(CAP):
 *   MODE 1  NG (2..3) readers wait on the empty queue, then NG messages are put (aio puts): reader k gets message k.
 *   MODE 2  the queue is filled to CAP, NP (2..3) writers block with messages A, B(, C), then everything is drained
 *           with non-blocking gets: first the CAP queued messages in order, then A, B(, C) in the order the writers
 *           blocked; every writer completes exactly once with success as soon as its message has been taken in.
 *   MODE 3  cancel the first of two waiting readers: the second one gets the next message, the cancelled one nothing.
 */
#include "env_aio.h"
extern int env_alloc_live, env_locks_held;
struct nng_msg {
	int id;
	int freed;
};
#include "core/msgqueue.c"
#ifndef CAP
#define CAP 1
#endif
#ifndef NG
#define NG 2
#endif
#ifndef NP
#define NP 2
#endif
static struct nng_msg pool[8];
void
nni_msg_free(nng_msg *m)
{
	if (m == NULL)
		return;
	CHECK(m->freed == 0, "message freed twice");
	m->freed++;
}
size_t
nni_msg_len(const nng_msg *m)
{
	(void) m;
	return 1;
}
static void
quiesce(void)
{
	for (int i = 0; i < 8; i++)
		if (env_run_callbacks() == 0)
			break;
	CHECK(env_locks_held == 0, "queue lock released");
}
static nni_aio g[3], p[3], x;
void
harness(void)
{
	nni_msgq *q = NULL;
	for (int i = 0; i < 8; i++)
		pool[i].id = i;
	CHECK(nni_msgq_init(&q, CAP) == 0 && q != NULL, "msgq_init");
#if MODE == 1 || MODE == 3
	for (int k = 0; k < NG; k++) {
		nni_aio_init(&g[k], NULL, NULL);
		nni_aio_set_timeout(&g[k], NNG_DURATION_INFINITE);
		env_aio_submit(&g[k]);
		nni_msgq_aio_get(q, &g[k]);
		quiesce();
		CHECK(env_aio_completed(&g[k]) == 0, "a reader on an empty queue waits");
	}
#if MODE == 3
	nni_aio_abort(&g[0], NNG_ECANCELED);
	quiesce();
	CHECK(env_aio_completed(&g[0]) == 1 && nni_aio_result(&g[0]) == NNG_ECANCELED && nni_aio_get_msg(&g[0]) == NULL, "a cancelled reader completes with ECANCELED and no message");
#endif
	for (int k = 0; k < NG; k++) {
		nni_aio_init(&p[k], NULL, NULL);
		nni_aio_set_msg(&p[k], &pool[k]);
		nni_aio_set_timeout(&p[k], NNG_DURATION_ZERO);
		env_aio_submit(&p[k]);
		nni_msgq_aio_put(q, &p[k]);
		quiesce();
#if MODE == 1
		CHECK(env_aio_completed(&p[k]) == 1 && nni_aio_result(&p[k]) == 0, "a put is taken at once while a reader waits");
		CHECK(env_aio_completed(&g[k]) == 1 && nni_aio_result(&g[k]) == 0 && nni_aio_get_msg(&g[k]) == &pool[k], "the reader that waited k-th gets the k-th message");
		for (int j = k + 1; j < NG; j++)
			CHECK(env_aio_completed(&g[j]) == 0, "later readers keep waiting");
#else
		if (k == 0) {
			CHECK(env_aio_completed(&g[1]) == 1 && nni_aio_result(&g[1]) == 0 && nni_aio_get_msg(&g[1]) == &pool[0], "after the first reader was cancelled the second one gets the next message");
			CHECK(nni_aio_get_msg(&g[0]) == NULL, "the cancelled reader gets nothing");
		}
#endif
	}
	WITNESS("readers served in order");
#elif MODE == 2
	for (int k = 0; k < CAP; k++)
		CHECK(nni_msgq_tryput(q, &pool[k]) == 0, "filling the queue to its depth");
	for (int k = 0; k < NP; k++) {
		nni_aio_init(&p[k], NULL, NULL);
		nni_aio_set_msg(&p[k], &pool[CAP + k]);
		nni_aio_set_timeout(&p[k], NNG_DURATION_INFINITE);
		env_aio_submit(&p[k]);
		nni_msgq_aio_put(q, &p[k]);
		quiesce();
		CHECK(env_aio_completed(&p[k]) == 0 && nni_aio_get_msg(&p[k]) == &pool[CAP + k], "a writer on a full queue waits and keeps its message");
		CHECK(q->mq_len <= CAP, "the queue never holds more than its depth while writers wait");
	}
	for (int k = 0; k < CAP + NP; k++) {
		nni_aio_init(&x, NULL, NULL);
		nni_aio_set_timeout(&x, NNG_DURATION_ZERO);
		env_aio_submit(&x);
		nni_msgq_aio_get(q, &x);
		quiesce();
		CHECK(env_aio_completed(&x) == 1 && nni_aio_result(&x) == 0, "a get succeeds while anything is queued or a writer waits");
		CHECK(nni_aio_get_msg(&x) == &pool[k], "queue and blocked writers drain as one first-in-first-out sequence");
		for (int w = 0; w < NP; w++) {
			/* writer w's message is the (CAP + w)-th to leave: by then the writer must have been told */
			if (CAP + w <= k) {
				CHECK(env_aio_completed(&p[w]) == 1 && nni_aio_result(&p[w]) == 0 && nni_aio_get_msg(&p[w]) == NULL, "a blocked writer whose message has been delivered has completed, once, with success");
			}
			CHECK(env_aio_completed(&p[w]) <= 1, "a writer completes at most once");
			if (env_aio_completed(&p[w]) == 1 && w + 1 < NP && CAP + w + 1 > k + 1 + CAP) {
				/* nothing */
			}
		}
	}
	for (int w = 0; w < NP; w++)
		CHECK(env_aio_completed(&p[w]) == 1 && nni_aio_result(&p[w]) == 0, "every blocked writer was admitted exactly once");
	nni_aio_init(&x, NULL, NULL);
	nni_aio_set_timeout(&x, NNG_DURATION_ZERO);
	env_aio_submit(&x);
	nni_msgq_aio_get(q, &x);
	quiesce();
	CHECK(env_aio_completed(&x) == 1 && nni_aio_result(&x) != 0, "then the queue is empty: nothing is duplicated");
	WITNESS("writers admitted in order");
#endif
	nni_msgq_fini(q);
	CHECK(env_alloc_live == 0, "fini returns all memory");
	WITNESS("end");
}

/* C18: one operation of the real core/msgqueue.c ring from an arbitrary ring
 * state (alloc = cap + 2, every get position, every fill level including the
 * documented cap+1 push-back slot).
 * shape: CAP (ring capacity before the operation), OP
 * symbolic: get index, length, new capacity.
 */
#include "env_aio.h"
extern int env_alloc_live, env_locks_held;
struct nng_msg {
	int id;
	int freed;
};
#include "core/msgqueue.c"

#ifndef CAP
#define CAP 2
#endif
#define ALLOC (CAP + 2)
#define NMSG (ALLOC + 1)
#define OP_TRYPUT 1
#define OP_RESIZE 2
#define OP_CLOSE 3
#define OP_FINI 4
#define OP_AIOGET 5
#define OP_AIOPUT 6
#ifndef NEWCAPMAX
#define NEWCAPMAX 5
#endif

static struct nng_msg pool[NMSG];
static int            nfreed;
void
nni_msg_free(nng_msg *m)
{
	if (m == NULL)
		return;
	CHECK(m->freed == 0, "message freed twice");
	m->freed++;
	nfreed++;
}
size_t
nni_msg_len(const nng_msg *m)
{
	(void) m;
	return 1;
}

static int
inv(const nni_msgq *q)
{
	if (q->mq_alloc != q->mq_cap + 2 && q->mq_alloc < q->mq_cap + 2)
		return 0;
	if (q->mq_get >= q->mq_alloc || q->mq_put >= q->mq_alloc)
		return 0;
	if (q->mq_len > q->mq_cap + 1)
		return 0;
	if (q->mq_put != (q->mq_get + q->mq_len) % q->mq_alloc)
		return 0;
	return 1;
}

void
harness(void)
{
	nni_msgq *q = NULL;
	nng_msg  *seq[ALLOC + 1];
	unsigned  get = ND(u32), len = ND(u32);
	int       rv;

	for (int i = 0; i < NMSG; i++) {
		pool[i].id    = i;
		pool[i].freed = 0;
	}
	rv = nni_msgq_init(&q, CAP);
	CHECK(rv == 0 && q != NULL, "msgq_init succeeds");
	CHECK(inv(q) && q->mq_len == 0 && q->mq_cap == CAP, "msgq_init establishes the ring invariant");
	ASSUME(get < ALLOC);
#ifdef WITH_PUSHBACK
	ASSUME(len <= CAP + 1);
#else
	ASSUME(len <= CAP);
#endif
	q->mq_get = get;
	q->mq_len = len;
	q->mq_put = (get + len) % ALLOC;
	for (unsigned i = 0; i < ALLOC; i++) {
		if (i < len) {
			q->mq_msgs[(get + i) % ALLOC] = &pool[i];
			seq[i]                        = &pool[i];
		}
	}

#if OP == OP_TRYPUT
	{
		nng_msg *m = &pool[ALLOC];
		rv         = nni_msgq_tryput(q, m);
		if (len >= CAP) {
			CHECK(rv == NNG_EAGAIN, "tryput on a full queue: EAGAIN");
			CHECK(q->mq_len == len, "failed tryput leaves the queue");
			WITNESS("tryput full");
		} else {
			CHECK(rv == 0, "tryput with room succeeds");
			CHECK(q->mq_len == len + 1, "tryput: length + 1");
			seq[len] = m;
#if CAP > 0
			WITNESS("tryput ok");
#endif
		}
		CHECK(inv(q), "ring invariant after tryput");
		unsigned k = ND(u32);
		if (q->mq_len > 0) {
			ASSUME(k < q->mq_len);
			CHECK(q->mq_msgs[(q->mq_get + k) % q->mq_alloc] == seq[k], "tryput keeps FIFO order");
		}
		CHECK(nfreed == 0, "tryput frees nothing");
	}
#elif OP == OP_RESIZE
	{
#ifdef NEWCAP
		int nc = NEWCAP; /* concrete per query: a symbolic allocation size costs 50 s */
#else
		int nc = ND(vint);
		ASSUME(nc >= 0 && nc <= NEWCAPMAX);
#endif
		rv = nni_msgq_resize(q, nc);
		CHECK(rv == 0, "resize succeeds");
		unsigned keep = len < (unsigned) nc + 1 ? len : (unsigned) nc + 1;
		CHECK(inv(q), "ring invariant after resize");
		CHECK(q->mq_cap == (unsigned) nc, "resize: new capacity");
		CHECK(q->mq_len == keep, "resize keeps min(len, newcap+1) messages");
		CHECK((unsigned) nfreed == len - keep, "resize frees exactly the surplus");
		unsigned k = ND(u32);
		if (keep > 0) {
			ASSUME(k < keep);
			/* the oldest are discarded first: survivors are the newest `keep` */
			CHECK(q->mq_msgs[(q->mq_get + k) % q->mq_alloc] == seq[len - keep + k],
			    "resize keeps the survivors in their original order");
			CHECK(seq[len - keep + k]->freed == 0, "survivor not freed");
		}
		unsigned j = ND(u32);
		if (len > keep) {
			ASSUME(j < len - keep);
			CHECK(seq[j]->freed == 1, "discarded message freed exactly once");
#if !defined(NEWCAP)
			WITNESS("resize drops");
#endif
		}
#if defined(NEWCAP) && (NEWCAP + 1 < CAP)
		if (len > keep)
			WITNESS("resize dropped some");
#endif
	}
#elif OP == OP_CLOSE
	{
		nni_msgq_close(q);
		CHECK(q->mq_len == 0, "close empties the queue");
		CHECK((unsigned) nfreed == len, "close frees every queued message once");
		CHECK(nni_msgq_tryput(q, &pool[ALLOC]) == NNG_ECLOSED, "tryput after close: ECLOSED");
#if CAP > 0
		if (len > 0)
			WITNESS("close nonempty");
#endif
	}
#elif OP == OP_FINI
	{
		nni_msgq_fini(q);
		CHECK((unsigned) nfreed == len, "fini frees every queued message once");
		CHECK(env_alloc_live == 0, "fini returns all memory");
#if CAP > 0
		if (len > 0)
			WITNESS("fini nonempty");
#endif
		WITNESS("end of fini");
		return;
	}
#elif OP == OP_AIOGET
	{
		nni_aio a;
		nni_aio_init(&a, NULL, NULL);
#ifdef NB
		nni_aio_set_timeout(&a, NNG_DURATION_ZERO); /* NNG_FLAG_NONBLOCK */
#endif
		env_aio_submit(&a);
		nni_msgq_aio_get(q, &a);
#ifdef NB
		if (len == 0) {
			CHECK(env_aio_completed(&a) == 1 && nni_aio_result(&a) == NNG_ETIMEDOUT, "C15: non-blocking get on an empty queue fails at once");
			CHECK(nni_list_empty(&q->mq_aio_getq), "a refused non-blocking get is not left queued");
			WITNESS("nonblocking get refused");
		} else
#endif
		if (len > 0) {
			CHECK(env_aio_completed(&a) == 1 && nni_aio_result(&a) == 0, "C15: get on a non-empty queue completes at once (also when non-blocking)");
			CHECK(nni_aio_get_msg(&a) == seq[0], "get returns the oldest message");
			CHECK(q->mq_len == len - 1, "get: length - 1");
#if CAP > 0
			WITNESS("aio get ok");
#endif
		} else {
			CHECK(env_aio_completed(&a) == 0, "get on an empty queue stays pending");
			CHECK(nni_list_first(&q->mq_aio_getq) == &a, "pending reader is queued");
			WITNESS("aio get blocks");
		}
		CHECK(inv(q), "ring invariant after aio_get");
		CHECK(nni_atomic_get_bool(&q->mq_recvable.p_raised) == (q->mq_len != 0), "recvable pollable mirrors non-emptiness");
	}
#elif OP == OP_AIOPUT
	{
		nni_aio a;
		nni_aio_init(&a, NULL, NULL);
		nni_aio_set_msg(&a, &pool[ALLOC]);
#ifdef NB
		nni_aio_set_timeout(&a, NNG_DURATION_ZERO); /* NNG_FLAG_NONBLOCK */
#endif
		env_aio_submit(&a);
		nni_msgq_aio_put(q, &a);
#ifdef NB
		if (len >= CAP) {
			CHECK(env_aio_completed(&a) == 1 && nni_aio_result(&a) == NNG_ETIMEDOUT, "C15: non-blocking put on a full queue fails at once");
			CHECK(nni_aio_get_msg(&a) == &pool[ALLOC], "a refused put keeps its message");
			CHECK(nni_list_empty(&q->mq_aio_putq), "a refused non-blocking put is not left queued");
			WITNESS("nonblocking put refused");
		} else
#endif
		if (len < CAP) {
			CHECK(env_aio_completed(&a) == 1 && nni_aio_result(&a) == 0, "C15: put with room completes at once (also when non-blocking)");
			CHECK(nni_aio_get_msg(&a) == NULL, "accepted message no longer attached to the aio");
			CHECK(q->mq_len == len + 1, "put: length + 1");
			CHECK(q->mq_msgs[(q->mq_get + len) % q->mq_alloc] == &pool[ALLOC], "put appends at the tail");
#if CAP > 0
			WITNESS("aio put ok");
#endif
		} else {
			CHECK(env_aio_completed(&a) == 0, "put on a full queue stays pending");
			CHECK(nni_aio_get_msg(&a) == &pool[ALLOC], "pending put keeps its message");
			WITNESS("aio put blocks");
		}
		CHECK(inv(q), "ring invariant after aio_put");
		CHECK(nni_atomic_get_bool(&q->mq_sendable.p_raised) == (q->mq_len < q->mq_cap), "sendable pollable mirrors room");
	}
#endif
	CHECK(env_locks_held == 0, "queue lock released");
#if OP != OP_FINI
	WITNESS("end");
#endif
}

/* C18: one operation of the real core/lmq.c from an arbitrary ring state.
 * shape: ALLOC (0 = the inline 2-slot buffer, else 2/4/8), OP
 * symbolic: cap (consistent with ALLOC), get index, length, new capacity,
 *           which message is put.
 * oracle: FIFO sequence semantics; resize keeps the oldest min(len,newcap) in
 *         order and frees exactly the rest, each once.
 */
#include "vh.h"
#include <string.h>
struct nng_msg {
	int id;
	int freed;
};
/* a ring of message pointers moved with memcpy / memmove (the unit does not do that today; a rewrite of the resize loop
 * might): CBMC's built-in model of memcpy is imprecise for a source pointer with a symbolic offset (counterexamples that do
 * not replay) and a byte loop over pointers exhausts memory, so inside this unit the copies are done pointer-word by
 * pointer-word - exact for arrays of pointers, which is all lmq.c ever copies */
static void *
vh_wordcpy(void *d, const void *s, size_t n)
{
	struct nng_msg **dd = d;
	struct nng_msg *const *ss = s;
	CHECK(n % sizeof(*dd) == 0, "harness: lmq.c copies whole message pointers");
	for (size_t i = 0; i < 17; i++)
		if (i < n / sizeof(*dd))
			dd[i] = ss[i];
	CHECK(n / sizeof(*dd) <= 17, "harness: copy within the modelled ring sizes");
	return d;
}
static void *
vh_wordmove(void *d, const void *s, size_t n)
{
	struct nng_msg *tmp[17];
	struct nng_msg **dd = d;
	struct nng_msg *const *ss = s;
	CHECK(n % sizeof(*dd) == 0 && n / sizeof(*dd) <= 17, "harness: lmq.c moves whole message pointers within the modelled ring sizes");
	for (size_t i = 0; i < 17; i++)
		if (i < n / sizeof(*dd))
			tmp[i] = ss[i];
	for (size_t i = 0; i < 17; i++)
		if (i < n / sizeof(*dd))
			dd[i] = tmp[i];
	return d;
}
#define memcpy vh_wordcpy
#define memmove vh_wordmove
#include "core/lmq.c"
#undef memcpy
#undef memmove

#ifndef ALLOC
#define ALLOC 4
#endif
#define SLOTS (ALLOC == 0 ? 2 : ALLOC)
#define NMSG (SLOTS + 1)
#define OP_PUT 1
#define OP_GET 2
#define OP_RESIZE 3
#define OP_FLUSH 4
#define OP_FINI 5
#ifndef NEWCAPMAX
#define NEWCAPMAX 9
#endif

static struct nng_msg pool[NMSG];
static int            nfreed;
void
nni_msg_free(nng_msg *m)
{
	if (m == NULL)
		return;
	CHECK(m->freed == 0, "message freed twice");
	m->freed++;
	nfreed++;
}

static int
inv(const nni_lmq *q)
{
	size_t slots = q->lmq_alloc == 0 ? 2 : q->lmq_alloc;
	if (q->lmq_mask != slots - 1)
		return 0;
	if ((slots & (slots - 1)) != 0)
		return 0;
	if (q->lmq_alloc == 0 && q->lmq_msgs != (nng_msg **) q->lmq_buf)
		return 0;
	if (q->lmq_cap > slots)
		return 0;
	if (q->lmq_len > q->lmq_cap)
		return 0;
	if (q->lmq_get > q->lmq_mask || q->lmq_put > q->lmq_mask)
		return 0;
	if (q->lmq_put != ((q->lmq_get + q->lmq_len) & q->lmq_mask))
		return 0;
	return 1;
}

void
harness(void)
{
	nni_lmq   q;
	nng_msg  *seq[SLOTS + 1];
	usz       cap = ND(usz), get = ND(usz), len = ND(usz);
	nng_msg **store;

	memset(&q, 0, sizeof(q));
	for (int i = 0; i < NMSG; i++) {
		pool[i].id    = i;
		pool[i].freed = 0;
	}
#if ALLOC == 0
	store       = q.lmq_buf;
	q.lmq_alloc = 0;
	ASSUME(cap <= 2);
#else
	store = nni_alloc(sizeof(nng_msg *) * ALLOC);
	q.lmq_alloc = ALLOC;
	/* resize(cap) picks the smallest power of two >= max(cap,2) */
	ASSUME(cap <= ALLOC && (ALLOC == 2 || cap > ALLOC / 2));
#endif
	q.lmq_msgs = store;
	q.lmq_mask = SLOTS - 1;
	q.lmq_cap  = cap;
	ASSUME(get < SLOTS && len <= cap);
	q.lmq_get = get;
	q.lmq_len = len;
	q.lmq_put = (get + len) & (SLOTS - 1);
	/* distinct messages in ring order, stale pointers elsewhere */
	for (usz i = 0; i < SLOTS; i++)
		store[i] = NULL;
	for (usz i = 0; i < SLOTS; i++) {
		if (i < len) {
			store[(get + i) & (SLOTS - 1)] = &pool[i];
			seq[i]                         = &pool[i];
		}
	}
	CHECK(inv(&q), "constructed pre-state satisfies the ring invariant");

#if OP == OP_PUT
	{
		nng_msg *m  = &pool[SLOTS]; /* a message not in the queue */
		int      rv = nni_lmq_put(&q, m);
		if (len >= cap) {
			CHECK(rv == NNG_EAGAIN, "put on a full queue fails with EAGAIN");
			CHECK(q.lmq_len == len, "failed put leaves the length");
			WITNESS("put full");
		} else {
			CHECK(rv == 0, "put with room succeeds");
			CHECK(q.lmq_len == len + 1, "put: length + 1");
			seq[len] = m;
			WITNESS("put ok");
		}
		CHECK(inv(&q), "ring invariant after put");
		usz k = ND(usz);
		ASSUME(k < q.lmq_len);
		CHECK(q.lmq_msgs[(q.lmq_get + k) & q.lmq_mask] == seq[k], "put: FIFO order kept, new message last");
		CHECK(nfreed == 0, "put frees nothing");
	}
#elif OP == OP_GET
	{
		nng_msg *m  = NULL;
		int      rv = nni_lmq_get(&q, &m);
		if (len == 0) {
			CHECK(rv == NNG_EAGAIN, "get on an empty queue fails with EAGAIN");
			WITNESS("get empty");
		} else {
			CHECK(rv == 0 && m == seq[0], "get returns the oldest message");
			CHECK(q.lmq_len == len - 1, "get: length - 1");
			usz k = ND(usz);
			ASSUME(k < q.lmq_len);
			CHECK(q.lmq_msgs[(q.lmq_get + k) & q.lmq_mask] == seq[k + 1], "get: remaining order kept");
			WITNESS("get ok");
		}
		CHECK(inv(&q), "ring invariant after get");
		CHECK(nfreed == 0, "get frees nothing");
	}
#elif OP == OP_RESIZE
	{
		usz nc = ND(usz);
		ASSUME(nc <= NEWCAPMAX);
		int rv   = nni_lmq_resize(&q, nc);
		usz keep = len < nc ? len : nc;
		CHECK(rv == 0, "resize succeeds (allocation assumed to succeed)");
		CHECK(inv(&q), "ring invariant after resize");
		CHECK(q.lmq_cap == nc, "resize: new capacity");
		CHECK(q.lmq_len == keep, "resize keeps min(len, newcap) messages");
		CHECK((usz) nfreed == len - keep, "resize frees exactly the messages that no longer fit");
		usz k = ND(usz);
		if (keep > 0) {
			ASSUME(k < keep);
			CHECK(q.lmq_msgs[(q.lmq_get + k) & q.lmq_mask] == seq[k], "resize keeps the oldest messages in order");
			CHECK(seq[k]->freed == 0, "kept message not freed");
		}
		usz j = ND(usz);
		if (len > keep) {
			ASSUME(j >= keep && j < len);
			CHECK(seq[j]->freed == 1, "dropped message freed exactly once");
			WITNESS("resize drops");
		}
		if (nc > SLOTS)
			WITNESS("resize grows");
	}
#elif OP == OP_FLUSH
	{
		nni_lmq_flush(&q);
		CHECK(q.lmq_len == 0, "flush empties the queue");
		CHECK((usz) nfreed == len, "flush frees every queued message once");
		CHECK(inv(&q), "ring invariant after flush");
		if (len == SLOTS)
			WITNESS("flush full");
	}
#elif OP == OP_FINI
	{
		nni_lmq_fini(&q);
		CHECK((usz) nfreed == len, "fini frees every queued message once");
		usz j = ND(usz);
		if (len > 0) {
			ASSUME(j < len);
			CHECK(seq[j]->freed == 1, "fini: each queued message freed once");
		}
		if (len > 0)
			WITNESS("fini nonempty");
	}
#endif
	WITNESS("end");
}

/* C18: core/idhash.c behaves as a finite map and issues unique in-range ids.
 * The table is built by the REAL nni_id_set/nni_id_remove from a concrete
 * history (shape: -DHIST="S(1) S(9) R(1) ...", keys chosen to collide modulo
 * the table size so probe chains and skip counters are exercised); the final
 * operation takes a fully symbolic 64-bit key.
 *   OP_GET    get(K)            for all K: value of K if live, else NULL
 *   OP_SET    set(K,v); get(K2) finite-map update semantics, count
 *   OP_REMOVE remove(K) for K not live: ENOENT, map unchanged
 *             (removal of a live key is part of HIST, followed by OP_GET)
 *   OP_VISIT  visit enumerates exactly the live pairs
 *   OP_ALLOC  alloc in [LO,HI] with symbolic cursor: in range, not in use,
 *             ENOMEM iff the range is exhausted
 */
#include "vh.h"
#include "core/idhash.c"
extern u32 env_random_value;

#define MAXK 8
static u64   mk[MAXK]; /* reference map: keys */
static void *mv[MAXK]; /* values */
static int   mlive[MAXK];
static int   vals[16]; /* distinct addresses used as values */

static void
ref_set(u64 k, void *v)
{
	for (int i = 0; i < MAXK; i++)
		if (mlive[i] && mk[i] == k) {
			mv[i] = v;
			return;
		}
	for (int i = 0; i < MAXK; i++)
		if (!mlive[i]) {
			mlive[i] = 1;
			mk[i]    = k;
			mv[i]    = v;
			return;
		}
}
static void
ref_del(u64 k)
{
	for (int i = 0; i < MAXK; i++)
		if (mlive[i] && mk[i] == k)
			mlive[i] = 0;
}
static void *
ref_get(u64 k)
{
	for (int i = 0; i < MAXK; i++)
		if (mlive[i] && mk[i] == k)
			return mv[i];
	return NULL;
}
static int
ref_count(void)
{
	int n = 0;
	for (int i = 0; i < MAXK; i++)
		n += mlive[i];
	return n;
}

static nni_id_map m;
static int        nv;
/* representation invariant of the open-addressing table (what keeps probing finite and resizing timely):
 * id_count = number of occupied slots; id_load = sum over live keys of the length of their probe path;
 * skips[i] = number of live keys whose probe path passes over slot i; every live key is reachable from its
 * home slot; at least one slot is free
 * (load >= count and a set resizes first when load >= max_load, so count stays below the capacity) */
static void
check_inv(void)
{
	if (m.id_entries == NULL) {
		CHECK(m.id_count == 0 && m.id_load == 0, "Inv: empty map has no table and no load");
		return;
	}
	u32 cap = m.id_cap, cnt = 0, load = 0;
	CHECK(cap >= 8 && (cap & (cap - 1)) == 0 && cap <= 64, "Inv: capacity is a power of two");
	u32 passes[64] = { 0 };
	for (u32 i = 0; i < 64; i++) {
		if (i >= cap)
			break;
		if (m.id_entries[i].val == NULL)
			continue;
		cnt++;
		u32 p = (u32) ID_INDEX((&m), m.id_entries[i].key), steps = 1;
		for (u32 g = 0; g < 64; g++) {
			if (p == i)
				break;
			passes[p]++;
			steps++;
			p = (u32) ID_NEXT((&m), p);
		}
		CHECK(p == i, "Inv: every live key is reachable from its home slot");
		load += steps;
	}
	CHECK(m.id_count == cnt, "Inv: id_count equals the number of occupied slots");
	CHECK(m.id_load == load, "Inv: id_load equals the total probe length of the live keys");
	for (u32 i = 0; i < 64; i++) {
		if (i >= cap)
			break;
		CHECK(m.id_entries[i].skips == passes[i], "Inv: skip counter equals the number of probe paths crossing the slot");
	}
	CHECK(cnt < cap, "Inv: a free slot remains (probing terminates)");
}
#define S(k)                                                        \
	do {                                                        \
		int rv_ = nni_id_set(&m, (k), &vals[nv]);           \
		CHECK(rv_ == 0, "history: set succeeds");            \
		ref_set((k), &vals[nv]);                            \
		nv++;                                               \
		check_inv();                                        \
	} while (0);
#define R(k)                                                        \
	do {                                                        \
		int rv_ = nni_id_remove(&m, (k));                   \
		CHECK(rv_ == (ref_get(k) ? 0 : NNG_ENOENT), "history: remove result"); \
		ref_del(k);                                         \
		check_inv();                                        \
	} while (0);

#ifndef HIST
#define HIST S(1) S(9) S(17)
#endif
#ifndef LO
#define LO 0
#endif
#ifndef HI
#define HI 0
#endif
#define OP_GET 1
#define OP_SET 2
#define OP_REMOVE 3
#define OP_VISIT 4
#define OP_ALLOC 5

static void __attribute__((noinline))
stack_poison(void)
{
#if VH_NATIVE
	volatile unsigned char junk[512];
	for (unsigned i = 0; i < sizeof(junk); i++)
		junk[i] = 0xa5;
#endif
}
void
harness(void)
{
	nni_id_map_init(&m, LO, HI, false);
	HIST
	CHECK(nni_id_count(&m) == (u32) ref_count(), "count equals number of live keys");
#if OP == OP_GET
	{
		u64   K = ND(u64);
		void *g = nni_id_get(&m, K);
		CHECK(g == ref_get(K), "get(K) returns the value of K if live, NULL otherwise, for every 64-bit K");
		if (g != NULL)
			WITNESS("get hit");
		else
			WITNESS("get miss");
	}
#elif OP == OP_SET
	{
		u64 K = ND(u64), K2 = ND(u64);
		int was = ref_get(K) != NULL;
		int rv  = nni_id_set(&m, K, &vals[15]);
		CHECK(rv == 0, "set succeeds");
		CHECK(nni_id_count(&m) == (u32) ref_count() + (was ? 0 : 1), "set: count grows iff the key was new");
		check_inv();
		void *g = nni_id_get(&m, K2);
		CHECK(g == (K2 == K ? (void *) &vals[15] : ref_get(K2)), "set(K,v): get(K2) = v if K2==K else unchanged");
		if (was)
			WITNESS("set overwrites");
		else
			WITNESS("set inserts");
	}
#elif OP == OP_REMOVE
	{
		u64 K = ND(u64), K2 = ND(u64);
		ASSUME(ref_get(K) == NULL);
		int rv = nni_id_remove(&m, K);
		CHECK(rv == NNG_ENOENT, "remove of an absent key: ENOENT");
		CHECK(nni_id_count(&m) == (u32) ref_count(), "failed remove keeps the count");
		CHECK(nni_id_get(&m, K2) == ref_get(K2), "failed remove keeps the map");
		WITNESS("remove absent");
	}
#elif OP == OP_VISIT
	{
		u32   cursor = 0;
		u64   k;
		void *v;
		int   n = 0;
		int   seen[MAXK];
		for (int i = 0; i < MAXK; i++)
			seen[i] = 0;
		while (nni_id_visit(&m, &k, &v, &cursor)) {
			CHECK(ref_get(k) == v && v != NULL, "visit yields a live pair");
			for (int i = 0; i < MAXK; i++)
				if (mlive[i] && mk[i] == k) {
					CHECK(!seen[i], "visit yields each key once");
					seen[i] = 1;
				}
			n++;
		}
		CHECK(n == ref_count(), "visit enumerates every live pair");
		WITNESS("visit done");
	}
#elif OP == OP_ALLOC
	{
		u64 id = 0, dyn = ND(u64);
		/* cursor: 0 (first use) or anywhere in range */
		ASSUME(dyn == 0 || (dyn >= (LO ? LO : 1) && dyn <= (u64) (HI ? HI : 0xffffffffu)));
		m.id_dyn_val     = dyn;
		m.id_random      = ND(vbool);
		env_random_value = ND(u32);
		u64 lo = LO ? LO : 1, hi = HI ? HI : 0xffffffffu;
		int full = (u64) ref_count() > hi - lo;
#ifdef ALLOC32
		/* the 32-bit form every issue site of the library uses (sockets, contexts, pipes, dialers, listeners,
		 * request and survey ids); the out-parameter holds a sentinel to show what a refused call stores */
		u32 id32 = 0x5a5a5a5au;
		stack_poison(); /* native replay: a local the callee forgets to initialise then holds 0xa5.. instead of whatever was there */
		int rv   = nni_id_alloc32(&m, &id32, &vals[15]);
		id       = id32;
		if (full)
			CHECK(id32 == 0x5a5a5a5au || id32 == 0, "a refused nni_id_alloc32 stores no made-up identifier (unchanged or 0, the value that means 'none')");
#else
		int rv   = nni_id_alloc(&m, &id, &vals[15]);
#endif
		if (full) {
			CHECK(rv == NNG_ENOMEM, "alloc on an exhausted range: ENOMEM");
#if EXPECT_FULL
			WITNESS("alloc full");
#endif
		} else {
			CHECK(rv == 0, "alloc succeeds while ids remain");
			CHECK(id >= lo && id <= hi, "allocated id within [lo,hi]");
			CHECK(ref_get(id) == NULL, "allocated id was not in use");
			CHECK(nni_id_get(&m, id) == &vals[15], "allocated id maps to the value");
			CHECK(m.id_dyn_val >= lo && m.id_dyn_val <= hi, "cursor stays in range");
			CHECK(m.id_dyn_val == (id == hi ? lo : id + 1), "cursor advances past the issued id and wraps");
#if !EXPECT_FULL
			WITNESS("alloc ok");
#endif
		}
	}
#endif
	nni_id_map_fini(&m);
	WITNESS("end");
}

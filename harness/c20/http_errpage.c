/* C20: nng_http_server_set_error_page (real supplemental/http/http_server.c nni_http_server_set_error_page /
 * http_server_set_err) with the FAILK-th allocation of the call failing (0: the copy of the page, 1: the table entry).
 * A page for status 404 exists already (so its replacement needs no entry); the call sets CODE (404: replace, 500: new).
 * Decided: NNG_ENOMEM exactly when an allocation failed; every lock taken is released and only locks that are held
 * are released (the lock monitor of env_sync.c); a failed call leaves the table as it was and leaks nothing; a later
 * lookup of the page (nni_http_server_error's walk) is still possible, i.e. the table's lock is free. */
#include "vh.h"
#include "env_aio.h"
#include "env_printf.h"
#include "supplemental/http/http_server.c"
extern int env_locks_held, env_alloc_live, env_alloc_fail_at, env_alloc_count, env_alloc_failed;
#ifndef FAILK
#define FAILK 0
#endif
#ifndef CODE
#define CODE 500
#endif
static int
streq(const char *a, const char *b)
{
	if (a == NULL || b == NULL)
		return 0;
	for (int i = 0; i < 8; i++) {
		if (a[i] != b[i])
			return 0;
		if (a[i] == 0)
			return 1;
	}
	return 0;
}
#ifdef SCONN
/* C20: a connection arrives at the HTTP server (websocket listeners sit on it) and its HTTP state cannot be allocated
 * (http_sconn_init: nni_http_init fails).  The half-made connection object is closed and handed to the reaper before it
 * was attached to the server.  Decided: NNG_ENOMEM, the stream is released exactly once, the reaper's http_sc_reap runs
 * without touching a server that was never recorded, nothing leaks. */
extern int   env_reap_pending(void);
extern void *env_reap_take(int);
static int   streams_freed, conn_finis;
static struct nng_stream the_stream;
nng_err
nni_http_init(nng_http **connp, nng_stream *stream, bool client)
{
	(void) connp, (void) client;
	(void) stream;
	streams_freed++; /* core: nni_http_init frees the stream when it fails */
	return NNG_ENOMEM;
}
void
nni_http_conn_fini(nng_http *c)
{
	(void) c;
	conn_finis++;
}
void
harness(void)
{
	http_sconn *sc = NULL;
	nng_err     rv = http_sconn_init(&sc, &the_stream);
	CHECK(rv == NNG_ENOMEM && sc == NULL, "the accept path is told that the connection could not be set up");
	CHECK(streams_freed == 1, "the stream is released exactly once");
	CHECK(env_reap_pending() == 1, "the half-made connection object is handed to the reaper");
	http_sc_reap(env_reap_take(0));
	CHECK(env_alloc_live == 0, "C20: nothing is left allocated");
	CHECK(env_locks_held == 0 && conn_finis == 0, "no lock held, no HTTP state finalized that never existed");
	WITNESS("half-made connection reaped");
	WITNESS("end");
}
#else
void
harness(void)
{
	static nni_http_server srv;
	http_error            *e;
	nni_mtx_init(&srv.mtx);
	nni_mtx_init(&srv.errors_mtx);
	NNI_LIST_INIT(&srv.errors, http_error, node);
	CHECK(nni_http_server_set_error_page(&srv, 404, "old") == NNG_OK, "first page set");
	int live0         = env_alloc_live;
	env_alloc_fail_at = env_alloc_count + FAILK;
	nng_err rv        = nni_http_server_set_error_page(&srv, CODE, "new");
	CHECK(rv == NNG_OK || rv == NNG_ENOMEM, "set_error_page succeeds or reports NNG_ENOMEM");
	CHECK((rv == NNG_ENOMEM) == (env_alloc_failed != 0), "NNG_ENOMEM exactly when one of the call's allocations failed");
	CHECK(env_locks_held == 0, "C20: every lock the call took has been released (a failed call must not leave the error-page table locked)");
	int n = 0, old404 = 0, new_code = 0;
	nni_mtx_lock(&srv.errors_mtx); /* what nni_http_server_error does for every error reply */
	NNI_LIST_FOREACH (&srv.errors, e) {
		n++;
		old404 += e->code == 404 && streq(e->body, "old");
		new_code += e->code == CODE && streq(e->body, "new");
	}
	nni_mtx_unlock(&srv.errors_mtx);
	if (rv != NNG_OK) {
		CHECK(n == 1 && old404 == 1, "C20: a failed call leaves the configured pages as they were");
		CHECK(env_alloc_live == live0, "C20: and leaks nothing");
		WITNESS("failed cleanly");
	} else {
		CHECK(new_code == 1 && n == (CODE == 404 ? 1 : 2), "the page is stored under its status code (replacing an older one)");
		WITNESS("set");
	}
	while ((e = nni_list_first(&srv.errors)) != NULL) {
		nni_list_remove(&srv.errors, e);
		nni_strfree(e->body);
		NNI_FREE_STRUCT(e);
	}
	CHECK(env_alloc_live == 0, "all memory returned");
	WITNESS("end");
}
#endif

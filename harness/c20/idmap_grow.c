/* C20: the id map after a failed grow.  The real core/idhash.c: five keys fill the 8-slot table to its grow
 * threshold; the next nni_id_set needs the 16-slot table and that allocation fails -> NNG_ENOMEM and the map is
 * unchanged.  Memory comes back; the application carries on: every later set must either succeed or fail cleanly and
 * terminate (a table left with thresholds that no longer match its size fills up completely and the probe loop of the
 * next insert never ends), and the map must still behave as a finite map: get(K) for a symbolic K. */
#include "vh.h"
#include "core/idhash.c"
extern int env_alloc_fail_at, env_alloc_count, env_alloc_failed;
extern u32 env_random_value;
static nni_id_map m;
static int        vals[16];
void
harness(void)
{
	nni_id_map_init(&m, 0, 0, false);
	for (int k = 0; k < 5; k++)
		CHECK(nni_id_set(&m, 9 + k, &vals[k]) == 0, "filling to the threshold succeeds");
	env_alloc_fail_at = env_alloc_count; /* the next allocation (the 16-slot table) fails */
	int rv = nni_id_set(&m, 30, &vals[5]);
	CHECK(env_alloc_failed, "harness: the grow was attempted");
	CHECK(rv == NNG_ENOMEM, "a set that cannot grow the table reports NNG_ENOMEM");
	CHECK(nni_id_get(&m, 30) == NULL && nni_id_count(&m) == 5, "and leaves the map unchanged");
	env_alloc_fail_at = -1;
	/* memory is available again */
	/* keys whose home slots are still free (residues 0, 6, 7 of the 8-slot table), then two more: a table whose
	 * thresholds were already advanced would take the first three without growing and be completely full */
	static const u64 later[5] = { 16, 22, 23, 40, 41 };
	int ok = 5;
	for (int k = 0; k < 5; k++) {
		/* an insert into a completely full open-addressing table probes forever: that is the hang */
		CHECK(m.id_count < m.id_cap, "the table always keeps a free slot, so the probe loop of the next insert terminates (no hang after an earlier NNG_ENOMEM)");
		ASSUME(m.id_count < m.id_cap);
		int r = nni_id_set(&m, later[k], &vals[6 + k]);
		CHECK(r == 0, "once memory is back, sets succeed again (the map is not left in a state where later calls misbehave)");
		if (r == 0)
			ok++;
	}
	CHECK(nni_id_count(&m) == (u32) ok, "count follows the successful sets");
	CHECK(m.id_cap > ok, "the table has grown: an open-addressing table never fills completely (its probe loops would not terminate)");
	u64 K = ND(u64);
	void *v = nni_id_get(&m, K);
	if (K >= 9 && K < 14)
		CHECK(v == &vals[K - 9], "earlier entries are still there");
	else if (K == 16 || K == 22 || K == 23 || K == 40 || K == 41)
		CHECK(v == &vals[6 + (K == 16 ? 0 : K == 22 ? 1 : K == 23 ? 2 : K == 40 ? 3 : 4)], "later entries are there");
	else
		CHECK(v == NULL, "no other key is present");
	nni_id_map_fini(&m);
	WITNESS("end");
}

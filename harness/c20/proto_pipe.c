/* C20: a protocol's per-connection state cannot be set up because an allocation fails.
 * Real xrep.c / xrespond.c / xsurvey.c / rep.c / respond.c / pair1_poly.c (-DPROTO=0..5), real core/msgqueue.c.
 *
 * What the core does with a new connection (core/pipe.c pipe_create, core/socket.c *_start_pipe, pipe_reap, pipe_destroy):
 *     rv = pipe_init(p);   if rv != 0: nni_pipe_close -> reaper: pipe_close(p), pipe_stop(p), [last reference] pipe_fini(p)
 *     rv = pipe_start(p);  if rv != 0: the same
 * i.e. after a FAILED pipe_init the protocol's pipe_close / pipe_stop / pipe_fini still run on the object.  The harness
 * replays exactly that order.  The failing allocation is the FAILK-th allocator request (KIND 0: pipe_init's message queue)
 * or the insertion into the socket's pipe table (KIND 1: pipe_start), counted from the moment the second connection
 * arrives; connection 0 was set up before and must keep working.
 *
 * Decided: the failing call reports NNG_ENOMEM; no NULL dereference, no use of released state, no double release, no lock
 * held; the refused connection carries no traffic; connection 0 still receives; close + fini return everything. */
#include "proto_kit.h"
#ifndef PROTO
#define PROTO 0
#endif
#if PROTO == 0
#include "sp/protocol/reqrep0/xrep.c"
#define X(n) xrep0_##n
#define PEER REP0_PEER
#define RAW 1
#elif PROTO == 1
#include "sp/protocol/survey0/xrespond.c"
#define X(n) xresp0_##n
#define PEER NNI_PROTO_SURVEYOR_V0
#define RAW 1
#elif PROTO == 2
#include "sp/protocol/survey0/xsurvey.c"
#define X(n) xsurv0_##n
#define PEER SURVEYOR0_PEER
#define RAW 1
#elif PROTO == 3
#include "sp/protocol/reqrep0/rep.c"
#define X(n) rep0_##n
#define PEER REP0_PEER
#define RAW 0
#elif PROTO == 4
#include "sp/protocol/survey0/respond.c"
#define X(n) resp0_##n
#define PEER NNI_PROTO_SURVEYOR_V0
#define RAW 0
#else
#include "sp/protocol/pair1/pair1_poly.c"
#define X(n) pair1poly_##n
#define PEER PAIR1_PEER
#define RAW 1
#endif
#ifndef KIND
#define KIND 0
#endif
#ifndef FAILK
#define FAILK 0
#endif

static nni_msgq *g_uwq, *g_urq;
nni_msgq *
nni_sock_sendq(nni_sock *s)
{
	(void) s;
	return g_uwq;
}
nni_msgq *
nni_sock_recvq(nni_sock *s)
{
	(void) s;
	return g_urq;
}
static X(sock) sock;
static X(pipe) pd[MAXP];

/* what the reaper does with a pipe (pipe_reap, then pipe_destroy when the last reference goes) */
static void
reap(int p)
{
	X(pipe_close)(&pd[p]);
	kquiesce();
	X(pipe_stop)(&pd[p]);
	X(pipe_fini)(&pd[p]);
	kpipe_up[p] = 0;
}

void
harness(void)
{
	SCHECK(nni_msgq_init(&g_uwq, 0) == 0 && nni_msgq_init(&g_urq, 1) == 0, "socket queues");
	X(sock_init)(&sock, NULL);
	X(sock_open)(&sock);
	/* connection 0: set up without a fault */
	env_pipe_init(&kpipe[0], 100, PEER);
	SCHECK(X(pipe_init)(&pd[0], &kpipe[0], &sock) == 0, "pipe_init of the first connection");
	kpipe_up[0] = 1;
	SCHECK(X(pipe_start)(&pd[0]) == 0, "pipe_start of the first connection");
	kquiesce();
	SCHECK(kpipe[0].recv_aio != NULL, "the first connection is receiving");

	/* connection 1 arrives while memory is short */
	int live0 = env_alloc_live;
#if KIND == 0
	env_alloc_fail_at = env_alloc_count + FAILK;
#else
	env_idmap_fail_at = env_idmap_inserts + FAILK;
#endif
	env_pipe_init(&kpipe[1], 101, PEER);
	{
		static const __typeof__(pd[0]) pd_zero;
		pd[1] = pd_zero; /* the core hands the protocol zeroed memory (nni_zalloc of the pipe) */
	}
	int rv = X(pipe_init)(&pd[1], &kpipe[1], &sock);
	kpipe_up[1] = 1;
	if (rv != 0) {
		SCHECK(rv == NNG_ENOMEM && VH_FAULT_FIRED, "C20: pipe_init fails only with NNG_ENOMEM and only when an allocation failed");
		reap(1);
		SCHECK(env_alloc_live == live0, "C20: a connection whose set-up failed leaves no memory behind");
		WITNESS("pipe_init failed, pipe reaped");
	} else {
#if KIND == 0
		SCHECK(!env_alloc_failed, "C20: a failed allocation in pipe_init is reported");
#endif
		rv = X(pipe_start)(&pd[1]);
		if (rv != 0) {
			SCHECK(rv == NNG_ENOMEM && VH_FAULT_FIRED, "C20: pipe_start fails only with NNG_ENOMEM and only when an allocation failed");
			SCHECK(kpipe[1].recv_aio == NULL && kpipe[1].send_aio == NULL, "C20: a connection that could not be started carries no traffic");
			reap(1);
			SCHECK(env_alloc_live == live0, "C20: a connection whose start failed leaves no memory behind");
			WITNESS("pipe_start failed, pipe reaped");
		} else {
			SCHECK(!VH_FAULT_FIRED, "C20: a failed allocation during connection set-up is reported");
			WITNESS("started");
		}
	}
	kquiesce();
	/* only the affected connection is lost */
	SCHECK(kpipe[0].recv_aio != NULL && !kpipe[0].closed, "C20: the other connection is still up and receiving");
	SCHECK(env_locks_held == 0, "no lock held");
	/* close everything */
	for (int p = 0; p < MAXP; p++)
		if (kpipe_up[p])
			X(pipe_close)(&pd[p]);
	X(sock_close)(&sock);
	nni_msgq_close(g_uwq);
	nni_msgq_close(g_urq);
	kquiesce();
	for (int p = 0; p < MAXP; p++)
		if (kpipe_up[p]) {
			X(pipe_stop)(&pd[p]);
			X(pipe_fini)(&pd[p]);
			kpipe_up[p] = 0;
		}
	kquiesce();
	X(sock_fini)(&sock);
	nni_msgq_fini(g_uwq);
	nni_msgq_fini(g_urq);
	SCHECK(env_msg_live == 0, "C03: every message released");
	SCHECK(env_alloc_live == 0, "C03/C20: after close and fini all memory is returned with matching sizes");
	WITNESS("end");
}

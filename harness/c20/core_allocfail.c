/* C20: a single failed allocation (the k-th, k SYMBOLIC) during a call into
 * the real code yields NNG_ENOMEM (or the documented best-effort loss), never
 * a NULL dereference, a leak or a broken object.
 * MODE  1 nng_url_parse (short / long URL, -DLONG)   2 nng_url_clone (long)
 *       3 nni_msg_alloc   4 nni_msg_dup   5 nni_msg_append (grow)   6 nni_msg_insert (grow)
 *       7 nni_lmq_resize  8 nni_id_set (first insert and growth)     9 http chunk accepted
 */
#include "vh.h"
#include "env_printf.h"
extern int env_alloc_fail_at, env_alloc_failed, env_alloc_live, env_alloc_count;
#if MODE <= 2
#include "core/url.c"
#elif MODE <= 6
#include "core/message.c"
#elif MODE == 7
struct nng_msg {
	int x;
};
#include "core/lmq.c"
void
nni_msg_free(nng_msg *m)
{
	(void) m;
}
#elif MODE == 8
#include "core/idhash.c"
uint32_t
nni_random(void)
{
	return 0;
}
#elif MODE == 9
#include "supplemental/http/http_chunk.c"
#endif

#define LONGURL                                                                                                    \
	"http://user@host.example.com:8080/aaaaaaaaaaaaaaaaaaaaaaaaaaaaaaaaaaaaaaaaaaaaaaaaaaaaaaaaaaaaaaaaaaaaaaaaaaaaaa" \
	"aaaaaaaaaaaaaaaaaaaaaaaaaaaaaaaaaaaaaaaaaaaaaaaaaa/file?query=1#frag"
#define SHORTURL "http://host.example.com:8080/p?q#f"

static void
arm(int maxallocs)
{
#ifdef FAILK
	int k = FAILK; /* concrete per query where the failing allocation changes the heap shape */
	(void) maxallocs;
#else
	int k = ND(vint);
	ASSUME(k >= 0 && k < maxallocs);
#endif
	env_alloc_fail_at = env_alloc_count + k;
}

void
harness(void)
{
	int live0 = env_alloc_live;
#if MODE == 1
	{
		nng_url *u = NULL;
		arm(2);
#ifdef LONG
		nng_err rv = nng_url_parse(&u, LONGURL);
#else
		nng_err rv = nng_url_parse(&u, SHORTURL);
#endif
		if (env_alloc_failed) {
			CHECK(rv == NNG_ENOMEM, "a failed allocation in nng_url_parse reports NNG_ENOMEM");
			CHECK(u == NULL && env_alloc_live == live0, "nothing is leaked");
			WITNESS("failure injected");
		} else {
			CHECK(rv == NNG_OK, "parse succeeds without faults");
			nng_url_free(u);
		}
	}
#elif MODE == 2
	{
		nng_url *u = NULL, *c = NULL;
		CHECK(nng_url_parse(&u, LONGURL) == NNG_OK, "source parses");
		int live1 = env_alloc_live;
		arm(2);
		nng_err rv = nng_url_clone(&c, u);
		if (env_alloc_failed) {
			CHECK(rv == NNG_ENOMEM, "a failed allocation in nng_url_clone reports NNG_ENOMEM");
			CHECK(env_alloc_live == live1, "nothing is leaked");
			WITNESS("failure injected");
		} else {
			CHECK(rv == NNG_OK, "clone succeeds without faults");
			nng_url_free(c);
		}
		nng_url_free(u);
	}
#elif MODE == 3
	{
		nni_msg *m = NULL;
		arm(2);
		int rv = nni_msg_alloc(&m, 10);
		if (env_alloc_failed) {
			CHECK(rv == NNG_ENOMEM && env_alloc_live == live0, "failed nni_msg_alloc: ENOMEM, nothing leaked");
			WITNESS("failure injected");
		} else {
			CHECK(rv == 0, "alloc ok");
			nni_msg_free(m);
		}
	}
#elif MODE == 4
	{
		nni_msg *m = NULL, *d = NULL;
		CHECK(nni_msg_alloc(&m, 10) == 0, "alloc");
		int live1 = env_alloc_live;
		arm(2);
		int rv = nni_msg_dup(&d, m);
		if (env_alloc_failed) {
			CHECK(rv == NNG_ENOMEM && env_alloc_live == live1, "failed nni_msg_dup: ENOMEM, nothing leaked");
			CHECK(nni_msg_len(m) == 10, "the original is untouched");
			WITNESS("failure injected");
		} else {
			nni_msg_free(d);
		}
		nni_msg_free(m);
	}
#elif MODE == 5 || MODE == 6
	{
		nni_msg *m = NULL;
		u8       data[80];
		CHECK(nni_msg_alloc(&m, 10) == 0, "alloc");
		for (int i = 0; i < 10; i++)
			((u8 *) nni_msg_body(m))[i] = (u8) i;
		ND_BYTES(data, 80);
		int live1 = env_alloc_live;
		arm(1);
#if MODE == 5
		int rv = nni_msg_append(m, data, 80);
#else
		int rv = nni_msg_insert(m, data, 80);
#endif
		if (env_alloc_failed) {
			CHECK(rv == NNG_ENOMEM && env_alloc_live == live1, "failed growth: ENOMEM, nothing leaked");
			CHECK(nni_msg_len(m) == 10 && ((u8 *) nni_msg_body(m))[9] == 9, "the message is unchanged after a failed growth");
			WITNESS("failure injected");
		} else {
			CHECK(rv == 0 && nni_msg_len(m) == 90, "growth ok");
		}
		nni_msg_free(m);
	}
#elif MODE == 7
	{
		nni_lmq         q;
		static nng_msg  a, b;
		nng_msg        *o = NULL;
		nni_lmq_init(&q, 2);
		nni_lmq_put(&q, &a);
		nni_lmq_put(&q, &b);
		arm(1);
		int rv = nni_lmq_resize(&q, 8);
		if (env_alloc_failed) {
			CHECK(rv == NNG_ENOMEM, "failed nni_lmq_resize reports ENOMEM");
			CHECK(nni_lmq_len(&q) == 2 && nni_lmq_cap(&q) == 2, "the queue keeps its messages and depth");
			CHECK(nni_lmq_get(&q, &o) == 0 && o == &a, "and its order");
			WITNESS("failure injected");
		}
		nni_lmq_flush(&q);
		nni_lmq_fini(&q);
	}
#elif MODE == 8
	{
		nni_id_map m;
		static int v[8];
		nni_id_map_init(&m, 0, 0, false);
		int n0 = N0; /* entries present before the faulted insert (concrete: decides the table layout) */
		for (int i = 0; i < 6; i++)
			if (i < n0)
				CHECK(nni_id_set(&m, (u64) (i + 1), &v[i]) == 0, "insert");
		arm(1);
		int rv = nni_id_set(&m, 77, &v[7]);
		if (env_alloc_failed) {
			CHECK(rv == NNG_ENOMEM, "failed table growth reports ENOMEM");
			CHECK(nni_id_get(&m, 77) == NULL && (int) nni_id_count(&m) == n0, "the failed insert left no trace");
			for (int i = 0; i < 6; i++)
				if (i < n0)
					CHECK(nni_id_get(&m, (u64) (i + 1)) == &v[i], "existing entries survive a failed growth");
			WITNESS("failure injected");
		} else {
			CHECK(rv == 0 && nni_id_get(&m, 77) == &v[7], "insert ok");
		}
		nni_id_map_fini(&m);
	}
#elif MODE == 9
	{
		nni_http_chunks *cl = NULL;
		char             in[] = "3\r\nabc\r\n0\r\n\r\n";
		size_t           used = 0;
		CHECK(nni_http_chunks_init(&cl, 0) == 0, "init");
		int live1 = env_alloc_live;
		arm(2);
		nng_err rv = nni_http_chunks_parse(cl, in, sizeof(in) - 1, &used);
		if (env_alloc_failed) {
			CHECK(rv == NNG_ENOMEM, "a failed chunk allocation reports ENOMEM");
			CHECK(env_alloc_live == live1, "nothing is leaked by the failed chunk");
			WITNESS("failure injected");
		} else {
			CHECK(rv == NNG_OK, "body decoded");
		}
		nni_http_chunks_free(cl);
	}
#endif
	CHECK(env_alloc_live == live0, "all memory is returned afterwards");
	WITNESS("end");
}

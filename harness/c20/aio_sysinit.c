/* C20: nni_aio_sys_init (real core/aio.c) with the FAILK-th allocation failing:
 * reports NNG_ENOMEM, dereferences nothing NULL, leaks nothing. */
#include "vh.h"
#include "core/aio.c"
extern int env_alloc_fail_at, env_alloc_failed, env_alloc_live, env_alloc_count;
nni_time
nni_clock(void)
{
	return 1;
}
uint32_t
nni_random(void)
{
	return 0;
}
int
nni_thr_init(nni_thr *t, nni_thr_func f, void *a)
{
	(void) t;
	(void) f;
	(void) a;
	return 0;
}
void
nni_thr_run(nni_thr *t)
{
	(void) t;
}
void
nni_thr_fini(nni_thr *t)
{
	(void) t;
}
void
nni_thr_set_name(nni_thr *t, const char *n)
{
	(void) t;
	(void) n;
}
void
nni_reap(nni_reap_list *l, void *i)
{
	(void) l;
	(void) i;
}
void
nni_task_init(nni_task *t, nni_taskq *q, nni_cb cb, void *arg)
{
	(void) t;
	(void) q;
	(void) cb;
	(void) arg;
}
void
nni_task_fini(nni_task *t)
{
	(void) t;
}
void
nni_task_prep(nni_task *t)
{
	(void) t;
}
void
nni_task_dispatch(nni_task *t)
{
	(void) t;
}
void
nni_task_exec(nni_task *t)
{
	(void) t;
}
bool
nni_task_busy(nni_task *t)
{
	(void) t;
	return false;
}
void
nni_task_wait(nni_task *t)
{
	(void) t;
}
void
harness(void)
{
	nng_init_params prm;
	memset(&prm, 0, sizeof(prm));
	prm.num_expire_threads = 2;
	int live0           = env_alloc_live;
	env_alloc_fail_at   = env_alloc_count + FAILK;
	nng_err rv          = nni_aio_sys_init(&prm);
	if (env_alloc_failed) {
		CHECK(rv == NNG_ENOMEM, "a failed allocation in nni_aio_sys_init reports NNG_ENOMEM");
		CHECK(env_alloc_live == live0, "nothing is leaked");
		WITNESS("failure injected");
	} else {
		CHECK(rv == NNG_OK, "init succeeds without faults");
		nni_aio_sys_fini();
		CHECK(env_alloc_live == live0, "fini returns everything");
	}
	WITNESS("end");
}

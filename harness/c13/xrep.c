/* C13 / C11 lemmas on the raw reply side: real reqrep0/xrep.c (default) or
 * survey0/xrespond.c (-DXRESP), with the real core/msgqueue.c behind them.
 *  L1 (MODE 1): a message with NH hop words (+ a terminating id word if TERM)
 *     and 2 body bytes arrives, MAXTTL = TTL.  If the terminator is among the
 *     first TTL words: delivered upward with header = arrival pipe id || the
 *     words up to and including the terminator, body = the rest, unchanged.
 *     More than TTL words before the terminator: dropped (not delivered, pipe
 *     kept, receive re-armed).  Body ends first: sender disconnected.  The
 *     header never exceeds 64 bytes and the append panic guard is unreachable.
 *  L2 (MODE 2): a message with header = W0 || rest (NR further words) is sent
 *     by the application: W0 is popped; if it names a connected pipe the rest
 *     goes to exactly that pipe with header = rest and the same body, else the
 *     message is discarded (freed once).
 * shape: NH, TERM, TTL / NR, DEST (0: W0 = pipe 0, 1: pipe 1, 2: other id).
 * symbolic: the 3 low bytes of every backtrace word, body bytes, the foreign id.
 */
#include "proto_kit.h"
#ifdef XRESP
#include "sp/protocol/survey0/xrespond.c"
#define X(n) xresp0_##n
#define PEER NNI_PROTO_SURVEYOR_V0
#define RECV_CB xresp0_recv_cb
#else
#include "sp/protocol/reqrep0/xrep.c"
#define X(n) xrep0_##n
#define PEER REP0_PEER
#define RECV_CB xrep0_pipe_recv_cb
#endif
static nni_msgq *g_uwq, *g_urq;
nni_msgq *
nni_sock_sendq(nni_sock *s)
{
	(void) s;
	return g_uwq;
}
nni_msgq *
nni_sock_recvq(nni_sock *s)
{
	(void) s;
	return g_urq;
}
static X(sock) sock;
static X(pipe) pd[MAXP];
#ifndef NH
#define NH 1
#endif
#ifndef TERM
#define TERM 1
#endif
#ifndef TTL
#define TTL 8
#endif
#ifndef NR
#define NR 1
#endif
#ifndef DEST
#define DEST 0
#endif

static void
attach(int p)
{
	env_pipe_init(&kpipe[p], 100 + p, PEER);
	CHECK(X(pipe_init)(&pd[p], &kpipe[p], &sock) == 0, "pipe_init");
	kpipe_up[p] = 1;
	CHECK(X(pipe_start)(&pd[p]) == 0, "pipe_start");
	kquiesce();
}

void
harness(void)
{
	CHECK(nni_msgq_init(&g_uwq, 0) == 0 && nni_msgq_init(&g_urq, 1) == 0, "socket queues");
	X(sock_init)(&sock, NULL);
	X(sock_open)(&sock);
	int ttl = TTL;
	CHECK(X(sock_set_maxttl)(&sock, &ttl, sizeof(ttl), NNI_TYPE_INT32) == 0, "MAXTTL accepts 1..15");
	attach(0);
	attach(1);
#if MODE == 1
	{
		nni_msg *m;
		size_t   words = NH + (TERM ? 1 : 0);
		size_t   n     = words * 4 + 2;
		u8       copy[4 * 18 + 2];
		nni_msg_alloc(&m, n);
		u8 *b = nni_msg_body(m);
		for (size_t k = 0; k < n; k++)
			b[k] = ND(u8);
		for (size_t w = 0; w < NH; w++)
			b[4 * w] = 0x01; /* request bit clear (concrete: it decides the shape) */
#if TERM
		b[4 * NH] = 0x81;
#endif
		for (size_t k = 0; k < n; k++)
			copy[k] = b[k];
		int live0 = env_msg_live;
		env_pipe_recv_done(&kpipe[0], m, 0);
		kquiesce();
		int in_reach = TERM && (NH + 1 <= TTL);
		int truncated = !in_reach && (words < TTL + 0 + 1) && !TERM && (NH < TTL + 1 ? 1 : 0);
		/* words the loop may look at: TTL.  If the terminator is not among them and the
		 * body still had >= 4 bytes for each looked-at word: too many hops (drop).
		 * If the body ran out before TTL words were seen without a terminator: malformed. */
		int looked = TTL;
		int ran_out = !in_reach && (words < (size_t) looked + 0) ? 1 : 0;
		/* ran_out: fewer than TTL full words and none terminates; but the trailing 2 body bytes are < 4 */
		if (in_reach) {
			nni_aio ua;
			nni_aio_init(&ua, NULL, NULL);
			nni_aio_set_timeout(&ua, NNG_DURATION_ZERO);
			env_aio_submit(&ua);
			nni_msgq_aio_get(g_urq, &ua);
			CHECK(env_aio_completed(&ua) == 1 && nni_aio_result(&ua) == 0, "a well-formed request with its terminator within MAXTTL hops is delivered upward");
			nni_msg *r = nni_aio_get_msg(&ua);
			CHECK(nni_msg_header_len(r) == 4 * (NH + 2), "header = arrival pipe id + hop words + terminator");
			CHECK(nni_msg_header_len(r) <= 64, "header never exceeds its 64-byte capacity");
			CHECK(nni_msg_header_peek_u32(r) == kpipe[0].id, "the arrival pipe id is pushed in front of the backtrace");
			size_t j = ND(usz);
			ASSUME(j < 4 * (NH + 1));
			CHECK(((u8 *) nni_msg_header(r))[4 + j] == copy[j], "the backtrace words are copied unchanged and in order");
			CHECK(nni_msg_len(r) == 2 && ((u8 *) nni_msg_body(r))[0] == copy[4 * (NH + 1)] && ((u8 *) nni_msg_body(r))[1] == copy[4 * (NH + 1) + 1],
			    "the body is exactly what followed the backtrace");
			CHECK(!kpipe[0].closed, "a well-formed request keeps the connection");
			WITNESS("delivered");
			nni_msg_free(r);
		} else if (ran_out) {
			CHECK(kpipe[0].closed, "a backtrace that ends before a terminator disconnects its sender");
			CHECK(env_msg_live == live0 - 1, "malformed message freed once");
			WITNESS("malformed disconnects");
		} else {
			CHECK(!kpipe[0].closed && kpipe[0].recv_aio != NULL, "more hops than MAXTTL: dropped, sender kept, receive re-armed");
			CHECK(env_msg_live == live0 - 1, "over-limit message freed once");
			nni_aio ua;
			nni_aio_init(&ua, NULL, NULL);
			nni_aio_set_timeout(&ua, NNG_DURATION_ZERO);
			env_aio_submit(&ua);
			nni_msgq_aio_get(g_urq, &ua);
			CHECK(nni_aio_result(&ua) != 0, "an over-limit message is never delivered or forwarded");
			WITNESS("too many hops dropped");
		}
		(void) truncated;
	}
#else
	{
		nni_msg *m = kmsg(2);
		u8       b0 = ((u8 *) nni_msg_body(m))[0], b1 = ((u8 *) nni_msg_body(m))[1];
		u32      w0;
		u8       rest[4 * 15];
#if DEST == 2
		w0 = 0x7f000001u; /* an id that names no connected pipe (concrete: a symbolic key makes the looked-up pipe pointer symbolic; C18 covers all keys) */
#else
		w0 = kpipe[DEST].id;
#endif
		nni_msg_header_append_u32(m, w0);
		for (int k = 0; k < 4 * NR; k++) {
			rest[k] = ND(u8);
		}
		CHECK(nni_msg_header_append(m, rest, 4 * NR) == 0, "test header fits");
		int live0 = env_msg_live;
		nni_aio ua;
		nni_aio_init(&ua, NULL, NULL);
		nni_aio_set_msg(&ua, m);
		env_aio_submit(&ua);
		nni_msgq_aio_put(g_uwq, &ua);
		kquiesce();
		CHECK(env_aio_completed(&ua) == 1 && nni_aio_result(&ua) == 0, "raw send is taken from the socket queue");
#if DEST == 2
		CHECK(kpipe[0].wire_msg == NULL && kpipe[1].wire_msg == NULL, "a reply that names no connected pipe is sent nowhere");
		CHECK(env_msg_live == live0 - 1, "and is discarded (freed once)");
		WITNESS("unroutable discarded");
#else
		nni_msg *w = kpipe[DEST].wire_msg;
		CHECK(w != NULL && kpipe[1 - DEST].wire_msg == NULL, "the reply goes to exactly the pipe named by the first header word");
		CHECK(nni_msg_header_len(w) == 4 * NR, "exactly one word is popped from the backtrace");
		size_t j = ND(usz);
#if NR > 0
		ASSUME(j < 4 * NR);
		CHECK(((u8 *) nni_msg_header(w))[j] == rest[j], "the remaining backtrace is forwarded unchanged");
#endif
		CHECK(nni_msg_len(w) == 2 && ((u8 *) nni_msg_body(w))[0] == b0 && ((u8 *) nni_msg_body(w))[1] == b1, "the body is forwarded unchanged");
		WITNESS("routed");
#endif
		(void) live0;
	}
#endif
	CHECK(env_locks_held == 0, "no lock held");
	WITNESS("end");
}

/* C13 L3 / C04 / C07 / C11 on the raw request side: real reqrep0/xreq.c (default)
 * or survey0/xsurvey.c (-DXSURV) with the real core/msgqueue.c behind them.
 *  MODE 1 (receive): a reply/response whose body starts with NH hop words
 *     (high bit clear) followed by a terminating id word (high bit set, if
 *     TERM) and 2 payload bytes arrives on pipe 0.  With a terminator the
 *     message goes up with header = those NH+1 words unchanged and in order,
 *     body = the 2 payload bytes; the sender is kept and the receive re-armed
 *     once the message has been taken.  Without a terminator (the body runs
 *     out) the sender is disconnected and nothing is delivered.  A backtrace
 *     longer than the 64-byte header capacity disconnects the sender, never
 *     overflows the header.
 *  MODE 2 (send): the application (a device forwarding a request) sends a
 *     message with a header of NR words and a 2-byte body: xreq hands it to
 *     exactly one connected pipe, xsurvey to every connected pipe once; what
 *     goes on the wire has the same header and body (nothing added, removed or
 *     reordered).  With FAILTX the transport send fails: the message is freed
 *     once and that pipe is closed.
 *  MODE 3: a pipe whose peer speaks another protocol is refused by pipe_start.
 * shape: NH, TERM / NR, FAILTX.  symbolic: the 3 low bytes of every word, payload.
 */
#include "proto_kit.h"
#ifdef XSURV
#include "sp/protocol/survey0/xsurvey.c"
#define X(n) xsurv0_##n
#define PEER SURVEYOR0_PEER
#define RECV_CB xsurv0_recv_cb
#else
#include "sp/protocol/reqrep0/xreq.c"
#define X(n) xreq0_##n
#define PEER REQ0_PEER
#define RECV_CB xreq0_recv_cb
#endif
/* xreq.c calls the public wrapper; src/nng.c defines it as exactly this forwarding call */
int
nng_msg_header_append(nng_msg *m, const void *data, size_t sz)
{
	return (nni_msg_header_append(m, data, sz));
}
static nni_msgq *g_uwq, *g_urq;
nni_msgq *
nni_sock_sendq(nni_sock *s)
{
	(void) s;
	return g_uwq;
}
nni_msgq *
nni_sock_recvq(nni_sock *s)
{
	(void) s;
	return g_urq;
}
static X(sock) sock;
static X(pipe) pd[MAXP];
#ifndef NH
#define NH 1
#endif
#ifndef TERM
#define TERM 1
#endif
#ifndef NR
#define NR 1
#endif

static void
attach(int p, uint16_t peer)
{
	env_pipe_init(&kpipe[p], 100 + p, peer);
	CHECK(X(pipe_init)(&pd[p], &kpipe[p], &sock) == 0, "pipe_init");
	kpipe_up[p] = 1;
}

void
harness(void)
{
	CHECK(nni_msgq_init(&g_uwq, 0) == 0 && nni_msgq_init(&g_urq, 0) == 0, "socket queues");
	X(sock_init)(&sock, NULL);
	X(sock_open)(&sock);
#if MODE == 3
	attach(0, 0x77);
	CHECK(X(pipe_start)(&pd[0]) == NNG_EPROTO, "a peer that speaks another protocol is refused");
	CHECK(kpipe[0].recv_aio == NULL && kpipe[0].send_aio == NULL, "a refused pipe has nothing started on it");
	WITNESS("refused");
	WITNESS("end");
	return;
#endif
	attach(0, PEER);
	CHECK(X(pipe_start)(&pd[0]) == 0, "pipe_start accepts the matching peer");
	kquiesce();
	attach(1, PEER);
	CHECK(X(pipe_start)(&pd[1]) == 0, "pipe_start accepts the matching peer");
	kquiesce();
	CHECK(kpipe[0].recv_aio != NULL && kpipe[1].recv_aio != NULL, "a started pipe is receiving");
#if MODE == 1
	{
		nni_msg *m;
		size_t   words = NH + (TERM ? 1 : 0);
		size_t   n     = words * 4 + 2;
		u8       copy[4 * 18 + 2];
		nni_msg_alloc(&m, n);
		u8 *b = nni_msg_body(m);
		for (size_t k = 0; k < n; k++)
			b[k] = ND(u8);
		for (size_t w = 0; w < NH; w++)
			b[4 * w] = 0x01; /* hop word: high bit clear (first byte concrete: it decides the shape) */
#if TERM
		b[4 * NH] = 0x81;
#else
		/* the trailing 2 payload bytes are fewer than a word: the scan runs out */
#endif
		for (size_t k = 0; k < n; k++)
			copy[k] = b[k];
		int live0 = env_msg_live;
		env_pipe_recv_done(&kpipe[0], m, 0);
		kquiesce();
		int fits = TERM && (4 * (NH + 1) <= 64);
		if (fits) {
			nni_aio ua;
			nni_aio_init(&ua, NULL, NULL);
			nni_aio_set_timeout(&ua, NNG_DURATION_ZERO);
			env_aio_submit(&ua);
			nni_msgq_aio_get(g_urq, &ua);
			kquiesce();
			CHECK(env_aio_completed(&ua) == 1 && nni_aio_result(&ua) == 0, "a well-formed reply is delivered upward");
			nni_msg *r = nni_aio_get_msg(&ua);
			CHECK(nni_msg_header_len(r) == 4 * (NH + 1), "header = the hop words and the terminating id, nothing else");
			CHECK(nni_msg_header_len(r) <= 64, "header never exceeds its 64-byte capacity");
			size_t j = ND(usz);
			ASSUME(j < 4 * (NH + 1));
			CHECK(((u8 *) nni_msg_header(r))[j] == copy[j], "the backtrace words are moved to the header unchanged and in order");
			CHECK(nni_msg_len(r) == 2 && ((u8 *) nni_msg_body(r))[0] == copy[4 * (NH + 1)] && ((u8 *) nni_msg_body(r))[1] == copy[4 * (NH + 1) + 1],
			    "the body is exactly what followed the backtrace");
			CHECK(nni_msg_get_pipe(r) == kpipe[0].id, "the message is tagged with the pipe it arrived on");
			CHECK(!kpipe[0].closed, "a well-formed reply keeps the connection");
			CHECK(kpipe[0].recv_aio != NULL, "the receive is re-armed once the message was taken");
			CHECK(env_msg_live == live0, "the delivered message is the one that arrived (no copy leaked)");
			WITNESS("delivered");
			nni_msg_free(r);
		} else {
			CHECK(kpipe[0].closed, "a backtrace without terminator, or longer than the header can hold, disconnects its sender");
			CHECK(env_msg_live == live0 - 1, "the malformed message is freed once");
			nni_aio ua;
			nni_aio_init(&ua, NULL, NULL);
			nni_aio_set_timeout(&ua, NNG_DURATION_ZERO);
			env_aio_submit(&ua);
			nni_msgq_aio_get(g_urq, &ua);
			kquiesce();
			CHECK(env_aio_completed(&ua) == 1 && nni_aio_result(&ua) != 0, "a malformed reply is never delivered");
			CHECK(!kpipe[1].closed && kpipe[1].recv_aio != NULL, "the other connection is not affected");
			WITNESS("malformed disconnects");
		}
	}
#elif MODE == 2
	{
		nni_msg *m  = kmsg(2);
		u8       b0 = ((u8 *) nni_msg_body(m))[0], b1 = ((u8 *) nni_msg_body(m))[1];
		u8       hdr[64];
		for (int k = 0; k < 4 * NR; k++)
			hdr[k] = ND(u8);
#if NR > 0
		CHECK(nni_msg_header_append(m, hdr, 4 * NR) == 0, "test header fits");
#endif
		int     live0 = env_msg_live;
		nni_aio ua;
		nni_aio_init(&ua, NULL, NULL);
		nni_aio_set_msg(&ua, m);
		nni_aio_set_timeout(&ua, NNG_DURATION_ZERO);
		env_aio_submit(&ua);
		X(sock_send)(&sock, &ua);
		kquiesce();
		CHECK(env_aio_completed(&ua) == 1 && nni_aio_result(&ua) == 0, "a raw send is accepted at once while a pipe is waiting for work");
		int nsent = 0;
		for (int p = 0; p < 2; p++) {
			nni_msg *w = kpipe[p].wire_msg;
			if (w == NULL)
				continue;
			nsent++;
			CHECK(nni_msg_header_len(w) == 4 * NR, "the header goes on the wire with the same length");
			size_t j = ND(usz);
#if NR > 0
			ASSUME(j < 4 * NR);
			CHECK(((u8 *) nni_msg_header(w))[j] == hdr[j], "the backtrace is forwarded unchanged");
#endif
			CHECK(nni_msg_len(w) == 2 && ((u8 *) nni_msg_body(w))[0] == b0 && ((u8 *) nni_msg_body(w))[1] == b1, "the body is forwarded unchanged");
			(void) j;
		}
#ifdef XSURV
		CHECK(nsent == 2, "a survey is offered to every connected respondent once");
		CHECK(env_msg_live == live0, "no copy is leaked: the clones share the one message");
#else
		CHECK(nsent == 1, "a request goes to exactly one connected replier");
		CHECK(env_msg_live == live0, "the message on the wire is the message that was sent");
#endif
		WITNESS("forwarded");
#ifdef FAILTX
		int which = kpipe[0].wire_msg != NULL ? 0 : 1;
		env_pipe_send_done(&kpipe[which], NNG_ECONNRESET);
		kquiesce();
		CHECK(kpipe[which].closed, "a failed transport send closes that pipe");
#ifdef XSURV
		CHECK(env_msg_live == live0, "the other respondent's clone is still in flight");
		CHECK(kpipe[1 - which].wire_msg != NULL && !kpipe[1 - which].closed, "the other respondent is not affected");
		env_pipe_send_done(&kpipe[1 - which], 0);
		kquiesce();
		CHECK(env_msg_live == live0 - 1, "after both transmissions ended the message is released exactly once");
#else
		CHECK(env_msg_live == live0 - 1, "the message of the failed send is freed once");
		CHECK(!kpipe[1 - which].closed, "the other connection is not affected");
#endif
		WITNESS("send failed");
#else
		for (int p = 0; p < 2; p++)
			if (kpipe[p].wire_msg != NULL) {
				env_pipe_send_done(&kpipe[p], 0);
				kquiesce();
				CHECK(!kpipe[p].closed, "a completed send keeps the connection");
			}
		CHECK(env_msg_live == live0 - 1, "after transmission the message is released exactly once");
		WITNESS("sent");
#endif
	}
#endif
	/* teardown: close, stop, fini leave nothing pending and nothing allocated by the pipes */
	for (int p = 0; p < 2; p++) {
		X(pipe_close)(&pd[p]);
	}
	X(sock_close)(&sock);
	kquiesce();
	for (int p = 0; p < 2; p++) {
		X(pipe_stop)(&pd[p]);
		X(pipe_fini)(&pd[p]);
		CHECK(kpipe[p].send_aio == NULL && kpipe[p].recv_aio == NULL, "pipe teardown cancels its transport operations");
	}
	X(sock_fini)(&sock);
	CHECK(env_locks_held == 0, "no lock held");
	WITNESS("end");
}

/* C13 L4 / C09 / C02: nng_device's forwarder, the real core/device.c
 * (nni_device, device_init, device_start, device_cb, device_cancel,
 * device_close, device_fini) over two stub raw sockets.
 *
 * shape: KIND  0  two bidirectional sockets (e.g. xreq/xrep, pair, bus): 2 paths
 *              1  one-way (pull -> push): 1 path
 *              2  reflector (s2 == NULL): 1 path, src == dst
 *        SKEL  word over
 *              R(i,ok)  the receive of path i completes: ok=1 with a message of
 *                       4 symbolic header bytes + 2 symbolic body bytes, ok=0
 *                       with NNG_ECLOSED
 *              T(i,ok)  the send of path i completes (ok=1: socket took the
 *                       message; ok=0: NNG_ECONNRESET, message stays on the aio)
 *              X        the application cancels the device aio
 *              Q(i)     the receive of path i fails while the receive of the other path has
 *                       completed successfully but its callback has not run yet
 * checked after every event:
 *   - a received message is handed to the *other* socket's send as the same
 *     message object with header and body unchanged, never to its source;
 *   - per path exactly one of {receive outstanding on src, send outstanding on
 *     dst} while it runs (recv -> send -> recv ...), nothing once finished;
 *   - a failure on one path aborts the others; the user aio completes exactly
 *     once, only when every path has finished, with the first error;
 *   - every message is sent or freed exactly once (no leak, no double free);
 *   - the sockets are released exactly once when the device ends.
 */
#include "proto_kit.h"

struct nni_socket {
	uint16_t proto, peer;
	uint32_t flags;
	bool     raw;
	nni_aio *recv_aio, *send_aio;
	nni_msg *send_msg;
	int      holds, closes;
};
static struct nni_socket sa, sb;

uint16_t
nni_sock_proto_id(nni_sock *s)
{
	return s->proto;
}
uint16_t
nni_sock_peer_id(nni_sock *s)
{
	return s->peer;
}
bool
nni_sock_raw(nni_sock *s)
{
	return s->raw;
}
uint32_t
nni_sock_flags(nni_sock *s)
{
	return s->flags;
}
static nng_err hold_rv;
nng_err
nni_sock_device_hold(nni_sock *s1, nni_sock *s2)
{
	if (hold_rv != 0)
		return hold_rv;
	s1->holds++;
	if (s2 != s1)
		s2->holds++;
	return 0;
}
void
nni_sock_close_device(nni_sock *s)
{
	s->closes++;
}
static void
sock_recv_cancel(nni_aio *aio, void *arg, nng_err rv)
{
	nni_sock *s = arg;
	if (s->recv_aio == aio) {
		s->recv_aio = NULL;
		nni_aio_finish_error(aio, rv);
	}
}
static void
sock_send_cancel(nni_aio *aio, void *arg, nng_err rv)
{
	nni_sock *s = arg;
	if (s->send_aio == aio) {
		s->send_aio = NULL;
		s->send_msg = NULL;
		nni_aio_finish_error(aio, rv);
	}
}
void
nni_sock_recv(nni_sock *s, nni_aio *aio)
{
	nni_aio_reset(aio);
	if (!nni_aio_start(aio, sock_recv_cancel, s))
		return;
	CHECK(s->recv_aio == NULL, "device issues one receive at a time per socket");
	s->recv_aio = aio;
}
void
nni_sock_send(nni_sock *s, nni_aio *aio)
{
	nni_aio_reset(aio);
	CHECK(nni_aio_get_msg(aio) != NULL, "device sends only with a message attached");
	if (!nni_aio_start(aio, sock_send_cancel, s))
		return;
	CHECK(s->send_aio == NULL, "device issues one send at a time per socket");
	s->send_aio = aio;
	s->send_msg = nni_aio_get_msg(aio);
}

/* device_data lives in a typed static object instead of a calloc'ed block: CBMC has no
 * field sensitivity on dynamic objects, and the embedded aios make every access a
 * whole-object update (measured: > 8 min per query; with the typed object: seconds).
 * One device is created per run; allocation accounting and fault injection are kept. */
extern int env_alloc_fail_at, env_alloc_count, env_alloc_failed;
#undef NNI_ALLOC_STRUCT
#undef NNI_FREE_STRUCT
struct device_data_s;
extern struct device_data_s dev_pool_obj;
static int dev_pool_take(void);
#define NNI_ALLOC_STRUCT(s) (dev_pool_take() ? &dev_pool_obj : NULL)
#define NNI_FREE_STRUCT(s) \
	do {               \
		if ((s) != NULL)  \
			env_alloc_live--; \
	} while (0)
#include "core/device.c"
struct device_data_s dev_pool_obj;
static int
dev_pool_take(void)
{
	static const device_data zero;
	if (env_alloc_count++ == env_alloc_fail_at) {
		env_alloc_failed = 1;
		return 0;
	}
	dev_pool_obj = zero;
	env_alloc_live++;
	return 1;
}

#ifndef KIND
#define KIND 0
#endif
#if KIND == 0
#define NPATH 2
#else
#define NPATH 1
#endif

static device_data *dev;
static nni_aio      user;
static nni_sock    *src_of[2], *dst_of[2];
static nni_msg     *inflight[2]; /* message received on path i and not yet sent/freed */
static u8           copy_h[2][4], copy_b[2][2];
static int          finished_paths;
static nng_err      first_err;
static int          have_err;
static int          user_cancelled;
static int          user_seen;
static nng_err      user_res;

static void
monitor(void)
{
	kquiesce();
	CHECK(env_aio_completed(&user) <= 1, "the device aio completes at most once");
	int fin = 0;
	for (int i = 0; i < NPATH; i++) {
		device_path *p = &dev->paths[i];
		int r = src_of[i]->recv_aio == &p->aio;
		int s = dst_of[i]->send_aio == &p->aio;
		if (p->state == NNI_DEVICE_STATE_FINI) {
			fin++;
			CHECK(!r && !s, "a finished path has no operation outstanding");
			CHECK(nni_aio_get_msg(&p->aio) == NULL, "a finished path holds no message");
		} else {
			CHECK(r + s == 1, "a running path has exactly one operation outstanding: receive on its source or send on its destination");
			CHECK((p->state == NNI_DEVICE_STATE_RECV) == r, "path state mirrors the outstanding operation");
			if (s) {
				CHECK(dst_of[i]->send_msg == inflight[i], "the message being sent is the message that was received (same object)");
			}
		}
	}
	if (env_aio_completed(&user) == 1) {
		if (!user_seen) {
			/* latched at completion: a later cancel of the idle aio may overwrite a_result */
			user_seen = 1;
			user_res  = nni_aio_result(&user);
		}
		CHECK(fin == NPATH, "the device aio completes only when every path has finished");
		CHECK(user_res != 0, "a device ends only with an error (cancel, close)");
		if (have_err) {
			CHECK(user_res == first_err, "the device reports the first error");
		}
		CHECK(sa.closes == sa.holds && sb.closes == sb.holds, "the sockets are released exactly once when the device ends");
	} else {
		CHECK(fin < NPATH, "when every path has finished the device aio has completed");
		CHECK(sa.closes == 0 && sb.closes == 0, "the sockets stay held while the device runs");
	}
	int live = 0;
	for (int i = 0; i < NPATH; i++)
		if (inflight[i] != NULL)
			live++;
	CHECK(env_msg_live == live, "every received message is either in flight on its path or has been released exactly once");
}

static void
ev_rx(int i, int ok)
{
	KNEED(i < NPATH && src_of[i]->recv_aio == &dev->paths[i].aio);
	if (kstop)
		return;
	nni_sock *s   = src_of[i];
	nni_aio  *aio = s->recv_aio;
	s->recv_aio   = NULL;
	if (ok) {
		nni_msg *m = kmsg(2);
		for (int k = 0; k < 4; k++)
			copy_h[i][k] = ND(u8);
		nni_msg_header_append(m, copy_h[i], 4);
		copy_b[i][0] = ((u8 *) nni_msg_body(m))[0];
		copy_b[i][1] = ((u8 *) nni_msg_body(m))[1];
		inflight[i]  = m;
		nni_aio_finish_msg(aio, m);
		kquiesce();
		if (have_err || user_cancelled) {
			/* the device is shutting down: the message must be released, not forwarded */
			CHECK(dst_of[i]->send_aio != &dev->paths[i].aio, "a message received while the device shuts down is not forwarded");
			inflight[i] = NULL;
		} else {
			CHECK(dst_of[i]->send_aio == &dev->paths[i].aio, "a received message is handed to the destination socket");
			CHECK(dst_of[i]->send_msg == m, "the forwarded message is the received message object");
			CHECK(nni_msg_header_len(m) == 4 && nni_msg_len(m) == 2, "forwarding changes neither header nor body length");
			u8 *h = nni_msg_header(m), *b = nni_msg_body(m);
			CHECK(h[0] == copy_h[i][0] && h[1] == copy_h[i][1] && h[2] == copy_h[i][2] && h[3] == copy_h[i][3], "header bytes forwarded unchanged");
			CHECK(b[0] == copy_b[i][0] && b[1] == copy_b[i][1], "body bytes forwarded unchanged");
#if KIND != 2
			CHECK(src_of[i]->send_aio != &dev->paths[i].aio, "a message is never sent back to the socket it came from");
#endif
			WITNESS("forwarded");
		}
	} else {
		/* concrete code (R1: a symbolic result makes device_cb's success and failure branches
		 * both live and the heap shape symbolic - measured: no verdict in 8 min); distinct per
		 * source so that "reports the first error" stays discriminating */
		nng_err e = NNG_ECLOSED;
		if (!have_err && !user_cancelled) {
			have_err  = 1;
			first_err = e;
		}
		nni_aio_finish_error(aio, e);
		kquiesce();
		/* the failure aborts the other path: a send pending there gets its message back and the device frees it */
		for (int k = 0; k < NPATH; k++)
			inflight[k] = NULL;
		WITNESS("receive failed");
	}
	monitor();
}

static void
ev_tx(int i, int ok)
{
	KNEED(i < NPATH && dst_of[i]->send_aio == &dev->paths[i].aio);
	if (kstop)
		return;
	nni_sock *s   = dst_of[i];
	nni_aio  *aio = s->send_aio;
	nni_msg  *m   = s->send_msg;
	s->send_aio   = NULL;
	s->send_msg   = NULL;
	CHECK(m == inflight[i], "what is sent is what was received");
	u8 *h = nni_msg_header(m), *b = nni_msg_body(m);
	CHECK(nni_msg_header_len(m) == 4 && h[0] == copy_h[i][0] && h[3] == copy_h[i][3] && nni_msg_len(m) == 2 && b[0] == copy_b[i][0] && b[1] == copy_b[i][1],
	    "message unchanged while it waits to be sent");
	if (ok) {
		/* the socket took the message */
		nni_aio_set_msg(aio, NULL);
		nni_msg_free(m);
		inflight[i] = NULL;
		nni_aio_finish(aio, 0, 2);
		kquiesce();
		if (!have_err && !user_cancelled) {
			CHECK(src_of[i]->recv_aio == &dev->paths[i].aio, "after a completed send the path receives again");
			WITNESS("send done, receiving again");
		}
	} else {
		nng_err e = NNG_ECONNRESET;
		if (!have_err && !user_cancelled) {
			have_err  = 1;
			first_err = e;
		}
		nni_aio_finish_error(aio, e);
		kquiesce();
		/* failed send: the message stayed on the aio; the device must free it (and the one of the aborted other path) */
		for (int k = 0; k < NPATH; k++)
			inflight[k] = NULL;
		WITNESS("send failed");
	}
	monitor();
}

/* Q(i): the receive of path i fails at the moment the receive of the other path has already completed
 * successfully (its completion callback has not run yet).  The failing path's callback runs first and
 * aborts the other path, whose operation is already finished: its result stands (a finished operation
 * is not cancelled), so its callback finds a successfully received message on a device that is shutting
 * down - the message must be released, not forwarded, not leaked. */
static void
ev_rx_race(int i)
{
	KNEED(NPATH == 2 && i < NPATH && src_of[i]->recv_aio == &dev->paths[i].aio && src_of[1 - i]->recv_aio == &dev->paths[1 - i].aio);
	if (kstop)
		return;
	int       o  = 1 - i;
	nni_aio  *ai = src_of[i]->recv_aio, *ao = src_of[o]->recv_aio;
	nni_msg  *m  = kmsg(2);
	src_of[i]->recv_aio = NULL;
	src_of[o]->recv_aio = NULL;
	if (!have_err && !user_cancelled) {
		have_err  = 1;
		first_err = NNG_ECLOSED;
	}
	nni_aio_finish_error(ai, NNG_ECLOSED); /* queued first: its callback runs first */
	nni_aio_finish_msg(ao, m);
	kquiesce();
	CHECK(dst_of[o]->send_aio != &dev->paths[o].aio, "a message received while the device shuts down is not forwarded");
	for (int k = 0; k < NPATH; k++)
		inflight[k] = NULL;
	WITNESS("receive completed while the other path failed");
	monitor();
}

static void
ev_cancel(void)
{
	KNEED(!user_cancelled);
	if (kstop)
		return;
	int done_before = env_aio_completed(&user);
	if (!have_err && !done_before) {
		have_err  = 1;
		first_err = NNG_ECANCELED;
	}
	user_cancelled = 1;
	nni_aio_abort(&user, NNG_ECANCELED);
	kquiesce();
	/* cancel aborts every outstanding operation: sends give their message back to the device, which frees it */
	for (int i = 0; i < NPATH; i++)
		inflight[i] = NULL;
	if (!done_before) {
		CHECK(env_aio_completed(&user) == 1, "cancelling the device aio ends the device: every path stops and the aio completes");
		WITNESS("cancelled");
	}
	monitor();
}

#define R(i, ok) if (!kstop) ev_rx(i, ok);
#define T(i, ok) if (!kstop) ev_tx(i, ok);
#define X if (!kstop) ev_cancel();
#define Q(i) if (!kstop) ev_rx_race(i);
#ifndef SKEL
#define SKEL R(0, 1) T(0, 1) X
#endif

void
harness(void)
{
	static const struct nni_socket z;
	sa = z;
	sb = z;
	sa.raw = sb.raw = true;
#if KIND == 0
	sa.proto = 0x31; sa.peer = 0x30; sa.flags = NNI_PROTO_FLAG_SNDRCV;
	sb.proto = 0x30; sb.peer = 0x31; sb.flags = NNI_PROTO_FLAG_SNDRCV;
#elif KIND == 1
	/* given in the "wrong" order: device_init must swap so that the receiver is the source */
	sa.proto = 0x50; sa.peer = 0x51; sa.flags = NNI_PROTO_FLAG_SND;
	sb.proto = 0x51; sb.peer = 0x50; sb.flags = NNI_PROTO_FLAG_RCV;
#else
	sa.proto = 0x10; sa.peer = 0x10; sa.flags = NNI_PROTO_FLAG_SNDRCV;
#endif
	nni_aio_init(&user, NULL, NULL);
	nni_aio_set_timeout(&user, NNG_DURATION_INFINITE);
	env_aio_submit(&user);
#ifdef FAILDEV
	/* C20: the device object cannot be allocated */
	env_alloc_fail_at = env_alloc_count;
	nni_device(&user, &sa, &sb);
	kquiesce();
	CHECK(env_alloc_failed, "harness: the allocation was attempted");
	CHECK(env_aio_completed(&user) == 1 && nni_aio_result(&user) == NNG_ENOMEM, "a device that cannot be allocated fails its aio with NNG_ENOMEM");
	CHECK(sa.recv_aio == NULL && sb.recv_aio == NULL && sa.holds == 0 && sb.holds == 0 && env_alloc_live == 0, "nothing is started, held or leaked");
	CHECK(env_locks_held == 0, "no lock held");
	WITNESS("allocation failure");
	WITNESS("end");
	return;
#endif
#ifdef BADPAIR
	/* mismatched protocols / cooked socket: refused with EINVAL, nothing started */
#if BADPAIR == 1
	sb.peer = 0x77;
#elif BADPAIR == 2
	sb.raw = false;
#elif BADPAIR == 3
	sa.raw = false;
#elif BADPAIR == 4
	sa.peer = 0x77;
#endif
	nni_device(&user, &sa, &sb);
	kquiesce();
	CHECK(env_aio_completed(&user) == 1 && nni_aio_result(&user) == NNG_EINVAL, "a device over sockets that are not raw peers of each other is refused with EINVAL");
	CHECK(sa.recv_aio == NULL && sb.recv_aio == NULL && sa.holds == 0 && sb.holds == 0, "a refused device starts nothing");
	CHECK(env_locks_held == 0, "no lock held");
	WITNESS("refused");
	WITNESS("end");
	return;
#endif
#if KIND == 2
	nni_device(&user, &sa, NULL);
#else
	nni_device(&user, &sa, &sb);
#endif
	kquiesce();
	CHECK(env_aio_completed(&user) == 0, "a started device keeps its aio pending");
	/* find the device object through the cancel argument */
	CHECK(user.a_cancel_arg == (void *) &dev_pool_obj, "the device aio is cancellable");
	dev = &dev_pool_obj;
	CHECK(dev->num_paths == NPATH, "one forwarder per receiving direction");
#if KIND == 0
	src_of[0] = &sa; dst_of[0] = &sb;
	src_of[1] = &sb; dst_of[1] = &sa;
	CHECK(dev->paths[0].src == &sa && dev->paths[0].dst == &sb && dev->paths[1].src == &sb && dev->paths[1].dst == &sa, "the two paths cross the two sockets");
#elif KIND == 1
	src_of[0] = &sb; dst_of[0] = &sa;
	CHECK(dev->paths[0].src == &sb && dev->paths[0].dst == &sa, "the receiving socket is the source of a one-way device");
#else
	src_of[0] = &sa; dst_of[0] = &sa;
	CHECK(dev->paths[0].src == &sa && dev->paths[0].dst == &sa, "a reflector receives from and sends to the same socket");
#endif
	monitor();
	SKEL
	if (!kstop)
		WITNESS("skeleton ran to its end");
#ifdef MUSTEND
	/* a curated skeleton whose every event is applicable on the library as it should be: an event that finds nothing to act
	 * on (e.g. no transfer outstanding because a message vanished) is a failure, not the end of the skeleton */
	CHECK(!kstop, "every event of the skeleton found the library in the state the previous events must have left it in");
#endif
	if (env_aio_completed(&user) == 1) {
		CHECK(env_reap_pending() == 1, "the finished device is handed to the reaper exactly once");
		CHECK(env_reap_take(0) == (void *) dev, "what is reaped is the device object");
#ifdef FINI
		device_fini(dev);
		CHECK(env_alloc_live == 0, "the device object is freed after it ends");
#endif
		WITNESS("device ended and reaped");
	}
	WITNESS("end");
}

/* C15: the NNG_FLAG_NONBLOCK front end of the real src/nng.c: nng_sendmsg, nng_recvmsg, nng_ctx_sendmsg, nng_ctx_recvmsg,
 * nng_send, nng_recv over a stub socket / context whose protocol follows the contract the protocol harnesses check
 * ("complete at once when possible, otherwise nni_aio_start"): READY says whether the socket can take / supply a message
 * at that moment, RES is the result of an operation the protocol completes at once (0 or ANY error code).
 *   API   0 sendmsg  1 recvmsg  2 ctx_sendmsg  3 ctx_recvmsg  4 send  5 recv        FLAGS: any int (symbolic)
 * checked, for every flags value:
 *   - with NNG_FLAG_NONBLOCK the call never waits (nni_aio_wait is never reached with the operation pending) and returns
 *     NNG_EAGAIN iff the socket could not take / supply a message; if it could, it returns the protocol's result -
 *     in particular 0, never NNG_EAGAIN;  without the flag a time-out stays NNG_ETIMEDOUT;
 *   - a failed send leaves the message with the caller (nng_sendmsg: untouched; nng_send: its private copy freed once),
 *     a successful one hands it over; a receive returns a message iff it returns 0;
 *   - the socket / context reference taken for the call is released exactly once; an unknown id fails before anything
 *     is started. */
#include "env_aio.h"
#include "env_msg.h"
#include "nng.c" /* /repo/src/nng.c (-I /repo/src) */
extern int env_locks_held, env_msg_live;

#ifndef API
#define API 0
#endif
#ifndef READY
#define READY 1
#endif
struct nni_socket {
	int dummy;
};
struct nni_ctx {
	int dummy;
};
static struct nni_socket SK;
static struct nni_ctx    CX;
static int               finds, reles, sends, recvs, pended;
static nng_err           res_now;
static nni_msg          *rxmsg;
int
nni_sock_find(nni_sock **sp, uint32_t id)
{
	if (id != 7)
		return (NNG_ECLOSED);
	finds++;
	*sp = &SK;
	return (0);
}
void
nni_sock_rele(nni_sock *s)
{
	(void) s;
	reles++;
}
int
nni_ctx_find(nni_ctx **cp, uint32_t id)
{
	if (id != 7)
		return (NNG_ECLOSED);
	finds++;
	*cp = &CX;
	return (0);
}
void
nni_ctx_rele(nni_ctx *c)
{
	(void) c;
	reles++;
}
static void
op_cancel(nni_aio *aio, void *arg, nng_err rv)
{
	(void) arg;
	nni_aio_finish_error(aio, rv);
}
/* the protocol behind the socket: completes at once when it can, otherwise starts the aio (which fails a zero timeout) */
static void
proto_op(nni_aio *aio, int is_send)
{
	nni_aio_reset(aio);
	if (READY) {
		if (res_now == 0) {
			if (is_send) {
				nni_msg *m = nni_aio_get_msg(aio);
				nni_aio_set_msg(aio, NULL);
				nni_msg_free(m);
				nni_aio_finish(aio, 0, 2);
			} else {
				nni_aio_finish_msg(aio, rxmsg);
			}
		} else {
			nni_aio_finish_error(aio, res_now);
		}
		return;
	}
	if (!nni_aio_start(aio, op_cancel, NULL))
		return;
	/* a blocking call now waits; the harness only makes non-blocking calls in the not-ready case */
	pended++;
}
void
nni_sock_send(nni_sock *s, nni_aio *aio)
{
	(void) s;
	env_aio_submit(aio);
	sends++;
	proto_op(aio, 1);
}
void
nni_sock_recv(nni_sock *s, nni_aio *aio)
{
	(void) s;
	env_aio_submit(aio);
	recvs++;
	proto_op(aio, 0);
}
void
nni_ctx_send(nni_ctx *c, nni_aio *aio)
{
	(void) c;
	env_aio_submit(aio);
	sends++;
	proto_op(aio, 1);
}
void
nni_ctx_recv(nni_ctx *c, nni_aio *aio)
{
	(void) c;
	env_aio_submit(aio);
	recvs++;
	proto_op(aio, 0);
}

void
harness(void)
{
	int       flags = ND(vint);
	u32       id    = ND(u32);
	nng_socket s;
	nng_ctx    c;
	s.id = id;
	c.id = id;
	int nb = (flags & NNG_FLAG_NONBLOCK) == NNG_FLAG_NONBLOCK;
#if !READY
	ASSUME(nb); /* a blocking call on a socket that is not ready waits for another thread: not a sequential scenario */
#endif
	res_now = (nng_err) ND(vint);
	ASSUME(res_now >= 0 && res_now < 40);
	int      rv;
	int      live0;
	nni_msg *m = NULL, *got = NULL;
	u8       buf[2] = { 1, 2 };
	size_t   sz     = 2;
#if API == 0 || API == 2
	nni_msg_alloc(&m, 2);
	live0 = env_msg_live;
	rv    = (API == 0) ? nng_sendmsg(s, m, flags) : nng_ctx_sendmsg(c, m, flags);
#elif API == 1 || API == 3
	nni_msg_alloc(&rxmsg, 2);
	live0 = env_msg_live;
	rv    = (API == 1) ? nng_recvmsg(s, &got, flags) : nng_ctx_recvmsg(c, &got, flags);
#elif API == 4
	live0 = env_msg_live;
	rv    = nng_send(s, buf, 2, flags);
#else
	nni_msg_alloc(&rxmsg, 2);
	live0 = env_msg_live;
	rv    = nng_recv(s, buf, &sz, flags);
#endif
	CHECK(pended == 0 || nb, "harness: only non-blocking calls meet a socket that is not ready");
	CHECK(env_locks_held == 0, "no lock held");
	if (id != 7) {
		CHECK(rv == NNG_ECLOSED && sends + recvs == 0 && reles == 0, "an invalid handle fails the call before anything is started");
		WITNESS("bad handle");
	} else {
		CHECK(finds == 1 && reles == 1, "the reference taken for the call is released exactly once");
		CHECK(sends + recvs == 1, "exactly one operation is issued");
#if !READY
		CHECK(rv == NNG_EAGAIN, "a non-blocking call on a socket that cannot take / supply a message now fails at once with NNG_EAGAIN");
		WITNESS("would block");
#else
		if (res_now == NNG_ETIMEDOUT && nb)
			CHECK(rv == NNG_EAGAIN, "a non-blocking call reports a zero-length time-out as NNG_EAGAIN");
		else
			CHECK(rv == (int) res_now, "when the socket can serve the call its result is reported unchanged (success is never turned into NNG_EAGAIN, a blocking time-out stays NNG_ETIMEDOUT)");
		if (rv == 0)
			WITNESS("served");
#endif
#if API == 0 || API == 2
		if (rv == 0)
			CHECK(env_msg_live == live0 - 1, "a successful send consumes the message");
		else
			CHECK(env_msg_live == live0 && m->refcnt == 1, "a failed send leaves the message, untouched, with the caller");
#elif API == 1 || API == 3
		CHECK((rv == 0) == (got != NULL), "a receive returns a message iff it succeeds");
		if (rv == 0)
			CHECK(got == rxmsg && env_msg_live == live0, "and it is the message the protocol supplied, now owned by the caller");
#elif API == 4
		CHECK(env_msg_live == live0, "nng_send: the private copy is consumed by a successful send and freed once after a failed one");
#else
		if (rv == 0)
			CHECK(env_msg_live == live0 - 1 && sz == 2, "nng_recv copies the body out, reports its size and frees the message");
#endif
	}
	WITNESS("end");
}

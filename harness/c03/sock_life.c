/* C03: every block goes back to the allocator with the size it was allocated with - socket objects.
 * The real core/socket.c nni_sock_create + sock_destroy (what nng_*_open / nng_close + reaping do to the socket
 * structure itself) with a protocol whose private data has PSIZE bytes, on top of the real core/msgqueue.c; the
 * allocator model checks each nni_free against the size of the block it was given (sized-free accounting) and counts
 * live blocks.  Also the error path: the second message queue cannot be allocated (FAILQ). */
#include "env_aio.h"
extern int env_locks_held, env_alloc_live, env_alloc_fail_at, env_alloc_count, env_alloc_failed;
#ifndef PSIZE
#define PSIZE 24
#endif
/* The socket block itself is served from a typed static object (CBMC has no field sensitivity on malloc'ed objects and
 * the socket structure is large: no verdict in 300 s otherwise) with the same accounting as env_alloc.c: the size
 * requested is remembered and nni_free must be given exactly that size.  All other blocks (message queues) go
 * through env_alloc.c. */
static size_t h_sock_req;
static int    h_sock_live, h_sock_frees;
static void  *h_sock_zalloc(size_t sz);
static void   h_sock_free(void *p, size_t sz);
#define nni_zalloc(sz) h_sock_zalloc(sz)
#define nni_free(p, sz) h_sock_free((p), (sz))
#include "core/socket.c"
#undef nni_zalloc
#undef nni_free
static struct {
	nni_sock s;
	char     pdata[PSIZE + 8];
} h_sock_store;
static void *
h_sock_zalloc(size_t sz)
{
	static const nni_sock z;
	if (env_alloc_count++ == env_alloc_fail_at) {
		env_alloc_failed = 1;
		return NULL;
	}
	CHECK(!h_sock_live, "harness: one socket at a time");
	CHECK(sz <= sizeof(h_sock_store), "harness: socket storage large enough");
	h_sock_store.s = z;
	h_sock_req     = sz;
	h_sock_live    = 1;
	env_alloc_live++;
	return &h_sock_store;
}
static void
h_sock_free(void *p, size_t sz)
{
	if (p == NULL)
		return;
	CHECK(p == (void *) &h_sock_store && h_sock_live, "nni_free of a block not obtained from the allocator (or freed twice)");
	CHECK(sz == h_sock_req, "nni_free size differs from allocation size");
	h_sock_live = 0;
	h_sock_frees++;
	env_alloc_live--;
}
static int inits, finis, opens, closes;
static void
ps_init(void *d, nni_sock *s)
{
	(void) d;
	(void) s;
	inits++;
}
static void
ps_fini(void *d)
{
	(void) d;
	/* every protocol's sock_fini walks state its sock_init set up (mutexes, lists, the embedded context's back pointer) */
	CHECK(inits == 1, "C20: the protocol's sock_fini never runs on protocol state that sock_init has not initialised");
	finis++;
}
static void
ps_open(void *d)
{
	(void) d;
	opens++;
}
static void
ps_close(void *d)
{
	(void) d;
	closes++;
}
static nni_option         no_opts[] = { { .o_name = NULL } };
static nni_proto_sock_ops sops      = { .sock_size = PSIZE, .sock_init = ps_init, .sock_fini = ps_fini, .sock_open = ps_open, .sock_close = ps_close, .sock_options = no_opts };
static nni_proto_pipe_ops pops;
static nni_proto          proto = { .proto_self = { 0x10, "a" }, .proto_peer = { 0x10, "a" }, .proto_flags = NNI_PROTO_FLAG_SNDRCV,
	         .proto_sock_ops = &sops, .proto_pipe_ops = &pops };
void
harness(void)
{
	nni_sock *s    = NULL;
	int       live0 = env_alloc_live;
#ifdef FAILQ
	env_alloc_fail_at = env_alloc_count + FAILQ; /* 1: first queue object, 2: its ring, ... */
#endif
	int rv = nni_sock_create(&s, &proto);
#ifdef FAILQ
	CHECK(rv == NNG_ENOMEM, "a failed allocation while creating a socket is reported as NNG_ENOMEM");
	CHECK(finis == inits, "the protocol part is finalized iff it was initialised");
	CHECK(env_alloc_live == live0, "and everything allocated so far is returned - each block with its own size");
	WITNESS("creation failed cleanly");
#else
	CHECK(rv == 0 && s != NULL && inits == 1, "socket created");
	CHECK(env_alloc_live > live0, "it owns memory");
	sock_destroy(s);
	CHECK(finis == 1, "the protocol's sock_fini runs once");
	CHECK(env_alloc_live == live0, "destroying the socket returns every block it obtained (each nni_free is checked against the block's allocation size)");
	WITNESS("created and destroyed");
#endif
	CHECK(env_locks_held == 0, "no lock held");
	WITNESS("end");
}

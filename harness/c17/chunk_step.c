/* C17 (i): one operation of the real core/message.c body chunk from an
 * arbitrary invariant-satisfying state.
 *
 * shape (concrete, -D): CAP  capacity of the backing store
 *                       OP   operation
 * symbolic: headroom offset, length, every content byte, the argument length
 *           (<= ARGMAX) and argument bytes, realloc/reserve sizes.
 * oracle: byte-string semantics (reference arrays), Inv afterwards,
 *         capacity >= length, EINVAL and no change on over-removal.
 */
#include "vh.h"
#include "core/message.c"
extern int env_alloc_live;

#ifndef CAP
#define CAP 24
#endif
#ifndef ARGMAX
#define ARGMAX 12
#endif
#define OP_APPEND 1
#define OP_INSERT 2
#define OP_TRIM 3
#define OP_CHOP 4
#define OP_REALLOC 5
#define OP_RESERVE 6
#define OP_CLEAR 7
#define OP_DUP 8
#define OP_TRIM_U32 9
#define OP_PULLUP 10
#ifndef OP
#define OP OP_INSERT
#endif

#define REFMAX (CAP + ARGMAX + 8)

static int
chunk_inv(const nni_chunk *ch)
{
	if (ch->ch_buf == NULL) {
		return ch->ch_ptr == NULL && ch->ch_len == 0 && ch->ch_cap == 0;
	}
	if (ch->ch_cap == 0)
		return 0;
	if (ch->ch_ptr < ch->ch_buf)
		return 0;
	size_t off = (size_t) (ch->ch_ptr - ch->ch_buf);
	if (off > ch->ch_cap) /* == cap only possible with len 0 ... */
		return 0;
	if (off == ch->ch_cap && ch->ch_cap != 0)
		return 0; /* trim never parks the pointer at the end */
	if (ch->ch_len > ch->ch_cap - off)
		return 0;
	return 1;
}

#define OP_ALLOC 11
#if OP == OP_ALLOC
/* (ii) nni_msg_alloc(CAP) establishes Inv with the documented headroom rule */
void
harness(void)
{
	nni_msg *a = NULL;
	int      rv = nni_msg_alloc(&a, CAP);
	CHECK(rv == 0 && a != NULL, "alloc succeeds");
	CHECK(chunk_inv(&a->m_body), "alloc establishes Inv");
	CHECK(nni_msg_len(a) == CAP, "alloc: length = requested");
	CHECK(nni_msg_header_len(a) == 0, "alloc: header empty");
	CHECK(nni_msg_capacity(a) >= nni_msg_len(a), "alloc: capacity >= length");
	CHECK(nni_atomic_get(&a->m_refcnt) == 1, "alloc: one reference");
	if ((CAP < 1024) || ((CAP & (CAP - 1)) != 0)) {
		CHECK((size_t) (a->m_body.ch_ptr - a->m_body.ch_buf) == 32, "alloc: 32 bytes of headroom");
		CHECK(a->m_body.ch_cap >= (size_t) CAP + 64, "alloc: 32 bytes of tail room");
	} else {
		CHECK(a->m_body.ch_ptr == a->m_body.ch_buf, "alloc: large power of two unpadded");
	}
	WITNESS("end");
	nni_msg_free(a);
	CHECK(env_alloc_live == 0, "free returns all memory");
}
#else
void
harness(void)
{
	nni_msg  m;
	nni_msg *mp = &m;
	u8       old[REFMAX];
	u8       arg[ARGMAX + 1];
	usz      off, len, n;
	int      rv;

	memset(&m, 0, sizeof(m));
	nni_atomic_init(&m.m_refcnt);
	nni_atomic_set(&m.m_refcnt, 1);

	off = ND(usz);
	len = ND(usz);
	ASSUME(off < CAP);
	ASSUME(len <= CAP - off);
	m.m_body.ch_buf = nni_zalloc(CAP);
	m.m_body.ch_cap = CAP;
	m.m_body.ch_ptr = m.m_body.ch_buf + off;
	m.m_body.ch_len = len;
	/* arbitrary bytes everywhere in the store (also outside the window) */
	for (usz i = 0; i < CAP; i++) {
		m.m_body.ch_buf[i] = ND(u8);
	}
	for (usz i = 0; i < REFMAX; i++) {
		old[i] = (i < len) ? m.m_body.ch_ptr[i] : 0;
	}
	n = ND(usz);
	ASSUME(n <= ARGMAX);
	for (usz i = 0; i < ARGMAX; i++) {
		arg[i] = ND(u8);
	}
	CHECK(chunk_inv(&m.m_body), "constructed pre-state satisfies Inv");

	usz k = ND(usz); /* the one symbolic index that stands for all */

#if OP == OP_APPEND
	rv = nni_msg_append(mp, arg, n);
	CHECK(rv == 0, "append succeeds (allocation assumed to succeed)");
	CHECK(nni_msg_len(mp) == len + n, "append: length");
	ASSUME(k < len + n);
	CHECK(((u8 *) nni_msg_body(mp))[k] == (k < len ? old[k] : arg[k - len]),
	    "append: content = old || arg");
	if (n > 0 && len > 0)
		WITNESS("append nonempty to nonempty");
#elif OP == OP_INSERT
	rv = nni_msg_insert(mp, arg, n);
	CHECK(rv == 0, "insert succeeds (allocation assumed to succeed)");
	CHECK(nni_msg_len(mp) == len + n, "insert: length");
	ASSUME(k < len + n);
	CHECK(((u8 *) nni_msg_body(mp))[k] == (k < n ? arg[k] : old[k - n]),
	    "insert: content = arg || old");
	if (n > off && len > 0)
		WITNESS("insert beyond headroom");
#elif OP == OP_TRIM
	rv = nni_msg_trim(mp, n);
	if (n > len) {
		CHECK(rv == NNG_EINVAL, "trim more than present: EINVAL");
		CHECK(nni_msg_len(mp) == len, "failed trim: length unchanged");
		ASSUME(k < len);
		CHECK(((u8 *) nni_msg_body(mp))[k] == old[k], "failed trim: content unchanged");
		WITNESS("trim too much");
	} else {
		CHECK(rv == 0, "trim ok");
		CHECK(nni_msg_len(mp) == len - n, "trim: length");
		ASSUME(k < len - n);
		CHECK(((u8 *) nni_msg_body(mp))[k] == old[k + n], "trim: content = old[n..]");
		if (n > 0)
			WITNESS("trim some");
	}
#elif OP == OP_CHOP
	rv = nni_msg_chop(mp, n);
	if (n > len) {
		CHECK(rv == NNG_EINVAL, "chop more than present: EINVAL");
		CHECK(nni_msg_len(mp) == len, "failed chop: length unchanged");
		ASSUME(k < len);
		CHECK(((u8 *) nni_msg_body(mp))[k] == old[k], "failed chop: content unchanged");
		WITNESS("chop too much");
	} else {
		CHECK(rv == 0, "chop ok");
		CHECK(nni_msg_len(mp) == len - n, "chop: length");
		ASSUME(k < len - n);
		CHECK(((u8 *) nni_msg_body(mp))[k] == old[k], "chop: content = old[..len-n]");
		if (n > 0)
			WITNESS("chop some");
	}
#elif OP == OP_REALLOC
	{
		usz sz = ND(usz);
		ASSUME(sz <= CAP + ARGMAX);
		rv = nni_msg_realloc(mp, sz);
		CHECK(rv == 0, "realloc succeeds");
		CHECK(nni_msg_len(mp) == sz, "realloc: length = requested");
		ASSUME(k < (sz < len ? sz : len));
		CHECK(((u8 *) nni_msg_body(mp))[k] == old[k], "realloc: common prefix kept");
		if (sz > CAP - off)
			WITNESS("realloc beyond capacity");
		if (sz < len)
			WITNESS("realloc shrink");
	}
#elif OP == OP_RESERVE
	{
		usz c = ND(usz);
		ASSUME(c <= CAP + ARGMAX);
		rv = nni_msg_reserve(mp, c);
		CHECK(rv == 0, "reserve succeeds");
		CHECK(nni_msg_len(mp) == len, "reserve: length unchanged");
		CHECK(nni_msg_capacity(mp) >= c, "reserve: capacity >= requested");
		ASSUME(k < len);
		CHECK(((u8 *) nni_msg_body(mp))[k] == old[k], "reserve: content unchanged");
		if (c > CAP - off)
			WITNESS("reserve grows");
	}
#elif OP == OP_CLEAR
	nni_msg_clear(mp);
	CHECK(nni_msg_len(mp) == 0, "clear: length 0");
	WITNESS("clear");
#elif OP == OP_TRIM_U32
	{
		ASSUME(len >= 4);
		u32 v = nni_msg_trim_u32(mp);
		u32 e = ((u32) old[0] << 24) | ((u32) old[1] << 16) | ((u32) old[2] << 8) | old[3];
		CHECK(v == e, "trim_u32: big-endian value");
		CHECK(nni_msg_len(mp) == len - 4, "trim_u32: length");
		ASSUME(k < len - 4);
		CHECK(((u8 *) nni_msg_body(mp))[k] == old[k + 4], "trim_u32: content");
		WITNESS("trim_u32");
	}
#elif OP == OP_DUP
	{
		nni_msg *d = NULL;
		usz      hl = ND(usz);
		ASSUME(hl <= 64);
		m.m_header_len = hl;
		ND_BYTES(m.m_header_buf, 64);
		u8 h0 = ((u8 *) m.m_header_buf)[0];
		rv    = nni_msg_dup(&d, mp);
		CHECK(rv == 0 && d != NULL, "dup succeeds");
		CHECK(nni_msg_len(d) == len, "dup: body length");
		CHECK(nni_msg_header_len(d) == hl, "dup: header length");
		CHECK(d->m_body.ch_buf != m.m_body.ch_buf, "dup: separate storage");
		CHECK(chunk_inv(&d->m_body), "dup: Inv of the copy");
		CHECK(nni_msg_capacity(d) >= nni_msg_len(d), "dup: capacity >= length");
		usz j = ND(usz);
		if (hl > 0) {
			ASSUME(j < hl);
			CHECK(((u8 *) nni_msg_header(d))[j] == ((u8 *) m.m_header_buf)[j], "dup: header bytes");
		}
		if (len > 0) {
			ASSUME(k < len);
			CHECK(((u8 *) nni_msg_body(d))[k] == old[k], "dup: body bytes");
			/* independence: write the original, read the copy and vice versa */
			((u8 *) nni_msg_body(mp))[k] ^= 0xff;
			CHECK(((u8 *) nni_msg_body(d))[k] == old[k], "dup: copy unaffected by write to original");
			((u8 *) nni_msg_body(d))[k] ^= 0x55;
			CHECK(((u8 *) nni_msg_body(mp))[k] == (u8) (old[k] ^ 0xff), "dup: original unaffected by write to copy");
			WITNESS("dup nonempty");
		}
		(void) h0;
		nni_msg_free(d);
	}
#elif OP == OP_PULLUP
	{
		/* header (0..16 words) is merged in front of the body */
		usz hl = ND(usz);
		u8  hdr[64];
		ASSUME(hl <= 64);
		ND_BYTES(m.m_header_buf, 64);
		memcpy(hdr, m.m_header_buf, 64);
		m.m_header_len = hl;
		/* pull_up frees m when it has to copy: use a heap message */
		nni_msg *hm = nni_zalloc(sizeof(*hm));
		memcpy(hm, &m, sizeof(m));
#ifdef SHARED
		/* somebody else holds the same message (a copy queued for another subscriber, the sender's retained request):
		 * the caller must get a message of its own - whatever the header length, 0 included - and the other holder
		 * keeps an untouched original (C01: nobody observes an altered message; C17: a duplicate is independent) */
		nni_atomic_set(&hm->m_refcnt, 2);
#endif
		nni_msg *r = nni_msg_pull_up(hm);
		CHECK(r != NULL, "pull_up succeeds");
#ifdef SHARED
		CHECK(r != hm, "pull_up of a shared message hands out a private copy, never the shared object itself");
		CHECK(nni_atomic_get(&r->m_refcnt) == 1, "the copy has exactly one owner");
		if (r != hm) {
			CHECK(nni_atomic_get(&hm->m_refcnt) == 1, "the caller's reference to the shared original is given up, the other holder's stays");
			CHECK(nni_msg_header_len(hm) == hl && nni_msg_len(hm) == len, "the shared original keeps its header and body lengths");
			usz j = ND(usz);
			ASSUME(j < len);
			CHECK(((u8 *) nni_msg_body(hm))[j] == old[j], "the shared original keeps its bytes");
			if (hl == 0)
				WITNESS("shared message without header copied");
		}
#endif
		CHECK(nni_msg_header_len(r) == 0 || r != hm || 1, "n/a");
		CHECK(nni_msg_len(r) == len + hl, "pull_up: body length = header + body");
		ASSUME(k < len + hl);
		CHECK(((u8 *) nni_msg_body(r))[k] == (k < hl ? hdr[k] : old[k - hl]),
		    "pull_up: body = header || body");
		if (hl > off && len > 0)
			WITNESS("pull_up beyond headroom");
		mp = r;
	}
#endif
#if OP != OP_PULLUP
	CHECK(chunk_inv(&mp->m_body), "Inv holds after the operation");
	CHECK(nni_msg_capacity(mp) >= nni_msg_len(mp), "capacity >= length");
#else
	CHECK(chunk_inv(&mp->m_body), "Inv holds after pull_up");
#endif
	WITNESS("end");
}
#endif

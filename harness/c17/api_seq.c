/* C17 (iii)/(iv): bounded sequences of public nng_msg_* calls (src/nng.c
 * wrappers over the real core/message.c) from nng_msg_alloc, against a
 * reference pair of byte strings (header, body).
 *
 * shape: SZ0 initial size, OP1..OP3 operation codes (0 = none)
 *        N1..N3 optional concrete size of step i (multi-step sequences with
 *        symbolic sizes exhaust memory: measured 5.4 GB / no verdict at K=2)
 * symbolic: every size argument not fixed (<= NMAX), every byte and integer value.
 */
#include "vh.h"
#include "nng.c"

#ifndef SZ0
#define SZ0 0
#endif
#ifndef NMAX
#define NMAX 8
#endif
#define RMAX (SZ0 + 3 * NMAX + 8)

static u8  rb[RMAX]; /* reference body */
static usz rbl;
static u8  rh[64]; /* reference header */
static usz rhl;

enum {
	A_NONE = 0,
	A_APPEND,
	A_INSERT,
	A_TRIM,
	A_CHOP,
	A_REALLOC,
	A_CLEAR,
	A_APPEND_U16,
	A_APPEND_U32,
	A_APPEND_U64,
	A_INSERT_U16,
	A_INSERT_U32,
	A_INSERT_U64,
	A_TRIM_U16,
	A_TRIM_U32,
	A_TRIM_U64,
	A_CHOP_U16,
	A_CHOP_U32,
	A_CHOP_U64,
	A_H_APPEND,
	A_H_INSERT,
	A_H_TRIM,
	A_H_CHOP,
	A_H_APPEND_U16,
	A_H_APPEND_U32,
	A_H_APPEND_U64,
	A_H_INSERT_U16,
	A_H_INSERT_U32,
	A_H_INSERT_U64,
	A_H_TRIM_U16,
	A_H_TRIM_U32,
	A_H_TRIM_U64,
	A_H_CHOP_U16,
	A_H_CHOP_U32,
	A_H_CHOP_U64,
	A_H_CLEAR,
	A_RESERVE,
};

static void
be(u8 *dst, u64 v, unsigned w)
{
	for (unsigned i = 0; i < w; i++)
		dst[i] = (u8) (v >> (8 * (w - 1 - i)));
}
static u64
unbe(const u8 *src, unsigned w)
{
	u64 v = 0;
	for (unsigned i = 0; i < w; i++)
		v = (v << 8) | src[i];
	return v;
}
/* reference string operations */
static void
r_insert(u8 *s, usz *l, const u8 *d, usz n)
{
	for (usz i = *l; i > 0; i--)
		s[i - 1 + n] = s[i - 1];
	for (usz i = 0; i < n; i++)
		s[i] = d[i];
	*l += n;
}
static void
r_append(u8 *s, usz *l, const u8 *d, usz n)
{
	for (usz i = 0; i < n; i++)
		s[*l + i] = d[i];
	*l += n;
}
static void
r_trim(u8 *s, usz *l, usz n)
{
	for (usz i = 0; i + n < *l; i++)
		s[i] = s[i + n];
	*l -= n;
}

static void
compare(nng_msg *m, const char *unused)
{
	(void) unused;
	CHECK(nng_msg_len(m) == rbl, "body length equals reference");
	CHECK(nng_msg_header_len(m) == rhl, "header length equals reference");
	CHECK(nng_msg_capacity(m) >= nng_msg_len(m), "capacity >= length");
	usz k = ND(usz);
	if (rbl > 0) {
		ASSUME(k < rbl);
		CHECK(((u8 *) nng_msg_body(m))[k] == rb[k], "body bytes equal reference");
	}
	usz j = ND(usz);
	if (rhl > 0) {
		ASSUME(j < rhl);
		CHECK(((u8 *) nng_msg_header(m))[j] == rh[j], "header bytes equal reference");
	}
}

static void
step(nng_msg *m, int op, long nfix)
{
	u8  d[NMAX];
	usz n = (nfix >= 0) ? (usz) nfix : ND(usz);
	u64 v = ND(u64);
	int rv;
	u16 o16 = 0;
	u32 o32 = 0;
	u64 o64 = 0;
	ASSUME(n <= NMAX);
	ND_BYTES(d, NMAX);
	switch (op) {
	case A_APPEND:
		rv = nng_msg_append(m, d, n);
		CHECK(rv == 0, "append ok");
		r_append(rb, &rbl, d, n);
		break;
	case A_INSERT:
		rv = nng_msg_insert(m, d, n);
		CHECK(rv == 0, "insert ok");
		r_insert(rb, &rbl, d, n);
		break;
	case A_TRIM:
		rv = nng_msg_trim(m, n);
		if (n > rbl) {
			CHECK(rv == NNG_EINVAL, "trim beyond length: EINVAL");
		} else {
			CHECK(rv == 0, "trim ok");
			r_trim(rb, &rbl, n);
		}
		break;
	case A_CHOP:
		rv = nng_msg_chop(m, n);
		if (n > rbl) {
			CHECK(rv == NNG_EINVAL, "chop beyond length: EINVAL");
		} else {
			CHECK(rv == 0, "chop ok");
			rbl -= n;
		}
		break;
	case A_REALLOC:
		rv = nng_msg_realloc(m, n);
		CHECK(rv == 0, "realloc ok");
		if (n > rbl) {
			/* new bytes are unspecified: adopt them */
			for (usz i = rbl; i < n; i++)
				rb[i] = ((u8 *) nng_msg_body(m))[i];
		}
		rbl = n;
		break;
	case A_RESERVE:
		rv = nng_msg_reserve(m, n + SZ0);
		CHECK(rv == 0, "reserve ok");
		CHECK(nng_msg_capacity(m) >= n + SZ0, "reserve: capacity");
		break;
	case A_CLEAR:
		nng_msg_clear(m);
		rbl = 0;
		break;
#define BODY_PUT(OPC, fn, w, ins)                                   \
	case OPC:                                                   \
		rv = fn(m, (u##w) v);                               \
		CHECK(rv == 0, #fn " ok");                          \
		be(d, (u##w) v, w / 8);                             \
		if (ins)                                            \
			r_insert(rb, &rbl, d, w / 8);               \
		else                                                \
			r_append(rb, &rbl, d, w / 8);               \
		break;
		BODY_PUT(A_APPEND_U16, nng_msg_append_u16, 16, 0)
		BODY_PUT(A_APPEND_U32, nng_msg_append_u32, 32, 0)
		BODY_PUT(A_APPEND_U64, nng_msg_append_u64, 64, 0)
		BODY_PUT(A_INSERT_U16, nng_msg_insert_u16, 16, 1)
		BODY_PUT(A_INSERT_U32, nng_msg_insert_u32, 32, 1)
		BODY_PUT(A_INSERT_U64, nng_msg_insert_u64, 64, 1)
#define BODY_GET(OPC, fn, w, var, trim)                                            \
	case OPC:                                                                  \
		rv = fn(m, &var);                                                  \
		if (rbl < w / 8) {                                                 \
			CHECK(rv == NNG_EINVAL, #fn " on short body: EINVAL");     \
		} else {                                                           \
			CHECK(rv == 0, #fn " ok");                                 \
			if (trim) {                                                \
				CHECK(var == (u##w) unbe(rb, w / 8), #fn " value"); \
				r_trim(rb, &rbl, w / 8);                           \
			} else {                                                   \
				CHECK(var == (u##w) unbe(rb + rbl - w / 8, w / 8), #fn " value"); \
				rbl -= w / 8;                                      \
			}                                                          \
		}                                                                  \
		break;
		BODY_GET(A_TRIM_U16, nng_msg_trim_u16, 16, o16, 1)
		BODY_GET(A_TRIM_U32, nng_msg_trim_u32, 32, o32, 1)
		BODY_GET(A_TRIM_U64, nng_msg_trim_u64, 64, o64, 1)
		BODY_GET(A_CHOP_U16, nng_msg_chop_u16, 16, o16, 0)
		BODY_GET(A_CHOP_U32, nng_msg_chop_u32, 32, o32, 0)
		BODY_GET(A_CHOP_U64, nng_msg_chop_u64, 64, o64, 0)
	case A_H_APPEND:
		rv = nng_msg_header_append(m, d, n);
		if (rhl + n > 64) {
			CHECK(rv == NNG_EINVAL, "header_append beyond 64: EINVAL");
		} else {
			CHECK(rv == 0, "header_append ok");
			r_append(rh, &rhl, d, n);
		}
		break;
	case A_H_INSERT:
		rv = nng_msg_header_insert(m, d, n);
		if (rhl + n > 64) {
			CHECK(rv == NNG_EINVAL, "header_insert beyond 64: EINVAL");
		} else {
			CHECK(rv == 0, "header_insert ok");
			r_insert(rh, &rhl, d, n);
		}
		break;
	case A_H_TRIM:
		rv = nng_msg_header_trim(m, n);
		if (n > rhl) {
			CHECK(rv == NNG_EINVAL, "header_trim beyond length: EINVAL");
		} else {
			CHECK(rv == 0, "header_trim ok");
			r_trim(rh, &rhl, n);
		}
		break;
	case A_H_CHOP:
		rv = nng_msg_header_chop(m, n);
		if (n > rhl) {
			CHECK(rv == NNG_EINVAL, "header_chop beyond length: EINVAL");
		} else {
			CHECK(rv == 0, "header_chop ok");
			rhl -= n;
		}
		break;
	case A_H_CLEAR:
		nng_msg_header_clear(m);
		rhl = 0;
		break;
#define HDR_PUT(OPC, fn, w, ins)                                              \
	case OPC:                                                             \
		rv = fn(m, (u##w) v);                                         \
		if (rhl + w / 8 > 64) {                                       \
			CHECK(rv == NNG_EINVAL, #fn " beyond 64: EINVAL");    \
		} else {                                                      \
			CHECK(rv == 0, #fn " ok");                            \
			be(d, (u##w) v, w / 8);                               \
			if (ins)                                              \
				r_insert(rh, &rhl, d, w / 8);                 \
			else                                                  \
				r_append(rh, &rhl, d, w / 8);                 \
		}                                                             \
		break;
		HDR_PUT(A_H_APPEND_U16, nng_msg_header_append_u16, 16, 0)
		HDR_PUT(A_H_APPEND_U32, nng_msg_header_append_u32, 32, 0)
		HDR_PUT(A_H_APPEND_U64, nng_msg_header_append_u64, 64, 0)
		HDR_PUT(A_H_INSERT_U16, nng_msg_header_insert_u16, 16, 1)
		HDR_PUT(A_H_INSERT_U32, nng_msg_header_insert_u32, 32, 1)
		HDR_PUT(A_H_INSERT_U64, nng_msg_header_insert_u64, 64, 1)
#define HDR_GET(OPC, fn, w, var, trim)                                             \
	case OPC:                                                                  \
		rv = fn(m, &var);                                                  \
		if (rhl < w / 8) {                                                 \
			CHECK(rv == NNG_EINVAL, #fn " on short header: EINVAL");   \
		} else {                                                           \
			CHECK(rv == 0, #fn " ok");                                 \
			if (trim) {                                                \
				CHECK(var == (u##w) unbe(rh, w / 8), #fn " value"); \
				r_trim(rh, &rhl, w / 8);                           \
			} else {                                                   \
				CHECK(var == (u##w) unbe(rh + rhl - w / 8, w / 8), #fn " value"); \
				rhl -= w / 8;                                      \
			}                                                          \
		}                                                                  \
		break;
		HDR_GET(A_H_TRIM_U16, nng_msg_header_trim_u16, 16, o16, 1)
		HDR_GET(A_H_TRIM_U32, nng_msg_header_trim_u32, 32, o32, 1)
		HDR_GET(A_H_TRIM_U64, nng_msg_header_trim_u64, 64, o64, 1)
		HDR_GET(A_H_CHOP_U16, nng_msg_header_chop_u16, 16, o16, 0)
		HDR_GET(A_H_CHOP_U32, nng_msg_header_chop_u32, 32, o32, 0)
		HDR_GET(A_H_CHOP_U64, nng_msg_header_chop_u64, 64, o64, 0)
	default:
		break;
	}
	compare(m, "");
}

void
harness(void)
{
	nng_msg *m = NULL;
	int      rv;
	rv = nng_msg_alloc(&m, SZ0);
	CHECK(rv == 0 && m != NULL, "alloc ok");
	CHECK(nng_msg_len(m) == SZ0, "alloc: length");
	CHECK(nng_msg_header_len(m) == 0, "alloc: empty header");
	/* fill the body with arbitrary bytes */
	for (usz i = 0; i < SZ0; i++) {
		rb[i]                        = ND(u8);
		((u8 *) nng_msg_body(m))[i] = rb[i];
	}
	rbl = SZ0;
	rhl = 0;
#ifdef HDR0
	/* start from a header of HDR0 symbolic bytes */
	{
		u8 h[64];
		ND_BYTES(h, 64);
		rv = nng_msg_header_append(m, h, HDR0);
		CHECK(rv == 0, "initial header append");
		r_append(rh, &rhl, h, HDR0);
	}
#endif
#ifndef N1
#define N1 -1
#endif
#ifndef N2
#define N2 -1
#endif
#ifndef N3
#define N3 -1
#endif
	step(m, OP1, N1);
#if OP2
	step(m, OP2, N2);
#endif
#if OP3
	step(m, OP3, N3);
#endif
	WITNESS("end");
	nng_msg_free(m);
}

/* C01 kernel: the REAL core/aio.c nni_aio_iov_advance / nni_aio_iov_count over
 * a vector of NIO segments with symbolic lengths (<= 8) and ANY byte count n
 * <= total: the result is exactly the suffix of the concatenation (no byte
 * skipped or repeated), the count is the sum, consumed segments are removed.
 * This is the specification env_aio.c implements for the transport harnesses. */
#include "vh.h"
#include "core/aio.c"
#ifndef NIO
#define NIO 3
#endif
void
harness(void)
{
	nni_aio a;
	u8      store[NIO][8];
	size_t  len[NIO], total = 0;
	memset(&a, 0, sizeof(a));
	for (int i = 0; i < NIO; i++) {
		len[i] = ND(usz);
		ASSUME(len[i] >= 1 && len[i] <= 8);
		a.a_iov[i].iov_buf = store[i];
		a.a_iov[i].iov_len = len[i];
		total += len[i];
	}
	a.a_nio = NIO;
	CHECK(nni_aio_iov_count(&a) == total, "iov_count is the sum of the segment lengths");
	size_t n = ND(usz);
	ASSUME(n <= total);
	size_t r = nni_aio_iov_advance(&a, n);
	CHECK(r == 0, "advancing by no more than the total consumes all of n");
	CHECK(nni_aio_iov_count(&a) == total - n, "the remaining count is total - n");
	/* the first remaining byte is byte n of the concatenation */
	if (n < total) {
		size_t k = n, seg = 0;
		for (int i = 0; i < NIO; i++) {
			if (k >= len[seg] && seg + 1 < NIO) {
				k -= len[seg];
				seg++;
			}
		}
		CHECK(a.a_nio == NIO - seg, "fully consumed segments are removed");
		CHECK(a.a_iov[0].iov_buf == &store[seg][k], "the vector resumes at exactly byte n of the concatenation");
		CHECK(a.a_iov[0].iov_len == len[seg] - k, "the first remaining segment is shortened by what was consumed of it");
		for (int i = 1; i < NIO; i++)
			if ((size_t) i < a.a_nio)
				CHECK(a.a_iov[i].iov_buf == store[seg + i] && a.a_iov[i].iov_len == len[seg + i], "later segments are untouched");
		WITNESS("partial");
	} else {
		CHECK(a.a_nio == 0, "consuming everything leaves an empty vector");
		WITNESS("all consumed");
	}
	WITNESS("end");
}

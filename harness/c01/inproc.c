/* C01 / C20: the hand-off of the real sp/transport/inproc/inproc.c (inproc_pipe_send, inproc_pipe_recv,
 * inproc_queue_run, inproc_queue_cancel, inproc_pipe_close) between the two ends of one connection.
 * A pair object with its two queues is constructed as inproc_conn_finish does; end A sends, end B receives.
 * events: S(i)   A posts send i: a message with HL symbolic header bytes (raw protocols) and 2 symbolic body bytes
 *         R(i)   B posts receive i            X(i)  cancel operation i          C  one end closes the connection
 *         SH(i)  like S(i) but the message is shared (a fan-out clone): the receiver must get its own copy
 *         SF(i)  like SH(i) and the copy cannot be allocated (C20: documented best-effort loss of that message)
 * checked: the k-th completed receive gets the k-th accepted message; its body is header||body of what was sent and
 * its header is empty (the receiving protocol re-parses it); bytes unaltered; nothing delivered twice; a send completes
 * with header+body length exactly when a receiver took (or the allocation failure dropped) the message; cancel and close
 * complete each pending operation once; every message is owned by exactly one party at any time (no leak, no double free).
 */
#include "proto_kit.h"
#include "sp/transport/inproc/inproc.c"
#ifndef HL
#define HL 4
#endif
static inproc_pair  pair;
static inproc_pipe  ea, eb;
static int          kind[MAXU]; /* 1 send 2 recv */
static u8           sent[MAXU][HL + 2];
static int          send_order[MAXU], nsent_acc;   /* accepted sends in order */
static int          recv_done_n;
static int          dropped[MAXU];
static int          closed_;
static int          willfail[MAXU], live_at_post[MAXU];

static void
sweep(void)
{
	kquiesce();
	for (int i = 0; i < MAXU; i++) {
		if (!uaio_used[i])
			continue;
		CHECK(env_aio_completed(&uaio_at(i)) <= 1, "an operation completes at most once");
	}
}
static void
post_send(int i, int shared, int fail)
{
	KNEED(!uaio_used[i]);
	if (kstop)
		return;
	kuaio_prepare(i, 1);
	kind[i] = 1;
	nni_msg *m = kmsg(2);
	u8       h[HL + 1];
	for (int k = 0; k < HL; k++)
		h[k] = ND(u8);
#if HL > 0
	nni_msg_header_append(m, h, HL);
#endif
	for (int k = 0; k < HL; k++)
		sent[i][k] = h[k];
	sent[i][HL]     = ((u8 *) nni_msg_body(m))[0];
	sent[i][HL + 1] = ((u8 *) nni_msg_body(m))[1];
	m->tag  = i + 1;
	umsg[i] = m;
	if (shared)
		nni_msg_clone(m); /* another holder of the same message (e.g. the copy queued for another subscriber) */
	if (fail)
		env_msg_fail_at = env_msg_allocs;
	nni_aio_set_msg(&uaio_at(i), m);
	env_aio_submit(&uaio_at(i));
	willfail[i] = fail;
	live_at_post[i] = env_msg_live;
	inproc_pipe_send(&ea, &uaio_at(i));
	kquiesce();
	sweep();
}
static int snoted[MAXU];
static void
note_sends(void)
{
	for (int i = 0; i < MAXU; i++) {
		if (!uaio_used[i] || kind[i] != 1 || snoted[i] || !KDONE(i))
			continue;
		snoted[i] = 1;
		if (KRESULT(i) != 0)
			continue;
		CHECK(nni_aio_count(&uaio_at(i)) == HL + 2, "a completed send reports header plus body length");
		CHECK(nni_aio_get_msg(&uaio_at(i)) == NULL, "an accepted message no longer belongs to the sender");
		if (willfail[i] && env_msg_failed) {
			dropped[i] = 1;
			CHECK(umsg[i]->refcnt == 1, "the message lost to the failed allocation is released exactly once (the other holder keeps its reference)");
			WITNESS("allocation failure drops one message");
			env_msg_failed = 0;
		} else {
			send_order[nsent_acc < MAXU ? nsent_acc : 0] = i;
			nsent_acc++;
		}
	}
}
static void
check_delivery(int i)
{
	/* receive i just completed with a message */
	nni_msg *m = nni_aio_get_msg(&uaio_at(i));
	CHECK(recv_done_n < nsent_acc, "a receive completes only with a message some send handed over");
	int s = send_order[recv_done_n < MAXU ? recv_done_n : 0];
	CHECK(m != NULL && m->tag == s + 1, "messages arrive in the order they were sent, each once");
	CHECK(nni_msg_header_len(m) == 0 && nni_msg_len(m) == HL + 2, "the receiver gets header and body as one body (the protocol re-parses the header)");
	size_t j = ND(usz);
	ASSUME(j < HL + 2);
	CHECK(((u8 *) nni_msg_body(m))[j] == sent[s][j], "header bytes then body bytes arrive unaltered");
	CHECK(m->refcnt == 1, "the receiver owns its message exclusively");
	recv_done_n++;
	nni_msg_free(m);
	nni_aio_set_msg(&uaio_at(i), NULL);
	WITNESS("delivered");
}
static int rnoted[MAXU];
static void
note_recvs(void)
{
	for (int i = 0; i < MAXU; i++)
		if (uaio_used[i] && kind[i] == 2 && !rnoted[i] && KDONE(i)) {
			rnoted[i] = 1;
			if (KRESULT(i) == 0)
				check_delivery(i);
		}
}
static void
post_recv(int i)
{
	KNEED(!uaio_used[i]);
	if (kstop)
		return;
	kuaio_prepare(i, 1);
	kind[i] = 2;
	env_aio_submit(&uaio_at(i));
	inproc_pipe_recv(&eb, &uaio_at(i));
	kquiesce();
	sweep();
}
static void
ev_cancel(int i)
{
	KNEED(uaio_used[i]);
	if (kstop)
		return;
	int pend = !KDONE(i);
	(void) KRESULT(i);
	nni_aio_abort(&uaio_at(i), NNG_ECANCELED);
	kquiesce();
	if (pend) {
		CHECK(KDONE(i) && KRESULT(i) == NNG_ECANCELED, "cancelling a pending operation completes it with ECANCELED");
		if (kind[i] == 1) {
			CHECK(nni_aio_get_msg(&uaio_at(i)) == umsg[i], "a cancelled send keeps its message with the caller");
			nni_msg_free(umsg[i]);
			nni_aio_set_msg(&uaio_at(i), NULL);
		}
		WITNESS("cancelled");
	}
	sweep();
}
static void
ev_close(void)
{
	KNEED(!closed_);
	if (kstop)
		return;
	closed_ = 1;
	inproc_pipe_close(&eb);
	kquiesce();
	for (int i = 0; i < MAXU; i++)
		if (uaio_used[i]) {
			CHECK(KDONE(i), "closing the connection completes every pending operation");
			if (kind[i] == 1 && KRESULT(i) != 0 && nni_aio_get_msg(&uaio_at(i)) != NULL) {
				CHECK(KRESULT(i) == NNG_ECLOSED || KRESULT(i) == NNG_ECANCELED, "a send pending at close fails with ECLOSED");
				nni_msg_free(nni_aio_get_msg(&uaio_at(i)));
				nni_aio_set_msg(&uaio_at(i), NULL);
			}
		}
	WITNESS("closed");
}
#define S(i) if (!kstop) { post_send(i, 0, 0); note_sends(); note_recvs(); }
#define SH(i) if (!kstop) { post_send(i, 1, 0); note_sends(); note_recvs(); }
#define SF(i) if (!kstop) { post_send(i, 1, 1); note_sends(); note_recvs(); }
#define R(i) if (!kstop) { post_recv(i); note_sends(); note_recvs(); }
#define X(i) if (!kstop) { ev_cancel(i); note_sends(); note_recvs(); }
#define C if (!kstop) { ev_close(); note_sends(); note_recvs(); }
#ifndef SKEL
#define SKEL S(0) R(1) C
#endif
void
harness(void)
{
	static const inproc_pair pz;
	static const inproc_pipe ez;
	pair = pz;
	ea = eb = ez;
	/* as inproc_conn_finish sets a connection up */
	for (int i = 0; i < 2; i++) {
		nni_aio_list_init(&pair.queues[i].readers);
		nni_aio_list_init(&pair.queues[i].writers);
		nni_mtx_init(&pair.queues[i].lock);
	}
	ea.pair = eb.pair = &pair;
	ea.send_queue = &pair.queues[0];
	ea.recv_queue = &pair.queues[1];
	eb.send_queue = &pair.queues[1];
	eb.recv_queue = &pair.queues[0];
	SKEL
	if (!kstop)
		WITNESS("skeleton ran to its end");
#ifdef MUSTEND
	/* a curated skeleton whose every event is applicable on the library as it should be: an event that finds nothing to act
	 * on (e.g. no transfer outstanding because a message vanished) is a failure, not the end of the skeleton */
	CHECK(!kstop, "every event of the skeleton found the library in the state the previous events must have left it in");
#endif
	/* ownership balance: whatever is still alive is accounted for */
	int expect = 0;
	for (int i = 0; i < MAXU; i++) {
		if (!uaio_used[i] || kind[i] != 1)
			continue;
		if (nni_aio_get_msg(&uaio_at(i)) != NULL)
			expect++; /* still pending with the sender */
	}
	for (int k = recv_done_n; k < MAXU; k++)
		if (k < nsent_acc)
			expect++; /* accepted, not yet received: cannot happen (a send completes only against a receiver) */
	CHECK(recv_done_n == nsent_acc, "a send is reported complete only when a receiver has taken the message");
	(void) expect;
	CHECK(env_locks_held == 0, "no lock held");
	WITNESS("end");
}

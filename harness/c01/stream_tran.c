/* C01 / C11: the length-prefixed framing of the stream transports, real
 * sp/transport/tcp/tcp.c (TRAN=0), socket/sockfd.c (TRAN=1), ipc/ipc.c
 * (TRAN=2, 9-byte header with type octet).  Inductive steps over the framing
 * invariant (DESIGN C01): one transfer of ANY size n, or one header value, per
 * query; composition over all segmentations is by induction on the number of
 * transfers.
 *  MODE 1 TX    send a message (header HL bytes, body BL bytes), then one
 *               partial write of n bytes (any 1..total): the next write request
 *               is exactly the remaining suffix; then the rest: completes once
 *               with the body length and the message is freed once.
 *  MODE 2 RXH   the 8/9-byte header arrives in two pieces (any split)
 *  MODE 3 RXL   header complete: ANY length value x ANY rcvmax: oversize or
 *               invalid => receive fails with EMSGSIZE, no allocation; (ipc:
 *               type octet != 1 => EPROTO); else exactly `len` bytes requested
 *               into a message of exactly that size (len <= 8 here), or an
 *               empty message delivered
 *  MODE 4 RXB   body of BL bytes arrives in two pieces (any split): delivered
 *               message has exactly the bytes the stream wrote, once
 *  MODE 6/7      cancellation of a send / receive that is in progress (WHICHC 0) or queued behind one (WHICHC 1)
 *  MODE 5 NEGO  handshake: ANY 8 bytes: accepted iff 00 'S' 'P' 00 pp pp 00 00,
 *               else the pipe is dropped, the pending accept/dial fails and
 *               nothing else changes; partial handshake reads resume in place
 */
#include "proto_kit.h"
#if TRAN == 0
#include "sp/transport/tcp/tcp.c"
#define TP tcptran_pipe
#define TE tcptran_ep
#define F(x) tcptran_##x
#define HDRSZ 8
#define RXHEAD rxlen
#define TXHEAD txlen
#define RCVMAX rcvmax
#define RXMSG rxmsg
#define RXAIO rxaio
#define TXAIO txaio
#define NEGOAIO negoaio
#define GOTRX gotrxhead
#define WANTRX wantrxhead
#define GOTTX gottxhead
#define WANTTX wanttxhead
#define NPIPE npipe
#elif TRAN == 1
#include "sp/transport/socket/sockfd.c"
#define TP sfd_tran_pipe
#define TE sfd_tran_ep
#define F(x) sfd_tran_##x
#define HDRSZ 8
#define RXHEAD rxlen
#define TXHEAD txlen
#define RCVMAX rcvmax
#define RXMSG rxmsg
#define RXAIO rxaio
#define TXAIO txaio
#define NEGOAIO negoaio
#define GOTRX gotrxhead
#define WANTRX wantrxhead
#define GOTTX gottxhead
#define WANTTX wanttxhead
#define NPIPE npipe
#else
#include "sp/transport/ipc/ipc.c"
#define TP ipc_pipe
#define TE ipc_ep
#define F(x) ipc_##x
#define HDRSZ 9
#define RXHEAD rx_head
#define TXHEAD tx_head
#define RCVMAX rcv_max
#define RXMSG rx_msg
#define RXAIO rx_aio
#define TXAIO tx_aio
#define NEGOAIO neg_aio
#define GOTRX got_rx_head
#define WANTRX want_rx_head
#define GOTTX got_tx_head
#define WANTTX want_tx_head
#define NPIPE pipe
#define waitpipes wait_pipes
#define negopipes nego_pipes
#define useraio user_aio
#endif

/* ---- the byte stream underneath: records what the transport asks for ---- */
static nni_aio *s_send_aio, *s_recv_aio;
static int      s_sends, s_recvs, s_closed;
/* an aborted stream transfer completes with the abort code (what the platform stream's cancel function does) */
static void
s_cancel(nni_aio *aio, void *arg, nng_err rv)
{
	nni_aio **slot = arg;
	if (*slot == aio) {
		*slot = NULL;
		nni_aio_finish_error(aio, rv); /* its callback runs later, on the task thread (kquiesce) */
	}
}
void
nng_stream_send(nng_stream *s, nni_aio *aio)
{
	(void) s;
	CHECK(s_send_aio == NULL, "one stream write at a time");
	s_send_aio        = aio;
	aio->a_cancel_fn  = s_cancel;
	aio->a_cancel_arg = &s_send_aio;
	s_sends++;
}
void
nng_stream_recv(nng_stream *s, nni_aio *aio)
{
	(void) s;
	CHECK(s_recv_aio == NULL, "one stream read at a time");
	s_recv_aio        = aio;
	aio->a_cancel_fn  = s_cancel;
	aio->a_cancel_arg = &s_recv_aio;
	s_recvs++;
}
void
nng_stream_close(nng_stream *s)
{
	if (s == NULL)
		return; /* as core/stream.c */
	s_closed++;
}
void
nng_stream_stop(nng_stream *s)
{
	(void) s;
}
void
nng_stream_free(nng_stream *s)
{
	(void) s;
}
static nng_sockaddr s_addr;
const nng_sockaddr *
nng_stream_peer_addr(nng_stream *s)
{
	(void) s;
	return &s_addr;
}
const char *
nng_str_sockaddr(const nng_sockaddr *sa, char *buf, size_t bufsz)
{
	(void) sa;
	if (bufsz > 0)
		buf[0] = 0;
	return buf;
}
nng_err
nng_stream_get_int(nng_stream *s, const char *n, int *v)
{
	(void) s;
	(void) n;
	(void) v;
	return NNG_ENOTSUP;
}
uint32_t
nni_pipe_sock_id(nni_pipe *p)
{
	(void) p;
	return 1;
}
static int pipe_released;
void
nni_pipe_rele(nni_pipe *p)
{
	(void) p;
	pipe_released++;
}

static TP  tp;
static TE  ep;
static nni_pipe np;

/* the stream completes the outstanding write/read with n bytes */
static void
stream_done(nni_aio **slot, size_t n, nng_err rv)
{
	nni_aio *a = *slot;
	*slot      = NULL;
	a->a_cancel_fn  = NULL;
	a->a_cancel_arg = NULL;
	a->a_result = rv;
	a->a_count  = n;
	/* run the transport's callback as the task thread would */
	a->a_task.task_cb(a->a_task.task_arg);
}
static size_t
iov_total(nni_aio *a)
{
	size_t t = 0;
	for (unsigned i = 0; i < a->a_nio; i++)
		t += a->a_iov[i].iov_len;
	return t;
}
/* byte at linear position k of the iov */
static u8
iov_byte(nni_aio *a, size_t k)
{
	for (unsigned i = 0; i < 4; i++) {
		if (i >= a->a_nio)
			break;
		if (k < a->a_iov[i].iov_len)
			return ((u8 *) a->a_iov[i].iov_buf)[k];
		k -= a->a_iov[i].iov_len;
	}
	return 0;
}

#ifndef HL
#define HL 4
#endif
#ifndef BL
#define BL 3
#endif

void
harness(void)
{
	env_pipe_init(&np, 7, 0x31);
	ep.proto = 0x30;
	nni_mtx_init(&ep.mtx);
	NNI_LIST_INIT(&ep.waitpipes, TP, node);
	NNI_LIST_INIT(&ep.negopipes, TP, node);
	{
		static const TP tp_zero;
		tp = tp_zero; /* the core hands the transport zeroed memory */
	}
	F(pipe_init)(&tp, &np);
#if MODE == 8
	/* C20: core/pipe.c pipe_create could not finish the pipe (its id, or the protocol's per-pipe state, could not be
	 * allocated) after the transport's p_init had run: it closes the pipe, and the reaper runs p_close, p_stop and -
	 * when the last reference goes - p_fini on a transport pipe that was never attached to an endpoint or a stream */
	F(pipe_close)(&tp);
	kquiesce();
	F(pipe_stop)(&tp);
	F(pipe_fini)(&tp);
	SCHECK(s_closed == 0 && s_sends == 0 && s_recvs == 0, "C20: a pipe that never got a connection touches no stream");
	SCHECK(env_msg_live == 0 && env_locks_held == 0, "C20: nothing leaked, no lock held");
	WITNESS("unfinished pipe reaped");
	WITNESS("end");
	return;
#endif
	tp.ep   = &ep;
	tp.conn = (nng_stream *) &s_addr; /* opaque */
#if MODE == 1
	{
		nni_msg *m = kmsg(BL);
		u8       h[64], flat[HDRSZ + 64 + BL + 1];
		size_t   total = HDRSZ + HL + BL;
		for (int i = 0; i < HL; i++)
			h[i] = ND(u8);
		CHECK(nni_msg_header_append(m, h, HL) == 0, "header set");
		kuaio_prepare(0, 1);
		nni_aio_set_msg(&uaio_at(0), m);
		env_aio_submit(&uaio_at(0));
		int live0 = env_msg_live;
		F(pipe_send)(&tp, &uaio_at(0));
		CHECK(s_send_aio == &tp.TXAIO, "a write is requested");
		CHECK(iov_total(s_send_aio) == total, "frame = length prefix + header + body");
		/* expected wire image */
		u64 len = HL + BL;
		size_t o = 0;
#if HDRSZ == 9
		flat[o++] = 1;
#endif
		for (int i = 7; i >= 0; i--)
			flat[o++] = (u8) (len >> (8 * i));
		for (int i = 0; i < HL; i++)
			flat[o++] = h[i];
		for (int i = 0; i < BL; i++)
			flat[o++] = ((u8 *) nni_msg_body(m))[i];
		size_t k = ND(usz);
		ASSUME(k < total);
		CHECK(iov_byte(s_send_aio, k) == flat[k], "wire image: big-endian total length, then the protocol header, then the body");
		/* one partial write of any size */
		/* the cut point is concrete per query (driver sweeps every iov boundary +-1):
		 * a symbolic count makes the iov base pointers symbolic and symex crawl; the
		 * arithmetic for ANY count is the iov kernel's job (c01/iov.c) */
		size_t n = NCUT;
		stream_done(&s_send_aio, n, 0);
		if (n < total) {
			CHECK(s_send_aio == &tp.TXAIO, "after a partial write the rest is requested");
			CHECK(iov_total(s_send_aio) == total - n, "the remainder is exactly total - written");
			size_t j = ND(usz);
			ASSUME(j < total - n);
			CHECK(iov_byte(s_send_aio, j) == flat[n + j], "the remainder resumes at the first unwritten byte: nothing skipped, nothing repeated");
			CHECK(!KDONE(0), "the send is not reported complete before every byte is written");
			WITNESS("partial write");
			stream_done(&s_send_aio, total - n, 0);
		}
		CHECK(KDONE(0) && KRESULT(0) == 0 && nni_aio_count(&uaio_at(0)) == BL, "send completes once, reporting the body length");
		CHECK(nni_aio_get_msg(&uaio_at(0)) == NULL && env_msg_live == live0 - 1, "the sent message is released exactly once");
		CHECK(s_send_aio == NULL, "nothing further is written");
	}
#elif MODE == 6
	{
		/* TX cancel: send 0 is being written, send 1 waits behind it; WHICHC is the one the protocol cancels */
		nni_msg *m0 = kmsg(2), *m1 = kmsg(2);
		kuaio_prepare(0, 1);
		kuaio_prepare(1, 1);
		nni_aio_set_msg(&uaio_at(0), m0);
		nni_aio_set_msg(&uaio_at(1), m1);
		env_aio_submit(&uaio_at(0));
		env_aio_submit(&uaio_at(1));
		int live0 = env_msg_live;
		F(pipe_send)(&tp, &uaio_at(0));
		F(pipe_send)(&tp, &uaio_at(1));
		CHECK(s_send_aio == &tp.TXAIO && s_sends == 1, "the first message is being written, the second waits");
#if WHICHC == 1
		nni_aio_abort(&uaio_at(1), NNG_ECANCELED);
		kquiesce();
		CHECK(KDONE(1) && KRESULT(1) == NNG_ECANCELED, "cancelling a send that has not started completes it at once with ECANCELED");
		CHECK(nni_aio_get_msg(&uaio_at(1)) == m1 && env_msg_live == live0, "its message stays, untouched, with the caller");
		CHECK(!KDONE(0) && s_send_aio == &tp.TXAIO, "the transfer in progress is not disturbed");
		stream_done(&s_send_aio, HDRSZ + 2, 0);
		kquiesce();
		CHECK(KDONE(0) && KRESULT(0) == 0 && env_msg_live == live0 - 1, "which then completes normally");
		CHECK(s_send_aio == NULL, "and nothing of the cancelled message is ever written");
		WITNESS("queued send cancelled");
		nni_msg_free(m1);
#else
		nni_aio_abort(&uaio_at(0), NNG_ECANCELED);
		kquiesce();
		CHECK(KDONE(0) && KRESULT(0) == NNG_ECANCELED && env_aio_completed(&uaio_at(0)) == 1, "cancelling the send in progress aborts the transfer and completes the send once with ECANCELED");
		CHECK(nni_aio_get_msg(&uaio_at(0)) == m0 && env_msg_live == live0, "the message of a failed send stays with the caller (not freed by the transport)");
		CHECK(s_send_aio == NULL, "the write in progress has been aborted: the stream no longer refers to the caller's message once the send has completed");
		CHECK(!(KDONE(1) && KRESULT(1) == 0), "the send queued behind it is not reported successful (nothing of it was written)");
		WITNESS("send in progress cancelled");
		nni_msg_free(m0);
		/* (what happens to the send queued behind a failed one is not examined: no protocol keeps more than one send
		 * outstanding per pipe, and after a failed transfer the protocol closes the pipe) */
		nni_msg_free(m1);
#endif
	}
#elif MODE == 7
	{
		/* RX cancel: receive 0 is reading the length prefix, receive 1 waits behind it */
		kuaio_prepare(0, 1);
		kuaio_prepare(1, 1);
		env_aio_submit(&uaio_at(0));
		env_aio_submit(&uaio_at(1));
		int live0 = env_msg_live;
		F(pipe_recv)(&tp, &uaio_at(0));
		F(pipe_recv)(&tp, &uaio_at(1));
		CHECK(s_recv_aio == &tp.RXAIO && s_recvs == 1, "one read is in progress for the first receive");
#if WHICHC == 1
		nni_aio_abort(&uaio_at(1), NNG_ECANCELED);
		kquiesce();
		CHECK(KDONE(1) && KRESULT(1) == NNG_ECANCELED && !KDONE(0) && s_recv_aio == &tp.RXAIO, "cancelling a waiting receive completes only that one, at once");
		WITNESS("queued receive cancelled");
#else
		nni_aio_abort(&uaio_at(0), NNG_ECANCELED);
		kquiesce();
		CHECK(KDONE(0) && KRESULT(0) == NNG_ECANCELED && env_aio_completed(&uaio_at(0)) == 1, "cancelling the receive in progress aborts the read and completes the receive once with ECANCELED");
		CHECK(nni_aio_get_msg(&uaio_at(0)) == NULL, "no message is delivered by a cancelled receive");
		CHECK(s_recv_aio == NULL, "the read in progress has been aborted");
		WITNESS("receive in progress cancelled");
#endif
		CHECK(env_msg_live == live0, "no partially received message is leaked");
	}
#elif MODE == 2
	{
		kuaio_prepare(0, 1);
		env_aio_submit(&uaio_at(0));
		F(pipe_recv)(&tp, &uaio_at(0));
		CHECK(s_recv_aio == &tp.RXAIO && s_recv_aio->a_nio == 1 && s_recv_aio->a_iov[0].iov_buf == tp.RXHEAD && s_recv_aio->a_iov[0].iov_len == HDRSZ,
		    "a receive first asks for exactly the length prefix");
		size_t n = ND(usz);
		ASSUME(n >= 1 && n < HDRSZ);
		stream_done(&s_recv_aio, n, 0);
		CHECK(s_recv_aio == &tp.RXAIO && s_recv_aio->a_nio == 1 && s_recv_aio->a_iov[0].iov_buf == tp.RXHEAD + n && s_recv_aio->a_iov[0].iov_len == HDRSZ - n,
		    "a partial length prefix resumes right behind the bytes received");
		CHECK(!KDONE(0) && tp.RXMSG == NULL && env_msg_live == 0, "nothing is decided or allocated before the prefix is complete");
		WITNESS("partial header");
	}
#elif MODE == 3
	{
		kuaio_prepare(0, 1);
		env_aio_submit(&uaio_at(0));
		tp.RCVMAX = ND(usz);
		F(pipe_recv)(&tp, &uaio_at(0));
		u64 len = 0;
		for (int i = 0; i < HDRSZ; i++)
			tp.RXHEAD[i] = ND(u8);
		for (int i = HDRSZ - 8; i < HDRSZ; i++)
			len = (len << 8) | tp.RXHEAD[i];
		int bad_type = (HDRSZ == 9) && tp.RXHEAD[0] != 1;
		int invalid  = !nni_msg_size_valid(len);
		int toobig   = tp.RCVMAX > 0 && len > tp.RCVMAX;
		/* accepted lengths are small here (the model message carries <= 24 bytes) */
		ASSUME(bad_type || invalid || toobig || len <= 8);
		int allocs0 = env_msg_allocs;
		stream_done(&s_recv_aio, HDRSZ, 0);
		if (bad_type || invalid || toobig) {
			CHECK(KDONE(0) && KRESULT(0) != 0, "a frame that is oversize, invalid or of unknown type fails the receive");
			if (!bad_type)
				CHECK(KRESULT(0) == NNG_EMSGSIZE, "oversize / invalid length reports EMSGSIZE (the core then closes the pipe)");
			CHECK(env_msg_allocs == allocs0, "C11: nothing is allocated for a refused length");
			CHECK(s_recv_aio == NULL, "no payload is requested for a refused frame");
			if (toobig && !invalid && !bad_type)
				WITNESS("over RECVMAXSZ refused");
			if (bad_type)
				WITNESS("unknown frame type refused");
		} else if (len == 0) {
			CHECK(KDONE(0) && KRESULT(0) == 0 && nni_msg_len(nni_aio_get_msg(&uaio_at(0))) == 0, "an empty frame delivers an empty message");
			WITNESS("empty message");
		} else {
			CHECK(!KDONE(0), "a non-empty frame is not delivered before its payload arrived");
			CHECK(tp.RXMSG != NULL && nni_msg_len(tp.RXMSG) == len, "a message of exactly the announced length is allocated");
			CHECK(s_recv_aio == &tp.RXAIO && s_recv_aio->a_nio == 1 && s_recv_aio->a_iov[0].iov_len == len && s_recv_aio->a_iov[0].iov_buf == nni_msg_body(tp.RXMSG),
			    "exactly the announced number of payload bytes is requested into it");
			WITNESS("payload requested");
		}
	}
#elif MODE == 4
	{
		kuaio_prepare(0, 1);
		env_aio_submit(&uaio_at(0));
		F(pipe_recv)(&tp, &uaio_at(0));
		for (int i = 0; i < HDRSZ; i++)
			tp.RXHEAD[i] = 0;
#if HDRSZ == 9
		tp.RXHEAD[0] = 1;
#endif
		tp.RXHEAD[HDRSZ - 1] = BL;
		stream_done(&s_recv_aio, HDRSZ, 0);
		CHECK(s_recv_aio != NULL && s_recv_aio->a_iov[0].iov_len == BL, "payload requested");
		u8  wire[BL + 1];
		u8 *dst = s_recv_aio->a_iov[0].iov_buf;
		size_t n = NCUT;
		for (size_t i = 0; i < BL; i++)
			wire[i] = ND(u8);
		for (size_t i = 0; i < n; i++)
			dst[i] = wire[i];
		stream_done(&s_recv_aio, n, 0);
		if (n < BL) {
			CHECK(!KDONE(0), "a partial payload is not delivered");
			CHECK(s_recv_aio != NULL && s_recv_aio->a_iov[0].iov_buf == dst + n && s_recv_aio->a_iov[0].iov_len == BL - n, "a partial payload resumes right behind the bytes received");
			WITNESS("partial payload");
			for (size_t i = n; i < BL; i++)
				dst[i] = wire[i];
			stream_done(&s_recv_aio, BL - n, 0);
		}
		CHECK(KDONE(0) && KRESULT(0) == 0, "the receive completes when the payload is complete");
		nni_msg *m = nni_aio_get_msg(&uaio_at(0));
		CHECK(m != NULL && nni_msg_len(m) == BL, "the delivered message has the announced length");
		size_t j = ND(usz);
		ASSUME(j < BL);
		CHECK(((u8 *) nni_msg_body(m))[j] == wire[j], "the delivered bytes are exactly the bytes the stream carried, in order");
		CHECK(env_aio_completed(&uaio_at(0)) == 1 && tp.RXMSG == NULL, "delivered exactly once");
		CHECK(s_recv_aio == NULL, "no further read without a waiting receiver");
	}
#elif MODE == 9
	{
		/* C03 / C11: the peer dies (HOW 0: the stream fails with NNG_ECONNRESET) or the receive is aborted (HOW 1) in the
		 * MIDDLE of a message - length prefix read, message allocated, NCUT of BL payload bytes received - and the pipe is then
		 * torn down by the reaper (p_close, p_stop, p_fini): the half-received message is released exactly once */
		kuaio_prepare(0, 1);
		env_aio_submit(&uaio_at(0));
		int live0 = env_msg_live;
		F(pipe_recv)(&tp, &uaio_at(0));
		for (int i = 0; i < HDRSZ; i++)
			tp.RXHEAD[i] = 0;
#if HDRSZ == 9
		tp.RXHEAD[0] = 1;
#endif
		tp.RXHEAD[HDRSZ - 1] = BL;
		stream_done(&s_recv_aio, HDRSZ, 0);
		CHECK(s_recv_aio != NULL && tp.RXMSG != NULL && env_msg_live == live0 + 1, "the message for the announced payload is allocated and being filled");
#if NCUT > 0
		stream_done(&s_recv_aio, NCUT, 0);
		CHECK(!KDONE(0) && s_recv_aio != NULL, "a partial payload is not delivered");
#endif
#if HOW == 0
		stream_done(&s_recv_aio, 0, NNG_ECONNRESET);
		kquiesce();
		CHECK(KDONE(0) && KRESULT(0) == NNG_ECONNRESET && nni_aio_get_msg(&uaio_at(0)) == NULL, "C01: a message cut short by the peer's death is not delivered: the receive fails");
		WITNESS("peer died in the middle of a message");
#else
		nni_aio_abort(&uaio_at(0), NNG_ECANCELED);
		kquiesce();
		CHECK(KDONE(0) && KRESULT(0) == NNG_ECANCELED && nni_aio_get_msg(&uaio_at(0)) == NULL, "a receive aborted in the middle of a message delivers nothing");
		WITNESS("receive aborted in the middle of a message");
#endif
		CHECK(env_msg_live <= live0 + 1, "the half-received message is not duplicated");
		F(pipe_close)(&tp);
		kquiesce();
		F(pipe_stop)(&tp);
		F(pipe_fini)(&tp);
		CHECK(env_msg_live == live0, "C03: the half-received message has been released - exactly once (the message model reports a second release)");
	}
#elif MODE == 5
	{
		nni_aio user;
		nni_aio_init(&user, NULL, NULL);
		env_aio_submit(&user);
		ep.useraio = &user;
		nni_list_append(&ep.negopipes, &tp);
		tp.WANTTX = 8;
		tp.GOTTX  = 8;
		tp.WANTRX = 8;
		size_t got = ND(usz), n = ND(usz);
		ASSUME(got < 8 && n >= 1 && n <= 8 - got);
		tp.GOTRX = got;
		for (int i = 0; i < 8; i++)
			tp.RXHEAD[i] = ND(u8);
		tp.NEGOAIO.a_result = 0;
		tp.NEGOAIO.a_count  = n;
		F(pipe_nego_cb)(&tp);
		if (got + n < 8) {
			CHECK(s_recv_aio == &tp.NEGOAIO && s_recv_aio->a_iov[0].iov_buf == &tp.RXHEAD[got + n] && s_recv_aio->a_iov[0].iov_len == 8 - got - n,
			    "a partial handshake resumes right behind the bytes received");
			CHECK(nni_list_active(&ep.negopipes, &tp) && ep.useraio == &user && np.close_calls == 0, "no verdict before the handshake is complete");
			WITNESS("partial handshake");
		} else {
			int ok = tp.RXHEAD[0] == 0 && tp.RXHEAD[1] == 'S' && tp.RXHEAD[2] == 'P' && tp.RXHEAD[3] == 0 && tp.RXHEAD[6] == 0 && tp.RXHEAD[7] == 0;
			if (ok) {
				CHECK(tp.peer == (u16) ((tp.RXHEAD[4] << 8) | tp.RXHEAD[5]), "peer protocol id taken from the handshake");
				CHECK(!nni_list_active(&ep.negopipes, &tp) && np.close_calls == 0, "a valid handshake promotes the connection");
				CHECK(env_aio_completed(&user) == 1 && nni_aio_result(&user) == 0 && nni_aio_get_output(&user, 0) == &np, "the pending accept/dial completes with the new pipe");
				WITNESS("handshake accepted");
			} else {
				CHECK(np.close_calls == 1 && pipe_released == 1 && s_closed >= 1, "C11: a malformed handshake drops exactly that connection, once");
				CHECK(nni_list_first(&ep.waitpipes) == NULL, "it is never offered to the socket");
#if TRAN != 1
				CHECK(!nni_list_active(&ep.negopipes, &tp), "it is removed from the negotiating set");
#endif
				CHECK(env_aio_completed(&user) == 1 && nni_aio_result(&user) == NNG_EPROTO, "the pending accept/dial fails with EPROTO");
				WITNESS("handshake refused");
			}
		}
	}
#endif
	CHECK(env_locks_held == 0, "no lock held");
	WITNESS("end");
}

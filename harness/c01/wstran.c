/* C01 / C03: the SP websocket transport's pipe operations, the real sp/transport/ws/websocket.c
 * (wstran_pipe_init/send/recv/send_cb/recv_cb/send_cancel/recv_cancel/close/stop/fini) over a stub message-mode
 * websocket stream that follows ws_str_send / ws_str_recv: a successful send consumes the message, a failed or
 * cancelled one leaves it on the aio it was given.
 *   CASE 1 send completes        2 send fails (transport error)      3 send cancelled by the protocol
 *        4 receive completes     5 receive fails                     6 receive cancelled, the message arrives later
 * checked: the user operation completes exactly once with the stream's result; a message goes to the peer or back to
 * the caller or is released exactly once - after teardown nothing is left allocated (no message is lost to a failed
 * or cancelled send); a received message reaches the waiting receiver unchanged, or is freed if nobody waits any more. */
#include "proto_kit.h"
#include "sp/transport/ws/websocket.c"
static nni_aio *s_send, *s_recv;
static int      s_closed, s_stopped, s_freed;
static void
s_send_cancel(nni_aio *aio, void *arg, nng_err rv)
{
	(void) arg;
	if (s_send == aio) {
		s_send = NULL;
		nni_aio_finish_error(aio, rv); /* the message stays on the aio (ws_write_cancel) */
	}
}
static void
s_recv_cancel(nni_aio *aio, void *arg, nng_err rv)
{
	(void) arg;
	if (s_recv == aio) {
		s_recv = NULL;
		nni_aio_finish_error(aio, rv);
	}
}
void
nng_stream_send(nng_stream *s, nni_aio *aio)
{
	(void) s;
	nni_aio_reset(aio);
	CHECK(nni_aio_get_msg(aio) != NULL, "a message-mode send carries a message");
	if (!nni_aio_start(aio, s_send_cancel, NULL))
		return;
	s_send = aio;
}
void
nng_stream_recv(nng_stream *s, nni_aio *aio)
{
	(void) s;
	nni_aio_reset(aio);
	if (!nni_aio_start(aio, s_recv_cancel, NULL))
		return;
	s_recv = aio;
}
void
nng_stream_close(nng_stream *s)
{
	(void) s;
	s_closed++;
}
void
nng_stream_stop(nng_stream *s)
{
	(void) s;
	s_stopped++;
}
void
nng_stream_free(nng_stream *s)
{
	(void) s;
	s_freed++;
}
#ifndef CASE
#define CASE 1
#endif
static ws_pipe    P;
static nng_stream STRM;
void
harness(void)
{
	static const ws_pipe z;
	nni_aio              u;
	P = z;
	env_pipe_init(&kpipe[0], 100, 0x10);
	CHECK(wstran_pipe_init(&P, &kpipe[0]) == 0, "pipe_init");
	P.ws = &STRM;
	nni_aio_init(&u, NULL, NULL);
	nni_aio_set_timeout(&u, NNG_DURATION_INFINITE);
	int live0 = env_msg_live;
#if CASE <= 3
	nni_msg *m = kmsg(2);
	u8       b0 = ((u8 *) nni_msg_body(m))[0], b1 = ((u8 *) nni_msg_body(m))[1];
	nni_aio_set_msg(&u, m);
	env_aio_submit(&u);
	wstran_pipe_send(&P, &u);
	kquiesce();
	CHECK(s_send == &P.txaio && nni_aio_get_msg(&P.txaio) == m, "the message is handed to the websocket stream");
	CHECK(((u8 *) nni_msg_body(m))[0] == b0 && ((u8 *) nni_msg_body(m))[1] == b1 && nni_msg_len(m) == 2, "unchanged");
	CHECK(env_aio_completed(&u) == 0, "the send is pending until the stream is done with it");
#if CASE == 1
	{
		nni_aio *a = s_send;
		s_send     = NULL;
		nni_aio_set_msg(a, NULL);
		nni_msg_free(m); /* ws_write_cb: successful send, don't leak the message */
		nni_aio_finish(a, 0, 2);
	}
	kquiesce();
	CHECK(env_aio_completed(&u) == 1 && nni_aio_result(&u) == 0, "a completed transfer completes the user's send once, with success");
	WITNESS("sent");
#elif CASE == 2
	{
		nni_aio *a = s_send;
		s_send     = NULL;
		nni_aio_finish_error(a, NNG_ECONNRESET); /* the stream failed: the message is still on the aio it was given */
	}
	kquiesce();
	CHECK(env_aio_completed(&u) == 1 && nni_aio_result(&u) == NNG_ECONNRESET, "a failed transfer fails the user's send once, with the stream's error");
	WITNESS("send failed");
#else
	nni_aio_abort(&u, NNG_ECANCELED);
	kquiesce();
	CHECK(env_aio_completed(&u) == 1 && nni_aio_result(&u) == NNG_ECANCELED, "cancelling the send completes it once with ECANCELED");
	CHECK(s_send == NULL, "and cancels the transfer on the stream");
	WITNESS("send cancelled");
#endif
#if CASE != 1
	/* the caller of a failed send frees the message if it was given back to it */
	if (nni_aio_get_msg(&u) != NULL) {
		CHECK(nni_aio_get_msg(&u) == m, "what comes back is the caller's message");
		nni_msg_free(m);
		nni_aio_set_msg(&u, NULL);
	}
#endif
#else
	env_aio_submit(&u);
	wstran_pipe_recv(&P, &u);
	kquiesce();
	CHECK(s_recv == &P.rxaio && env_aio_completed(&u) == 0, "a receive is posted on the websocket stream and waits");
	nni_msg *m = kmsg(2);
	u8       b0 = ((u8 *) nni_msg_body(m))[0], b1 = ((u8 *) nni_msg_body(m))[1];
#if CASE == 4
	{
		nni_aio *a = s_recv;
		s_recv     = NULL;
		nni_aio_finish_msg(a, m);
	}
	kquiesce();
	CHECK(env_aio_completed(&u) == 1 && nni_aio_result(&u) == 0 && nni_aio_get_msg(&u) == m, "the received message completes the waiting receive");
	CHECK(nni_msg_len(m) == 2 && ((u8 *) nni_msg_body(m))[0] == b0 && ((u8 *) nni_msg_body(m))[1] == b1, "unchanged");
	nni_msg_free(m);
	WITNESS("received");
#elif CASE == 5
	{
		nni_aio *a = s_recv;
		s_recv     = NULL;
		nni_aio_finish_error(a, NNG_ECONNSHUT);
	}
	kquiesce();
	CHECK(env_aio_completed(&u) == 1 && nni_aio_result(&u) == NNG_ECONNSHUT && nni_aio_get_msg(&u) == NULL, "a failed receive fails the user's receive once");
	nni_msg_free(m);
	WITNESS("receive failed");
#else
	nni_aio_abort(&u, NNG_ECANCELED);
	kquiesce();
	CHECK(env_aio_completed(&u) == 1 && nni_aio_result(&u) == NNG_ECANCELED, "cancelling the receive completes it once with ECANCELED");
	CHECK(s_recv == NULL, "and cancels the read on the stream");
	nni_msg_free(m);
	WITNESS("receive cancelled");
#endif
#endif
	wstran_pipe_close(&P);
	kquiesce();
	wstran_pipe_stop(&P);
	wstran_pipe_fini(&P);
	CHECK(s_closed == 1 && s_stopped == 1 && s_freed == 1, "teardown closes, stops and frees the stream once each");
	CHECK(env_msg_live == live0, "every message went to the peer, back to the caller, or was released exactly once: nothing is leaked by a failed or cancelled operation");
	CHECK(env_locks_held == 0, "no lock held");
	WITNESS("end");
}

/* C01: partial readv / sendmsg completion reporting in the platform stream code: tcp_dowrite / tcp_doread of the real
 * platform/posix/posix_tcpconn.c (WHICH 0), ipc_dowrite / ipc_doread of posix_ipcconn.c (1), sfd_dowrite / sfd_doread
 * of posix_sockfd.c (2).  Two operations are queued on the connection; the first has NIO buffers of the concrete
 * lengths LENS (zero-length buffers allowed), the system call is a stub whose outcome class is RET:
 *   1  transfers n bytes, ANY n in 1..total (partial transfers included)     2  EAGAIN     3  EINTR then n bytes
 *   4  another error (ECONNRESET)                                            5  (read only) 0 = end of stream
 * checked: the kernel is handed exactly the non-empty buffers, in order, with their addresses and lengths (nothing
 * skipped, repeated or reordered); a transfer of n bytes completes the operation once with count n (the transport
 * resubmits the remainder) and the next queued operation gets its turn; EAGAIN completes nothing and keeps the queue;
 * EINTR retries; an error fails only the head operation, with the mapped code; end of stream is NNG_ECONNSHUT; a closed
 * connection touches nothing. */
#include "env_aio.h"
#include <errno.h>
#include <sys/socket.h>
#include <sys/uio.h>
#include <string.h>
extern int env_locks_held;
static int h_errno_;
#undef errno
#define errno h_errno_
#ifndef RET
#define RET 1
#endif
#ifndef DIR
#define DIR 0 /* 0 write, 1 read */
#endif
#ifndef LENS
#define LENS 3, 0, 2
#endif
static const size_t lens[] = { LENS };
#define NIO ((int) (sizeof(lens) / sizeof(lens[0])))
static int          calls;
static struct iovec seen_iov[8];
static int          seen_n;
static long         ret_n;
static long
h_sys(const struct iovec *iov, int n)
{
	calls++;
	if (calls == 1 || (RET == 3 && calls == 2)) {
		seen_n = n;
		for (int i = 0; i < 8; i++)
			if (i < n)
				seen_iov[i] = iov[i];
	}
#if RET == 1
	if (calls == 1)
		return ret_n;
	h_errno_ = EAGAIN;
	return -1;
#elif RET == 2
	h_errno_ = EAGAIN;
	return -1;
#elif RET == 3
	if (calls == 1) {
		h_errno_ = EINTR;
		return -1;
	}
	if (calls == 2) {
		h_errno_ = 0; /* (keeps the infeasible "n < 0" branch of the symbolic count from looping on the stale EINTR) */
		return ret_n;
	}
	h_errno_ = EAGAIN;
	return -1;
#elif RET == 4
	h_errno_ = ECONNRESET;
	return -1;
#else
	if (calls == 1)
		return 0;
	h_errno_ = EAGAIN;
	return -1;
#endif
}
static long
h_sendmsg(int fd, const struct msghdr *h, int fl)
{
	(void) fd;
	(void) fl;
	return h_sys(h->msg_iov, (int) h->msg_iovlen);
}
static long
h_rwv(int fd, const struct iovec *iov, int n)
{
	(void) fd;
	return h_sys(iov, n);
}
#define sendmsg(fd, h, fl) h_sendmsg((fd), (h), (fl))
#define readv(fd, iov, n) h_rwv((fd), (iov), (n))
#define writev(fd, iov, n) h_rwv((fd), (iov), (n))
#if WHICH == 0
#include "platform/posix/posix_tcpconn.c"
typedef nni_tcp_conn conn_t;
#define DOWRITE tcp_dowrite
#define DOREAD tcp_doread
#elif WHICH == 1
#include "platform/posix/posix_ipcconn.c"
typedef ipc_conn conn_t;
#define DOWRITE ipc_dowrite
#define DOREAD ipc_doread
#else
#include "platform/posix/posix_sockfd.c"
typedef nni_sfd_conn conn_t;
#define DOWRITE sfd_dowrite
#define DOREAD sfd_doread
#endif
int
nni_posix_pfd_fd(nni_posix_pfd *p)
{
	(void) p;
	return 3;
}
/* platform/posix/posix_debug.c maps errno values through a table; the two the stub kernel produces */
int
nni_plat_errno(int e)
{
	return e == ECONNRESET ? NNG_ECONNRESET : e == EPIPE ? NNG_ECLOSED : NNG_ESYSERR + e;
}
static conn_t  C;
static nni_aio a1, a2;
static u8      b1[16], b2[4];
static void
op_cancel(nni_aio *aio, void *arg, nng_err rv)
{
	(void) arg;
	nni_aio_list_remove(aio);
	nni_aio_finish_error(aio, rv);
}
void
harness(void)
{
	static const conn_t z;
	C = z;
	nni_mtx_init(&C.mtx);
	nni_aio_list_init(&C.readq);
	nni_aio_list_init(&C.writeq);
	nni_list *q = DIR ? &C.readq : &C.writeq;
	nni_iov   iov[4];
	size_t    total = 0, off = 0;
	int       nonempty = 0;
	for (int i = 0; i < NIO; i++) {
		iov[i].iov_buf = &b1[off];
		iov[i].iov_len = lens[i];
		off += lens[i];
		total += lens[i];
		if (lens[i])
			nonempty++;
	}
	nni_aio_init(&a1, NULL, NULL);
	nni_aio_init(&a2, NULL, NULL);
	nni_aio_set_iov(&a1, NIO, iov);
	nni_iov iov2;
	iov2.iov_buf = b2;
	iov2.iov_len = 4;
	nni_aio_set_iov(&a2, 1, &iov2);
	env_aio_submit(&a1);
	env_aio_submit(&a2);
	nni_aio_reset(&a1);
	nni_aio_reset(&a2);
	CHECK(nni_aio_start(&a1, op_cancel, &C) && nni_aio_start(&a2, op_cancel, &C), "operations started");
	nni_aio_list_append(q, &a1);
	nni_aio_list_append(q, &a2);
	ret_n = (long) ND(u32);
	ASSUME(ret_n >= 1 && (size_t) ret_n <= total);
#ifdef CLOSED
	C.closed = true;
#endif
	nni_mtx_lock(&C.mtx);
	if (DIR)
		DOREAD(&C);
	else
		DOWRITE(&C);
	nni_mtx_unlock(&C.mtx);
#ifdef CLOSED
	CHECK(calls == 0 && env_aio_completed(&a1) == 0 && env_aio_completed(&a2) == 0, "a closed connection issues no system call and completes nothing here");
	WITNESS("closed");
	WITNESS("end");
	return;
#endif
	CHECK(calls >= 1, "the kernel is asked");
	CHECK(seen_n == nonempty, "exactly the non-empty buffers are handed to the kernel");
	{
		int k = 0;
		size_t o = 0;
		for (int i = 0; i < NIO; i++) {
			if (lens[i]) {
				CHECK(seen_iov[k].iov_base == (void *) &b1[o] && seen_iov[k].iov_len == lens[i], "in order, with their own addresses and lengths");
				k++;
			}
			o += lens[i];
		}
	}
#if RET == 1 || RET == 3
	CHECK(env_aio_completed(&a1) == 1 && nni_aio_result(&a1) == 0, "a transfer completes the operation once");
	CHECK(nni_aio_count(&a1) == (size_t) ret_n, "reporting exactly the number of bytes the kernel transferred (the transport resubmits the rest)");
	CHECK(!nni_aio_list_active(&a1), "and takes it off the queue");
	CHECK(calls == (RET == 3 ? 3 : 2), "an interrupted call is retried; then the next queued operation gets its turn");
	CHECK(env_aio_completed(&a2) == 0 && nni_list_first(q) == &a2, "which stays queued when the kernel would block");
	WITNESS("transferred");
#elif RET == 2
	CHECK(env_aio_completed(&a1) == 0 && env_aio_completed(&a2) == 0 && nni_list_first(q) == &a1, "EAGAIN completes nothing and keeps the queue as it is");
	CHECK(calls == 1, "and is not retried in a loop (the poller will call again)");
	WITNESS("would block");
#elif RET == 4
	CHECK(env_aio_completed(&a1) == 1 && nni_aio_result(&a1) == NNG_ECONNRESET && nni_aio_count(&a1) == 0, "an error fails the head operation with the mapped code");
	CHECK(env_aio_completed(&a2) == 0 && nni_list_first(q) == &a2, "and only that one");
	WITNESS("failed");
#else
	CHECK(env_aio_completed(&a1) == 1 && nni_aio_result(&a1) == NNG_ECONNSHUT, "end of stream fails the read with NNG_ECONNSHUT");
	WITNESS("end of stream");
#endif
	CHECK(env_locks_held == 0, "no lock held");
	WITNESS("end");
}

/* C02: the expiry thread of the REAL core/aio.c with several timed operations, more of them
 * falling due in one scan than one batch holds (built with -DNNI_EXPIRE_BATCH=2, defs.h lets
 * the batch size be configured; the loop is parametric in it).
 *
 * NA (2..4) aios are submitted to a list-based provider with concrete timeouts T0..T3 (ms;
 * -1 = infinite).  The expiry thread is then run from clock = submit time + ADV until it goes
 * to sleep with nothing left to wait for; whenever it sleeps until a finite instant the clock
 * jumps to just after that instant (nobody else wakes it up: no later operation is submitted).
 * checked:
 *   - every operation with a finite timeout is completed by the expiry thread itself, exactly
 *     once, with NNG_ETIMEDOUT, and never before its own deadline;
 *   - the expiry thread never goes to sleep for ever (or past the deadline) while an
 *     operation on its list is overdue - "completes exactly once" includes "is not lost";
 *   - an operation with an infinite timeout is left alone;
 *   - afterwards the expiry list is empty and no hold (a_expiring) is left.
 */
#include "vh.h"
#include "core/aio.c"
extern int env_locks_held;
#ifndef NA
#define NA 3
#endif
#ifndef T0
#define T0 100
#endif
#ifndef T1
#define T1 100
#endif
#ifndef T2
#define T2 100
#endif
#ifndef T3
#define T3 100
#endif
#ifndef ADV
#define ADV 150
#endif

static nni_time now_ = 1000;
nni_time
nni_clock(void)
{
	return now_;
}
uint32_t
nni_random(void)
{
	return 0;
}
int
nni_thr_init(nni_thr *t, nni_thr_func f, void *a)
{
	(void) t;
	(void) f;
	(void) a;
	return 0;
}
void
nni_thr_run(nni_thr *t)
{
	(void) t;
}
void
nni_thr_fini(nni_thr *t)
{
	(void) t;
}
void
nni_thr_set_name(nni_thr *t, const char *n)
{
	(void) t;
	(void) n;
}
void
nni_reap(nni_reap_list *l, void *i)
{
	(void) l;
	(void) i;
}

static nni_aio  A[4];
static int      queued[4];   /* at the provider */
static int      cb_pending[4], cb_runs[4];
static nng_err  cb_result[4];
static nni_time deadline[4]; /* (nni_time)-1: none */
static int      early, overslept;

static int
idx_of_task(nni_task *t)
{
	for (int i = 0; i < NA; i++)
		if (t == &A[i].a_task)
			return i;
	return 0;
}
void
nni_task_init(nni_task *t, nni_taskq *q, nni_cb cb, void *arg)
{
	(void) q;
	t->task_cb   = cb;
	t->task_arg  = arg;
	t->task_busy = 0;
	t->task_prep = false;
}
void
nni_task_fini(nni_task *t)
{
	(void) t;
}
void
nni_task_prep(nni_task *t)
{
	t->task_busy++;
	t->task_prep = true;
}
void
nni_task_dispatch(nni_task *t)
{
	if (t->task_prep)
		t->task_prep = false;
	else
		t->task_busy++;
	cb_pending[idx_of_task(t)]++;
}
void
nni_task_exec(nni_task *t)
{
	nni_task_dispatch(t);
}
bool
nni_task_busy(nni_task *t)
{
	return t->task_busy != 0;
}
void
nni_task_wait(nni_task *t)
{
	(void) t;
}

static void
the_callback(void *arg)
{
	(void) arg;
}
static void
prov_cancel(nni_aio *aio, void *arg, nng_err rv)
{
	int i = (int) (intptr_t) arg;
	if (queued[i]) {
		queued[i] = 0;
		if (rv == NNG_ETIMEDOUT && !(deadline[i] != (nni_time) -1 && now_ >= deadline[i]))
			early = 1;
		nni_aio_finish_error(aio, rv);
	}
}

static nni_aio_expire_q *EQ;
static int               sleeps;
int
nni_cv_until(nni_cv *cv, nni_time when)
{
	/* the expiry thread goes to sleep until `when`; nobody wakes it earlier */
	(void) cv;
	sleeps++;
	/* an operation still on the list whose deadline lies before the wake-up time would be served late or never */
	nni_aio *a;
	NNI_LIST_FOREACH (&EQ->eq_list, a) {
		if (a->a_expire < when)
			overslept = 1;
	}
	if (when != NNI_TIME_NEVER && now_ <= when && sleeps < 8) {
		now_ = when + 1;
	} else {
		/* sleeping for ever: the run ends here.  (If something is still listed the verdict is already
		 * `overslept`; unlist it so that the thread function can return.) */
		while ((a = nni_list_first(&EQ->eq_list)) != NULL)
			nni_list_remove(&EQ->eq_list, a);
		EQ->eq_exit = true;
	}
	return NNG_ETIMEDOUT;
}

#ifdef COMPL
/* C02 (+C05/C07/C09 fan-out): the completion list of the real core/aio.c (nni_aio_completions_init / _add / _run): a
 * provider that completes several operations from one event (SUB delivering one message to every waiting context, a
 * survey answered to several receivers, ...) collects them under its lock and completes them after releasing it.
 * COMPL (2..4) started operations are taken over by the list with symbolic results and counts: every one of them is
 * completed exactly once, each with its own result and count; the list is empty afterwards and can be used again. */
void
harness(void)
{
	nng_init_params prm;
	memset(&prm, 0, sizeof(prm));
	prm.num_expire_threads = 1;
	CHECK(nni_aio_sys_init(&prm) == NNG_OK, "aio_sys_init");
	EQ = nni_aio_expire_q_list[0];
	nni_aio_completions cl;
	nng_err             res[4];
	size_t              cnt[4];
	nni_aio_completions_init(&cl);
	for (int i = 0; i < COMPL; i++) {
		nni_aio_init(&A[i], the_callback, NULL);
		nni_aio_set_timeout(&A[i], NNG_DURATION_INFINITE);
		nni_aio_reset(&A[i]);
		CHECK(nni_aio_start(&A[i], prov_cancel, (void *) (intptr_t) i), "operation started");
		res[i] = ND(vbool) ? NNG_OK : NNG_ECONNRESET;
		cnt[i] = ND(usz);
		nni_aio_completions_add(&cl, &A[i], res[i], cnt[i]);
	}
	nni_aio_completions_run(&cl);
	CHECK(cl == NULL, "the completion list is empty after it has been run");
	for (int i = 0; i < COMPL; i++) {
		CHECK(cb_pending[i] == 1, "C02: every operation handed to a completion list is completed exactly once - none is forgotten, whatever its position in the list");
		CHECK(nni_aio_result(&A[i]) == res[i] && nni_aio_count(&A[i]) == cnt[i], "each with its own result and count");
	}
	nni_aio_completions_run(&cl);
	for (int i = 0; i < COMPL; i++)
		CHECK(cb_pending[i] == 1, "running an empty list completes nothing again");
	CHECK(env_locks_held == 0, "no lock held");
	WITNESS("end");
}
#else
void
harness(void)
{
	static const nng_duration tmo[4] = { T0, T1, T2, T3 };
	nng_init_params           prm;
	memset(&prm, 0, sizeof(prm));
	prm.num_expire_threads = 1;
	CHECK(nni_aio_sys_init(&prm) == NNG_OK, "aio_sys_init");
	EQ = nni_aio_expire_q_list[0];
	for (int i = 0; i < NA; i++) {
		nni_aio_init(&A[i], the_callback, NULL);
		nni_aio_set_timeout(&A[i], tmo[i] < 0 ? NNG_DURATION_INFINITE : tmo[i]);
		nni_aio_reset(&A[i]);
		deadline[i] = tmo[i] < 0 ? (nni_time) -1 : now_ + (nni_time) tmo[i];
		CHECK(nni_aio_start(&A[i], prov_cancel, (void *) (intptr_t) i), "a timed operation with a future deadline starts");
		queued[i] = 1;
	}
	now_ += ADV;
	nni_aio_expire_loop(EQ);
	CHECK(!overslept, "the expiry thread never sleeps past (or for ever on) an operation that is due: no timed operation is lost, also when more fall due at once than one batch holds");
	CHECK(!early, "the expiry thread never cancels an operation before its own deadline");
	for (int i = 0; i < NA; i++) {
		if (tmo[i] < 0) {
			CHECK(queued[i] && cb_pending[i] == 0, "an operation without a deadline is left alone by the expiry thread");
		} else {
			CHECK(!queued[i] && cb_pending[i] == 1, "every operation whose deadline passed is completed by the expiry thread exactly once");
			CHECK(nni_aio_result(&A[i]) == NNG_ETIMEDOUT, "an expired operation reports NNG_ETIMEDOUT");
		}
		CHECK(!A[i].a_expiring, "no expiry hold is left on an aio");
		CHECK(nni_list_node_active(&A[i].a_expire_node) == 0, "a completed operation is not left on the expiry list");
	}
	CHECK(env_locks_held == 0, "no lock held");
	if (sleeps > 1)
		WITNESS("expiry thread slept and woke for a later deadline");
	WITNESS("end");
}
#endif

/* C02 / C10: the TCP stream dialer of the real core/tcp.c (tcp_dialer_dial, tcp_dial_start_next, tcp_dial_res_cb,
 * tcp_dial_con_cb, tcp_dial_cancel, tcp_dialer_close, tcp_dialer_free): several dial operations queued on one dialer,
 * served one at a time by a name lookup followed by a connect.  The resolver and the platform connect are stubs that
 * record the request; the skeleton completes them.
 * events (SKEL):
 *   D(i)    nng_stream_dialer_dial with user aio i         RS(ok)  the name lookup finishes (ok: 1 address found, 0 fails)
 *   CN(ok)  the connect finishes (1 connected, 0 refused)  X(i)    user aio i is cancelled (nng_aio_cancel / timeout)
 *   CL      nng_stream_dialer_close                        CNX(i)  the connect succeeds and dial i is cancelled before the dialer's callback has run
 * checked after every event:
 *   - every dial completes at most once; a dial whose lookup / connect failed reports that error, a successful one gets
 *     the new stream, a cancelled one the cancel code, one pending at close NNG_ECLOSED;
 *   - dials are served in the order they were issued;
 *   - PROGRESS: while the dialer is open and a dial is waiting, a lookup or a connect is in progress (nothing can
 *     complete a waiting dial otherwise: it would stay pending for ever) - after a success AND after a failure;
 *   - never two lookups / connects at once;
 *   - a connection that arrives when nobody waits for it any more is closed and released, not leaked;
 * at the end: close completes everything, free stops both internal operations, all memory returned. */
#include "proto_kit.h"
#include "core/tcp.c"

static nni_aio *res_aio, *con_aio;
static int      res_calls, con_calls, pd_closed, pd_stopped, pd_fini;
static int      streams_made, streams_freed, streams_closed;
static struct nng_stream stream_pool[4];

static void
res_cancel(nni_aio *aio, void *arg, nng_err rv)
{
	(void) arg;
	if (res_aio == aio) {
		res_aio = NULL;
		nni_aio_finish_error(aio, rv);
	}
}
static void
con_cancel(nni_aio *aio, void *arg, nng_err rv)
{
	(void) arg;
	if (con_aio == aio) {
		con_aio = NULL;
		nni_aio_finish_error(aio, rv);
	}
}
void
nni_resolv(nni_resolv_item *item, nni_aio *aio)
{
	(void) item;
	CHECK(res_aio == NULL && con_aio == NULL, "one lookup / connect at a time per dialer");
	nni_aio_reset(aio);
	if (!nni_aio_start(aio, res_cancel, NULL))
		return;
	res_aio = aio;
	res_calls++;
}
void
nni_tcp_dial(nni_tcp_dialer *pd, const nni_sockaddr *sa, nni_aio *aio)
{
	(void) pd;
	(void) sa;
	CHECK(res_aio == NULL && con_aio == NULL, "one lookup / connect at a time per dialer");
	nni_aio_reset(aio);
	if (!nni_aio_start(aio, con_cancel, NULL))
		return;
	con_aio = aio;
	con_calls++;
}
struct nni_tcp_dialer {
	int x;
};
static struct nni_tcp_dialer the_pd;
int
nni_tcp_dialer_init(nni_tcp_dialer **dp)
{
	*dp = &the_pd;
	return NNG_OK;
}
void
nni_tcp_dialer_close(nni_tcp_dialer *d)
{
	(void) d;
	pd_closed++;
	/* the platform dialer aborts the connect in progress */
	if (con_aio != NULL) {
		nni_aio *a = con_aio;
		con_aio    = NULL;
		nni_aio_finish_error(a, NNG_ECLOSED);
	}
}
void
nni_tcp_dialer_stop(nni_tcp_dialer *d)
{
	(void) d;
	pd_stopped++;
}
void
nni_tcp_dialer_fini(nni_tcp_dialer *d)
{
	(void) d;
	pd_fini++;
}
int
nni_tcp_dialer_get(nni_tcp_dialer *d, const char *n, void *b, size_t *s, nni_type t)
{
	(void) d, (void) n, (void) b, (void) s, (void) t;
	return NNG_ENOTSUP;
}
int
nni_tcp_dialer_set(nni_tcp_dialer *d, const char *n, const void *b, size_t s, nni_type t)
{
	(void) d, (void) n, (void) b, (void) s, (void) t;
	return NNG_ENOTSUP;
}
void
nng_stream_close(nng_stream *s)
{
	if (s != NULL)
		streams_closed++;
}
void
nng_stream_stop(nng_stream *s)
{
	(void) s;
}
void
nng_stream_free(nng_stream *s)
{
	if (s != NULL)
		streams_freed++;
}
/* not exercised: listener side and option plumbing of core/tcp.c */
int
nni_tcp_listener_init(nni_tcp_listener **lp)
{
	(void) lp;
	return NNG_ENOTSUP;
}
void nni_tcp_listener_close(nni_tcp_listener *l) { (void) l; }
void nni_tcp_listener_stop(nni_tcp_listener *l) { (void) l; }
void nni_tcp_listener_fini(nni_tcp_listener *l) { (void) l; }
int nni_tcp_listener_listen(nni_tcp_listener *l, const nni_sockaddr *sa) { (void) l, (void) sa; return NNG_ENOTSUP; }
void nni_tcp_listener_accept(nni_tcp_listener *l, nni_aio *aio) { (void) l, (void) aio; }
int nni_tcp_listener_get(nni_tcp_listener *l, const char *n, void *b, size_t *s, nni_type t) { (void) l, (void) n, (void) b, (void) s, (void) t; return NNG_ENOTSUP; }
int nni_tcp_listener_set(nni_tcp_listener *l, const char *n, const void *b, size_t s, nni_type t) { (void) l, (void) n, (void) b, (void) s, (void) t; return NNG_ENOTSUP; }

static tcp_dialer *D;
static int         closed;
static int         expect_done[MAXU];
static nng_err     expect_rv[MAXU];
static int         order[MAXU], norder; /* dials in issue order */
static int         handed[MAXU];        /* stream index + 1 handed to dial i */

static int
first_waiting(void)
{
	for (int k = 0; k < norder; k++)
		if (!expect_done[order[k]])
			return order[k];
	return -1;
}
static void
monitor(void)
{
	kquiesce();
	int waiting = 0;
	for (int i = 0; i < MAXU; i++) {
		if (!uaio_used[i])
			continue;
		CHECK(env_aio_completed(&uaio_at(i)) <= 1, "C02: a dial completes at most once");
		if (expect_done[i]) {
			CHECK(KDONE(i), "C02: a dial whose lookup / connect finished, that was cancelled or whose dialer closed has completed");
			CHECK(KRESULT(i) == expect_rv[i], "C02: with the result of exactly that event (error of the lookup / connect, 0, the cancel code, NNG_ECLOSED)");
			if (expect_rv[i] == 0)
				CHECK(handed[i] && nni_aio_get_output(&uaio_at(i), 0) == &stream_pool[handed[i] - 1], "a successful dial gets the new connection");
		} else {
			CHECK(!KDONE(i), "a dial that nothing has decided yet stays pending");
			waiting++;
		}
	}
	if (!closed && waiting > 0) {
		CHECK(res_aio != NULL || con_aio != NULL,
		    "C02: while a dial is waiting on an open dialer a lookup or a connect is in progress - otherwise nothing will ever complete it");
		WITNESS("dial waiting, work in progress");
	}
	CHECK(!(res_aio != NULL && con_aio != NULL), "never a lookup and a connect at once");
	CHECK(streams_closed == streams_freed && streams_freed <= streams_made, "a connection nobody waits for is closed and released exactly once");
}
static void
ev_dial(int i)
{
	KNEED(!uaio_used[i]);
	if (kstop)
		return;
	kuaio_prepare(i, 1);
	env_aio_submit(&uaio_at(i));
	order[norder++] = i;
	if (closed) {
		expect_done[i] = 1;
		expect_rv[i]   = NNG_ECLOSED;
	}
	tcp_dialer_dial(D, &uaio_at(i));
	monitor();
}
static void
ev_resolved(int ok)
{
	KNEED(res_aio != NULL);
	if (kstop)
		return;
	nni_aio *a = res_aio;
	res_aio    = NULL;
	int w      = first_waiting();
	if (!ok && w >= 0 && !closed) {
		expect_done[w] = 1;
		expect_rv[w]   = NNG_EADDRINVAL;
	}
	nni_aio_finish(a, ok ? 0 : NNG_EADDRINVAL, 0);
	monitor();
	if (ok && w >= 0 && !closed)
		CHECK(con_aio != NULL, "a successful lookup is followed by the connect");
}
static void
ev_connected(int ok)
{
	KNEED(con_aio != NULL);
	if (kstop)
		return;
	nni_aio *a = con_aio;
	con_aio    = NULL;
	int w      = first_waiting();
	int sidx   = -1;
	if (ok) {
		sidx = streams_made++;
		nni_aio_set_output(a, 0, &stream_pool[sidx & 3]);
	}
	if (w >= 0 && !closed) {
		expect_done[w] = 1;
		expect_rv[w]   = ok ? 0 : NNG_ECONNREFUSED;
		if (ok)
			handed[w] = (sidx & 3) + 1;
	}
	nni_aio_finish(a, ok ? 0 : NNG_ECONNREFUSED, 0);
	monitor();
	if (ok && (w < 0 || closed)) {
		CHECK(streams_freed >= 1, "a connection that arrives when nobody waits is released");
		WITNESS("orphan connection released");
	}
}
/* the connect succeeds, and before the dialer's callback runs the dial it was meant for is cancelled */
static void
ev_connected_then_cancelled(int i)
{
	KNEED(con_aio != NULL && uaio_used[i] && !KDONE(i) && first_waiting() == i);
	if (kstop)
		return;
	nni_aio *a  = con_aio;
	con_aio     = NULL;
	int sidx    = streams_made++;
	int freed0  = streams_freed;
	int nwait   = 0;
	for (int k = 0; k < MAXU; k++)
		if (uaio_used[k] && !expect_done[k])
			nwait++;
	nni_aio_set_output(a, 0, &stream_pool[sidx & 3]);
	nni_aio_finish(a, 0, 0); /* callback queued, not run yet */
	expect_done[i] = 1;
	expect_rv[i]   = NNG_ECANCELED;
	nni_aio_abort(&uaio_at(i), NNG_ECANCELED);
	if (nwait > 1) {
		/* the connection goes to the next dial in line */
		int w          = first_waiting();
		expect_done[w] = 1;
		expect_rv[w]   = 0;
		handed[w]      = (sidx & 3) + 1;
	}
	monitor();
	if (nwait == 1) {
		CHECK(streams_freed == freed0 + 1, "a connection that arrives when nobody waits for it any more is closed and released");
		WITNESS("orphan connection released");
	} else
		WITNESS("connection handed to the next dial");
}
static void
ev_cancel(int i)
{
	KNEED(uaio_used[i] && !KDONE(i));
	if (kstop)
		return;
	if (!expect_done[i]) {
		expect_done[i] = 1;
		expect_rv[i]   = NNG_ECANCELED;
	}
	nni_aio_abort(&uaio_at(i), NNG_ECANCELED);
	monitor();
	WITNESS("cancelled");
}
static void
ev_close(void)
{
	KNEED(!closed);
	if (kstop)
		return;
	for (int i = 0; i < MAXU; i++)
		if (uaio_used[i] && !expect_done[i]) {
			expect_done[i] = 1;
			expect_rv[i]   = NNG_ECLOSED;
		}
	closed = 1;
	tcp_dialer_close(D);
	monitor();
	WITNESS("closed");
}
#define D(i) if (!kstop) ev_dial(i);
#define RS(ok) if (!kstop) ev_resolved(ok);
#define CN(ok) if (!kstop) ev_connected(ok);
#define X(i) if (!kstop) ev_cancel(i);
#define CNX(i) if (!kstop) ev_connected_then_cancelled(i);
#define CL if (!kstop) ev_close();
#ifndef SKEL
#define SKEL D(0) D(1) RS(1) CN(0) RS(1) CN(1)
#endif
void
harness(void)
{
	CHECK(tcp_dialer_alloc(&D) == NNG_OK, "dialer allocated");
	SKEL
	if (!kstop)
		WITNESS("skeleton ran to its end");
#ifdef MUSTEND
	/* a curated skeleton whose every event is applicable on the library as it should be: an event that finds nothing to act
	 * on (e.g. no transfer outstanding because a message vanished) is a failure, not the end of the skeleton */
	CHECK(!kstop, "every event of the skeleton found the library in the state the previous events must have left it in");
#endif
	if (!closed) {
		for (int i = 0; i < MAXU; i++)
			if (uaio_used[i] && !expect_done[i]) {
				expect_done[i] = 1;
				expect_rv[i]   = NNG_ECLOSED;
			}
		closed = 1;
		tcp_dialer_close(D);
		kquiesce();
	}
	tcp_dialer_stop(D);
	/* the resolver aborts its lookup when the operation is stopped (nni_aio_stop in tcp_dialer_free calls res_cancel) */
	tcp_dialer_free(D);
	kquiesce();
	for (int i = 0; i < MAXU; i++)
		if (uaio_used[i])
			CHECK(env_aio_completed(&uaio_at(i)) == 1, "C10: after close every dial has completed exactly once");
	CHECK(res_aio == NULL && con_aio == NULL, "free leaves no lookup or connect behind");
	{
		int owned = 0;
		for (int i = 0; i < MAXU; i++)
			if (uaio_used[i] && expect_rv[i] == 0 && handed[i])
				owned++;
		CHECK(streams_made == owned + streams_freed, "every connection made was handed to a dial or released");
	}
	CHECK(env_alloc_live == 0, "all memory returned");
	CHECK(env_locks_held == 0, "no lock held");
	WITNESS("end");
}

/* C02: the REAL core/aio.c under nested schedules.
 * One aio, one list-based provider (modelled on core/msgqueue.c).  The outer
 * thread runs the concrete operation word OUTER; one operation of another
 * thread, INNER, is run to completion at a SYMBOLIC yield point (every
 * nni_mtx_unlock and every call of the cancel function outside the lock is a
 * yield point).  Timeout, clock readings and abort code are symbolic.
 *   operations: s submit (reset + start + queue)      c provider completes
 *               a nng_aio_abort(ECANCELED)            e expiry thread: one pass
 *               t nng_aio_stop                        k nng_aio_close
 *               r resubmit from inside the callback (flag)
 * contract checked at the end (after queued callbacks ran):
 *   - callback runs exactly once per submission (never twice, never lost)
 *   - the reported result is one of {0, ECANCELED, ETIMEDOUT, ESTOPPED} and is
 *     ETIMEDOUT only if the clock had passed the deadline (never early)
 *   - after nng_aio_stop returned no callback is pending or running and a later
 *     submit fails with ESTOPPED without reaching the provider
 *   - the aio is on the expiry list iff it is cancellable with a finite deadline
 */
#include "vh.h"
#include "core/aio.c"
extern int env_locks_held, env_sched_depth;
#ifndef FV
#define FV 100
#endif
#ifndef UV
#define UV 200
#endif
#ifndef PV
#define PV 50
#endif
#ifndef SV
#define SV 60
#endif
#ifndef LV
#define LV 300
#endif

/* ---- clock / random / threads ---- */
static nni_time now_ = 1000;
nni_time
nni_clock(void)
{
	return now_;
}
uint32_t
nni_random(void)
{
	return 0;
}
int
nni_thr_init(nni_thr *t, nni_thr_func f, void *a)
{
	(void) t;
	(void) f;
	(void) a;
	return 0;
}
void
nni_thr_run(nni_thr *t)
{
	(void) t;
}
void
nni_thr_fini(nni_thr *t)
{
	(void) t;
}
void
nni_thr_set_name(nni_thr *t, const char *n)
{
	(void) t;
	(void) n;
}
void
nni_reap(nni_reap_list *l, void *i)
{
	(void) l;
	(void) i;
}
/* ---- task layer (core/taskq.c): counted, callbacks run by the harness ---- */
static int cb_runs, cb_pending, cb_running;
static nng_err cb_result_seen;
void
nni_task_init(nni_task *t, nni_taskq *q, nni_cb cb, void *arg)
{
	(void) q;
	t->task_cb   = cb;
	t->task_arg  = arg;
	t->task_busy = 0;
	t->task_prep = false;
}
void
nni_task_fini(nni_task *t)
{
	(void) t;
}
void
nni_task_prep(nni_task *t)
{
	t->task_busy++;
	t->task_prep = true;
}
static void run_pending(void);
void
nni_task_dispatch(nni_task *t)
{
	if (t->task_prep)
		t->task_prep = false;
	else
		t->task_busy++;
	cb_pending++;
}
void
nni_task_exec(nni_task *t)
{
	nni_task_dispatch(t);
}
bool
nni_task_busy(nni_task *t)
{
	return t->task_busy != 0;
}
void
nni_task_wait(nni_task *t)
{
	/* the task thread gets to run what is queued */
	run_pending();
	/* a wait inside the nested operation for something only the suspended outer
	 * thread can do is not a nested schedule: prune it */
	if (env_sched_depth > 0) {
		ASSUME(t->task_busy == 0);
	}
	CHECK(t->task_busy == 0, "nni_aio_wait/stop would block forever (a dispatched callback count never drains)");
}

/* ---- the provider ---- */
static nni_mtx  prov_mtx;
static nni_aio *prov_q; /* the queued aio or NULL */
static nni_aio  A;
static int      submissions, provider_reached, resubmit_in_cb, stop_returned, submits_after_stop;
static nni_time deadline_at_submit;
static int      ev_count, ev_timedout_early;

static void sh_check_result(nng_err rv);
static void note_final(nng_err rv);
static void
prov_cancel(nni_aio *aio, void *arg, nng_err rv)
{
	(void) arg;
	nni_mtx_lock(&prov_mtx);
	if (prov_q == aio) {
		prov_q = NULL;
		nni_mtx_unlock(&prov_mtx);
		if (rv == NNG_ETIMEDOUT && !(now_ > aio->a_expire || aio->a_expire == NNI_TIME_NEVER))
			ev_timedout_early = 1;
		sh_check_result(rv);
		note_final(rv);
		nni_aio_finish_error(aio, rv);
		return;
	}
	nni_mtx_unlock(&prov_mtx);
}
/* ---- shadow of the configured deadline (AIO_TIME mode), independent of the fields of the aio ----
 * what the application configured last: a relative timeout (nng_aio_set_timeout) or an absolute
 * expiry (nng_aio_set_expire); the deadline of an operation is fixed when it is submitted */
#define SH_NEVER ((nni_time) -1)
static int          sh_abs;          /* last call was set_expire */
static nng_duration sh_rel = NNG_DURATION_INFINITE;
static nni_time     sh_expire;
static nni_time     sh_deadline = SH_NEVER; /* of the operation in flight */
static int          sh_sleep;               /* operation in flight is a sleep */
static nni_time     sh_wake = SH_NEVER;     /* when a sleep is due to report success */
static int          early_timeout, early_wake, stale_code;
/* the result an operation was completed with (provider completion, provider-side cancel, failed start);
 * the callback must report exactly that: "a cancel, stop or timeout code is reported only if the
 * operation had not already completed" */
static int     final_set, result_changed;
static nng_err final_rv;
static void
note_final(nng_err rv)
{
	final_set = 1;
	final_rv  = rv;
}
static void
sh_submit(void)
{
	sh_sleep = 0;
	sh_wake  = SH_NEVER;
	if (sh_abs)
		sh_deadline = sh_expire;
	else if (sh_rel == NNG_DURATION_ZERO)
		sh_deadline = now_;
	else if (sh_rel == NNG_DURATION_INFINITE || sh_rel == NNG_DURATION_DEFAULT)
		sh_deadline = SH_NEVER;
	else
		sh_deadline = now_ + (nni_time) sh_rel;
}
static void
sh_check_result(nng_err rv)
{
	/* called at the moment the operation is completed */
	if (rv == NNG_ETIMEDOUT && (sh_deadline == SH_NEVER || now_ < sh_deadline))
		early_timeout = 1;
	if (rv == 0 && sh_sleep && (sh_wake == SH_NEVER || now_ < sh_wake))
		early_wake = 1;
}
static void
op_submit(void)
{
	submissions++;
	if (stop_returned)
		submits_after_stop++;
	sh_submit();
	final_set = 0;
	nni_aio_reset(&A);
	nni_mtx_lock(&prov_mtx);
	if (!nni_aio_start(&A, prov_cancel, NULL)) {
		nni_mtx_unlock(&prov_mtx);
		sh_check_result(A.a_result);
		return;
	}
	provider_reached++;
	prov_q = &A;
	nni_mtx_unlock(&prov_mtx);
}
static void
op_complete(void)
{
	nni_mtx_lock(&prov_mtx);
	if (prov_q == &A) {
		prov_q = NULL;
		nni_mtx_unlock(&prov_mtx);
		note_final(0);
		nni_aio_finish(&A, 0, 7);
		return;
	}
	nni_mtx_unlock(&prov_mtx);
}
static int aborted_in_flight; /* an abort was issued while the current operation was in flight */
static void
the_callback(void *arg)
{
	(void) arg;
	cb_runs++;
	cb_result_seen = nni_aio_result(&A);
	if (final_set && cb_result_seen != final_rv)
		result_changed = 1;
	final_set = 0;
	if (sh_sleep) {
		sh_check_result(cb_result_seen);
		sh_sleep = 0;
	}
	if (cb_result_seen == NNG_ECANCELED && !aborted_in_flight)
		stale_code = 1; /* a cancel code reported by an operation that was never cancelled */
	if (resubmit_in_cb) {
		resubmit_in_cb = 0;
		op_submit();
	}
}
static void
run_pending(void)
{
	for (int i = 0; i < 4; i++) {
		if (cb_pending == 0)
			break;
		cb_pending--;
		cb_running++;
		the_callback(NULL);
		cb_running--;
		A.a_task.task_busy--;
	}
}
static nni_aio_expire_q *EQ;
int
nni_cv_until(nni_cv *cv, nni_time when)
{
	/* the expiry thread sleeps until its next deadline */
	(void) cv;
	if (when != NNI_TIME_NEVER && now_ <= when)
		now_ = when + 1;
	else
		EQ->eq_exit = true;
	return NNG_ETIMEDOUT;
}
static void
op_expire(void)
{
	/* one activation of the expiry thread; clock moves forward by any amount */
#ifdef ADV
	nni_time adv = ADV; /* concrete per query: before / exactly at / after the deadline */
#else
	nni_time adv = ND(u64);
	ASSUME(adv <= 100000);
#endif
	now_ += adv;
	EQ->eq_exit = true;
	nni_aio_expire_loop(EQ); /* takes and releases the queue lock itself */
}
static void
run_op(char c)
{
	switch (c) {
	case 's':
		aborted_in_flight = 0;
		op_submit();
		break;
	case 'c':
		op_complete();
		break;
	case 'a':
		/* (an abort of an idle aio concerns no operation: the next one starts afresh) */
		if (A.a_cancel_fn != NULL)
			aborted_in_flight = 1;
		nni_aio_abort(&A, NNG_ECANCELED);
		break;
	case 'e':
		op_expire();
		break;
	case 't':
		nni_aio_stop(&A);
		CHECK(A.a_task.task_busy == 0 && cb_pending == 0 && cb_running == 0, "when nng_aio_stop returns no callback of the aio is pending or running");
		stop_returned = 1;
		break;
	case 'k':
		nni_aio_close(&A);
		break;
	case 'r':
		resubmit_in_cb = 1;
		break;
#ifdef AIO_TIME
	case 'Z':
		sh_abs = 0;
		sh_rel = NNG_DURATION_ZERO;
		nni_aio_set_timeout(&A, NNG_DURATION_ZERO);
		break;
	case 'I':
		sh_abs = 0;
		sh_rel = NNG_DURATION_INFINITE;
		nni_aio_set_timeout(&A, NNG_DURATION_INFINITE);
		break;
	case 'D':
		sh_abs = 0;
		sh_rel = NNG_DURATION_DEFAULT;
		nni_aio_set_timeout(&A, NNG_DURATION_DEFAULT);
		break;
	case 'F': { /* finite relative timeout (value concrete per query, R1: it decides which branch the expiry pass takes) */
		nng_duration t = FV;
		sh_abs = 0;
		sh_rel = t;
		nni_aio_set_timeout(&A, t);
		break;
	}
	case 'P': { /* absolute expiry that has already passed (or is exactly now: PV = 0) */
		sh_abs    = 1;
		sh_expire = now_ - PV;
		nni_aio_set_expire(&A, sh_expire);
		break;
	}
	case 'U': { /* absolute expiry in the future */
		sh_abs    = 1;
		sh_expire = now_ + UV;
		nni_aio_set_expire(&A, sh_expire);
		break;
	}
	case 'S':   /* nng_sleep_aio, not longer than the aio's own timeout (if that is finite) */
	case 'L': { /* nng_sleep_aio longer than the aio's finite timeout: wakes early with ETIMEDOUT */
		nng_duration ms     = (c == 'L') ? LV : SV;
		int          finite = sh_rel != NNG_DURATION_INFINITE && sh_rel != NNG_DURATION_DEFAULT;
		/* (nng_sleep_aio looks at the relative timeout only; words do not combine it with set_expire) */
		if (c == 'L') {
			CHECK(finite && ms > sh_rel, "harness: L needs a shorter finite timeout");
		} else {
			CHECK(!finite || ms <= sh_rel, "harness: S needs no shorter timeout");
		}
		submissions++;
		aborted_in_flight = 0;
		sh_sleep          = 1;
		if (c == 'L') {
			sh_deadline = now_ + (nni_time) sh_rel;
			sh_wake     = SH_NEVER;
		} else {
			sh_deadline = SH_NEVER;
			sh_wake     = now_ + (nni_time) ms;
		}
		nni_sleep_aio(ms, &A);
		break;
	}
	case 'b':   /* expiry thread runs one tick BEFORE the operation is due */
	case 'E': { /* expiry thread runs at the first clock tick after it is due */
		nni_time due = sh_deadline != SH_NEVER ? sh_deadline : sh_wake;
		if (due == SH_NEVER)
			now_ += 500;
		else if (c == 'b')
			now_ = (due - 1 > now_) ? due - 1 : now_;
		else
			now_ = due + 1 > now_ ? due + 1 : now_; /* (at now == due the real loop spins until the clock ticks) */
		EQ->eq_exit = true;
		nni_aio_expire_loop(EQ);
		break;
	}
	case 'w': /* the task thread runs what is queued */
		run_pending();
		break;
#endif
	default:
		break;
	}
}
/* ---- nested scheduling ---- */
static int yields, inject_at, injected;
#ifndef INNER
#define INNER 'a'
#endif
void
env_yield_hook(nni_mtx *m)
{
	(void) m;
	if (env_sched_depth == 0 && !injected && yields++ == inject_at) {
		injected        = 1;
		env_sched_depth = 1;
		run_op(INNER);
		env_sched_depth = 0;
	}
}
#ifndef OUTER
#define OUTER "sc"
#endif
#ifndef TMO
#define TMO NNG_DURATION_INFINITE
#endif
#ifdef AIO_TIME
/* AIO_TIME: sequential words over one aio (no nesting) about WHEN an operation may report a
 * timeout / a sleep may report success, with the configured deadline kept in a shadow that is
 * independent of the aio's own fields:
 *   Z I D F  nng_aio_set_timeout(zero / infinite / default / finite FV)
 *   P U      nng_aio_set_expire(now - PV / now + UV)
 *   s c a t k   as above;  b / E: one pass of the expiry thread one tick before / exactly at the
 *               moment the operation in flight is due (per the shadow)
 *   S L      nng_sleep_aio (SV: within / LV: beyond the aio's own timeout)      w  task thread runs
 * Durations are concrete per query and swept by the driver (R1: whether the expiry pass finds the
 * aio due is heap shape); the words are what is enumerated. */
void
harness(void)
{
	nng_init_params prm;
	const char     *w = OUTER;
	memset(&prm, 0, sizeof(prm));
	prm.num_expire_threads = 1;
	CHECK(nni_aio_sys_init(&prm) == NNG_OK, "aio_sys_init");
	EQ = nni_aio_expire_q_list[0];
	nni_mtx_init(&prov_mtx);
	nni_aio_init(&A, the_callback, NULL);
	injected = 1; /* no nested operation in this mode */
	for (int i = 0; i < 10; i++) {
		if (w[i] == 0)
			break;
		run_op(w[i]);
	}
	run_pending();
	int still = (prov_q == &A) || A.a_sleep;
	if (still)
		WITNESS("operation still pending at the end");
	/* whatever is still in flight is cancelled now so that the accounting closes */
	if (still) {
		aborted_in_flight = 1;
		nni_aio_abort(&A, NNG_ECANCELED);
		run_pending();
	}
	CHECK(cb_runs == submissions, "every submission is completed exactly once: its callback runs once, never twice, never lost");
	CHECK(!early_timeout, "a timeout is never reported before the configured deadline (the last nng_aio_set_timeout / nng_aio_set_expire before the operation decides)");
	CHECK(!early_wake, "a sleep never reports success before its duration has elapsed");
	CHECK(!stale_code, "a cancel code is reported only by an operation that was cancelled while in flight");
	CHECK(!result_changed, "the callback reports the result the operation was completed with: a cancel arriving after completion does not change it");
	CHECK(!ev_timedout_early, "the expiry thread never cancels an operation before its own deadline");
	CHECK(A.a_task.task_busy == 0 && cb_pending == 0, "no callback is left pending");
	CHECK(nni_list_node_active(&A.a_expire_node) == 0, "a completed operation is not left on the expiry list");
	CHECK(env_locks_held == 0, "no lock held");
	if (cb_result_seen == NNG_ETIMEDOUT)
		WITNESS("timed out");
	if (cb_result_seen == NNG_ECANCELED)
		WITNESS("cancelled");
	if (cb_result_seen == 0 && cb_runs > 0)
		WITNESS("completed");
	WITNESS("end");
}
#else
void
harness(void)
{
	nng_init_params prm;
	const char     *w = OUTER;
	memset(&prm, 0, sizeof(prm));
	prm.num_expire_threads = 1;
	CHECK(nni_aio_sys_init(&prm) == NNG_OK, "aio_sys_init");
	EQ = nni_aio_expire_q_list[0];
	nni_mtx_init(&prov_mtx);
	nni_aio_init(&A, the_callback, NULL);
#ifdef SYMTMO
	{
		nng_duration t = ND(i32);
		ASSUME(t == NNG_DURATION_INFINITE || t == NNG_DURATION_DEFAULT || (t >= 1 && t <= 50000));
		nni_aio_set_timeout(&A, t);
	}
#else
	nni_aio_set_timeout(&A, TMO);
#endif
#ifdef INJECT
	inject_at = INJECT; /* concrete yield point (expiry scenarios: the symbolic choice does not finish) */
#else
	inject_at = ND(vint);
	ASSUME(inject_at >= 0 && inject_at < 24);
#endif
	for (int i = 0; i < 6; i++) {
		if (w[i] == 0)
			break;
		run_op(w[i]);
	}
	if (!injected) {
		/* the other thread's operation runs after everything else */
		injected = 1;
		run_op(INNER);
		WITNESS("inner op ran last");
	} else {
		WITNESS("inner op ran nested");
	}
	run_pending();
	/* whatever is still queued at the provider is completed now */
	op_complete();
	run_pending();
	CHECK(cb_runs == submissions, "every submission is completed exactly once: its callback runs once, never twice, never lost");
	CHECK(!ev_timedout_early, "a timeout never fires before the configured duration has elapsed");
	CHECK(cb_result_seen == 0 || cb_result_seen == NNG_ECANCELED || cb_result_seen == NNG_ETIMEDOUT || cb_result_seen == NNG_ESTOPPED, "the final result is success, the abort code, a timeout or stopped");
	CHECK(!result_changed, "the callback reports the result the operation was completed with: a cancel arriving after completion does not change it");
	CHECK(A.a_task.task_busy == 0 && cb_pending == 0, "no callback is left pending");
	CHECK(nni_list_node_active(&A.a_expire_node) == 0, "a completed operation is not left on the expiry list");
	CHECK(A.a_cancel_fn == NULL, "a completed operation has no cancel function left");
	if (submits_after_stop > 0)
		CHECK(provider_reached + submits_after_stop <= submissions, "a submit after nng_aio_stop never reaches the provider");
	CHECK(env_locks_held == 0, "no lock held");
	if (cb_result_seen == NNG_ETIMEDOUT)
		WITNESS("timed out");
	if (cb_result_seen == NNG_ECANCELED)
		WITNESS("cancelled");
	if (cb_result_seen == NNG_ESTOPPED)
		WITNESS("stopped");
	if (cb_result_seen == 0 && cb_runs > 0)
		WITNESS("completed");
	WITNESS("end");
}
#endif

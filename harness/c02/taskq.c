/* C02: the task layer under every aio callback, the real core/taskq.c (nni_task_init/prep/dispatch/exec/wait/busy/fini,
 * nni_taskq_init, nni_taskq_thread, nni_taskq_drain).  One task queue with one (simulated) worker; NT tasks; a concrete
 * word of operations, the worker being run by the harness:
 *    p<i> nni_task_prep(task i)      d<i> nni_task_dispatch(task i)    x<i> nni_task_exec(task i) (synchronous)
 *    r    the worker thread runs until the queue is empty
 *    w<i> nni_task_wait(task i) - issued by the harness only when, by the reference count, nothing is outstanding:
 *         it must then return without blocking; when something IS outstanding the harness checks nni_task_busy instead
 * reference: outstanding(i) = dispatches/execs/preps issued - callbacks finished - preps consumed by a dispatch/exec.
 * checked: each dispatch or exec runs the callback exactly once (never lost, never twice), in dispatch order per
 * queue; nni_task_busy(i) <=> outstanding(i) > 0 at every step; "wait returns => no callback of the task is running
 * or will run"; a task without callback completes at once; drain reports whether work was pending. */
#include "vh.h"
#include "core/taskq.c"
extern int env_locks_held, env_cv_wait_ok, env_cv_waits;
int
nni_thr_init(nni_thr *t, nni_thr_func f, void *a)
{
	(void) t;
	(void) f;
	(void) a;
	return 0;
}
void
nni_thr_run(nni_thr *t)
{
	(void) t;
}
void
nni_thr_fini(nni_thr *t)
{
	(void) t;
}
void
nni_thr_set_name(nni_thr *t, const char *n)
{
	(void) t;
	(void) n;
}
#ifndef NT
#define NT 2
#endif
#ifndef WORD
#define WORD "p0d0rw0"
#endif
static nni_taskq *tq;
static nni_task   T[NT];
static int        runs[NT], outstanding[NT], prepped[NT], queued[NT];
static int        order[8], norder, ran_order[8], nran;
static int        in_cb;
static void
cb(void *arg)
{
	int i = (int) (size_t) arg;
	in_cb++;
	CHECK(in_cb == 1, "callbacks of one queue's single worker do not nest");
	runs[i]++;
	ran_order[nran < 8 ? nran : 0] = i;
	nran++;
	/* while its callback runs the task still counts as busy */
	CHECK(T[i].task_busy > 0, "a task is busy while its callback runs");
	in_cb--;
}
static void
run_worker(void)
{
	/* one activation of the worker thread: it takes tasks until the queue is empty, then would sleep;
	 * tq_run is cleared so that it returns instead of sleeping */
	nni_mtx_lock(&tq->tq_mtx);
	tq->tq_run = false;
	nni_mtx_unlock(&tq->tq_mtx);
	nni_taskq_thread(&tq->tq_threads[0]);
	nni_mtx_lock(&tq->tq_mtx);
	tq->tq_run = true;
	nni_mtx_unlock(&tq->tq_mtx);
	for (int i = 0; i < NT; i++) {
		outstanding[i] -= queued[i];
		queued[i] = 0;
	}
}
void
harness(void)
{
	const char *w = WORD;
#ifdef FAILK
	{
		extern int env_alloc_fail_at, env_alloc_count, env_alloc_failed, env_alloc_live;
		env_alloc_fail_at = env_alloc_count + FAILK;
		CHECK(nni_taskq_init(&tq, 2) == NNG_ENOMEM && env_alloc_failed, "a task queue that cannot be allocated is reported as NNG_ENOMEM");
		CHECK(env_alloc_live == 0 && env_locks_held == 0, "nothing is leaked, no lock held");
		WITNESS("allocation failure");
		WITNESS("end");
		return;
	}
#endif
	CHECK(nni_taskq_init(&tq, 1) == 0, "taskq_init");
	for (int i = 0; i < NT; i++)
		nni_task_init(&T[i], tq, (i == NT - 1 && NT > 1
#ifdef LASTNOCB
		    && 1
#else
		    && 0
#endif
		    ) ? NULL : cb, (void *) (size_t) i);
	int expect_runs[NT] = { 0 };
	for (int k = 0; k < 16; k++) {
		char c = w[k];
		if (c == 0)
			break;
		int i = 0;
		if (c != 'r') {
			i = w[++k] - '0';
		}
		switch (c) {
		case 'p':
			nni_task_prep(&T[i]);
			prepped[i]++;
			outstanding[i]++;
			break;
		case 'd':
			if (prepped[i] > 0)
				prepped[i]--; /* the prep already counted this dispatch */
			else
				outstanding[i]++;
			nni_task_dispatch(&T[i]);
			if (T[i].task_cb != NULL) {
				queued[i]++;
				expect_runs[i]++;
				order[norder < 8 ? norder : 0] = i;
				norder++;
			} else {
				outstanding[i]--; /* no callback: completes at once */
			}
			break;
		case 'x':
			if (prepped[i] > 0)
				prepped[i]--;
			else
				outstanding[i]++;
			{
				int before = runs[i];
				nni_task_exec(&T[i]);
				if (T[i].task_cb != NULL) {
					CHECK(runs[i] == before + 1, "a synchronous exec runs the callback exactly once, before it returns");
					expect_runs[i]++;
					/* it ran now, ahead of anything still queued */
					nran--;
				}
				outstanding[i]--;
			}
			break;
		case 'r':
			run_worker();
			break;
		case 'w':
			if (outstanding[i] == 0) {
				int cw = env_cv_waits;
				nni_task_wait(&T[i]);
				CHECK(env_cv_waits == cw, "nni_task_wait returns at once when nothing of the task is outstanding");
				WITNESS("wait returned");
			} else {
				CHECK(nni_task_busy(&T[i]), "with a dispatch, exec or prep outstanding the task is busy (nni_task_wait / nng_aio_stop would wait)");
				WITNESS("wait would block");
			}
			break;
		default:
			break;
		}
		for (int j = 0; j < NT; j++) {
			CHECK(nni_task_busy(&T[j]) == (outstanding[j] > 0), "busy <=> a prep, dispatch or exec of the task has not finished yet");
			CHECK(T[j].task_busy == (unsigned) outstanding[j] || (int) T[j].task_busy == outstanding[j], "the busy count is exactly the number of outstanding activations");
		}
		CHECK(env_locks_held == 0, "no lock held between operations");
	}
	/* the worker finishes whatever is queued */
	bool pending = !nni_list_empty(&tq->tq_tasks);
	run_worker();
	for (int i = 0; i < NT; i++) {
		CHECK(runs[i] == expect_runs[i], "every dispatch and exec ran the callback exactly once: never lost, never twice");
	}
	CHECK(nran == norder, "every queued task ran");
	for (int k = 0; k < 8; k++)
		if (k < norder)
			CHECK(ran_order[k] == order[k], "queued tasks run in dispatch order");
	CHECK(nni_list_empty(&tq->tq_tasks), "the queue is empty after the worker ran");
	CHECK(nni_taskq_drain(tq) == false, "drain of an empty queue reports that nothing was pending");
	(void) pending;
	for (int i = 0; i < NT; i++) {
		if (outstanding[i] == 0) {
			nni_task_fini(&T[i]);
		}
	}
	WITNESS("end");
}

#ifndef ENV_PIPE_H
#define ENV_PIPE_H
#include "env_aio.h"
#include "env_msg.h"
/* the pipe object protocols see (opaque to them) */
struct nni_pipe {
	uint32_t id;
	uint16_t peer;
	bool     closed;      /* nni_pipe_close was called */
	int      close_calls;
	nni_aio *send_aio;    /* the one outstanding transport send */
	nni_aio *recv_aio;    /* the one outstanding transport receive */
	nni_msg *wire_msg;    /* message of the outstanding send (what goes on the wire) */
	int      sends, recvs;
	void    *proto_data;
};
extern void env_pipe_init(nni_pipe *p, uint32_t id, uint16_t peer);
/* transport finished writing: rv==0 frees the message like a transport does */
extern void env_pipe_send_done(nni_pipe *p, nng_err rv);
/* transport received `msg` (rv==0) or failed */
extern void env_pipe_recv_done(nni_pipe *p, nni_msg *msg, nng_err rv);
#endif

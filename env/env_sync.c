/* env_sync.c - sequential models of nng's platform synchronisation layer.
 *
 *  - atomics: plain sequential operations (harnesses are single threaded; the
 *    build drops NNG_HAVE_STDATOMIC so the structs are the plain-field ones);
 *  - nni_mtx: a lock-discipline monitor.  Locking a mutex that is already held
 *    is a self-deadlock (CHECK), unlocking an unheld one too.  env_locks_held
 *    counts held mutexes so a harness can assert "no lock held on return";
 *  - nni_cv: wake counter; nni_cv_wait on a condition that cannot become true
 *    in a sequential harness is reported by the harness, so it is a CHECK here
 *    unless the harness installed env_cv_wait_ok.
 *  - env_yield(): called at every mutex release; harnesses that explore nested
 *    schedules define ENV_HAVE_YIELD and provide env_yield_hook().
 */
#include "core/nng_impl.h"
#include "vh.h"

int env_locks_held   = 0;
int env_sched_depth  = 0; /* 0: the outer operation, 1: an operation of another thread run at a yield point */
int env_cv_wakes     = 0;
int env_cv_wait_ok   = 0;
int env_cv_waits     = 0;
extern void env_yield_hook(nni_mtx *);

static int *
env_mtx_word(nni_mtx *m)
{
	return (int *) (void *) m;
}

void
nni_mtx_init(nni_mtx *m)
{
	*env_mtx_word(m) = 0;
}
void
nni_mtx_fini(nni_mtx *m)
{
	CHECK(*env_mtx_word(m) == 0, "nni_mtx_fini of a held mutex");
}
void
nni_mtx_lock(nni_mtx *m)
{
	/* e.g. nni_msgq_close(NULL): the mutex is the first member of an object that was never allocated */
	CHECK(m != NULL, "nni_mtx_lock(NULL): the object the lock lives in does not exist (null pointer dereference)");
	ASSUME(m != NULL);
#if !VH_NATIVE
	/* a lock reached through a null-derived or dangling object pointer (e.g. &((T *) NULL)->queues[i].lock): report it here
	 * and end the path - symbolic execution of writes through such a pointer does not terminate in practice */
	CHECK(__CPROVER_rw_ok(m, sizeof(*m)), "nni_mtx_lock on a mutex that is not inside a live object (null-derived or dangling pointer)");
	ASSUME(__CPROVER_rw_ok(m, sizeof(*m)));
#endif
	/* held by a suspended frame of another (simulated) thread: this schedule is
	 * not executable as a nested one (the real thread would wait) - prune it */
	ASSUME(*env_mtx_word(m) == 0 || *env_mtx_word(m) == env_sched_depth + 1);
	CHECK(*env_mtx_word(m) == 0, "nni_mtx_lock of a mutex already held (self-deadlock)");
	ASSUME(*env_mtx_word(m) == 0);
	*env_mtx_word(m) = env_sched_depth + 1;
	env_locks_held++;
}
void
nni_mtx_unlock(nni_mtx *m)
{
	CHECK(*env_mtx_word(m) == env_sched_depth + 1, "nni_mtx_unlock of a mutex not held by this thread");
	*env_mtx_word(m) = 0;
	env_locks_held--;
#ifdef ENV_HAVE_YIELD
	env_yield_hook(m);
#endif
}

void
nni_cv_init(nni_cv *cv, nni_mtx *m)
{
	(void) cv;
	(void) m;
}
void
nni_cv_fini(nni_cv *cv)
{
	(void) cv;
}
void
nni_cv_wake(nni_cv *cv)
{
	(void) cv;
	env_cv_wakes++;
}
void
nni_cv_wake1(nni_cv *cv)
{
	(void) cv;
	env_cv_wakes++;
}
void
nni_cv_wait(nni_cv *cv)
{
	(void) cv;
	env_cv_waits++;
	if (env_sched_depth > 0) {
		/* the nested operation would have to wait for the suspended outer thread:
		 * not a nested schedule - pruned */
		ASSUME(0);
	}
	CHECK(env_cv_wait_ok, "nni_cv_wait would block forever in a sequential run");
	ASSUME(env_cv_wait_ok);
}
#ifndef ENV_NO_CV_UNTIL
int
nni_cv_until(nni_cv *cv, nni_time when)
{
	(void) cv;
	(void) when;
	env_cv_waits++;
	return (NNG_ETIMEDOUT);
}
#endif

/* ---- atomics ---------------------------------------------------------- */
bool
nni_atomic_flag_test_and_set(nni_atomic_flag *f)
{
	bool o = f->f;
	f->f   = true;
	return o;
}
void
nni_atomic_flag_reset(nni_atomic_flag *f)
{
	f->f = false;
}
void
nni_atomic_init_bool(nni_atomic_bool *b)
{
	b->b = false;
}
void
nni_atomic_set_bool(nni_atomic_bool *b, bool v)
{
	b->b = v;
}
bool
nni_atomic_get_bool(nni_atomic_bool *b)
{
	return b->b;
}
bool
nni_atomic_swap_bool(nni_atomic_bool *b, bool v)
{
	bool o = b->b;
	b->b   = v;
	return o;
}
void
nni_atomic_init64(nni_atomic_u64 *v)
{
	v->v = 0;
}
void
nni_atomic_add64(nni_atomic_u64 *v, uint64_t n)
{
	v->v += n;
}
void
nni_atomic_sub64(nni_atomic_u64 *v, uint64_t n)
{
	v->v -= n;
}
uint64_t
nni_atomic_get64(nni_atomic_u64 *v)
{
	return v->v;
}
void
nni_atomic_set64(nni_atomic_u64 *v, uint64_t n)
{
	v->v = n;
}
uint64_t
nni_atomic_swap64(nni_atomic_u64 *v, uint64_t n)
{
	uint64_t o = v->v;
	v->v       = n;
	return o;
}
bool
nni_atomic_cas64(nni_atomic_u64 *v, uint64_t comp, uint64_t n)
{
	if (v->v == comp) {
		v->v = n;
		return true;
	}
	return false;
}
void
nni_atomic_init(nni_atomic_int *v)
{
	v->v = 0;
}
void
nni_atomic_add(nni_atomic_int *v, int n)
{
	v->v += n;
}
void
nni_atomic_sub(nni_atomic_int *v, int n)
{
	v->v -= n;
}
int
nni_atomic_get(nni_atomic_int *v)
{
	return v->v;
}
void
nni_atomic_set(nni_atomic_int *v, int n)
{
	v->v = n;
}
int
nni_atomic_swap(nni_atomic_int *v, int n)
{
	int o = v->v;
	v->v  = n;
	return o;
}
int
nni_atomic_or(nni_atomic_int *v, int n)
{
	int o = v->v;
	v->v |= n;
	return o;
}
int
nni_atomic_and(nni_atomic_int *v, int n)
{
	int o = v->v;
	v->v &= n;
	return o;
}
int
nni_atomic_dec_nv(nni_atomic_int *v)
{
	v->v--;
	return v->v;
}
void
nni_atomic_dec(nni_atomic_int *v)
{
	v->v--;
}
void
nni_atomic_inc(nni_atomic_int *v)
{
	v->v++;
}
bool
nni_atomic_cas(nni_atomic_int *v, int comp, int n)
{
	if (v->v == comp) {
		v->v = n;
		return true;
	}
	return false;
}
void
nni_atomic_set_ptr(nni_atomic_ptr *p, void *v)
{
	p->v = v;
}
void *
nni_atomic_get_ptr(nni_atomic_ptr *p)
{
	return p->v;
}

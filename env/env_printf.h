/* env_printf.h - non-variadic snprintf for the symbolic build.
 *
 * CBMC implements va_arg through an untyped pointer array; measured on
 * core/url.c: one snprintf("%s") through a variadic model destroys constant
 * propagation for the whole harness (1 symbolic byte: 1.2k -> 50k SSA steps,
 * 23 GB).  Harnesses include this header *before* the real .c file, so that
 * the unit's snprintf(...) calls expand to a fixed-arity model that takes the
 * arguments as (string, integer) pairs selected with _Generic.  Conversions
 * supported: %s %u %d %x %c %% with optional l/z; anything else is a CHECK.
 * The native replay build uses the real snprintf.
 */
#ifndef ENV_PRINTF_H
#define ENV_PRINTF_H
#include "vh.h"
#include <stdio.h>
#if !VH_NATIVE
typedef struct {
	const char        *s;
	unsigned long long u;
} env_parg;
static inline env_parg
env_as(const char *s)
{
	env_parg a;
	a.s = s;
	a.u = 0;
	return a;
}
static inline env_parg
env_au(unsigned long long u)
{
	env_parg a;
	a.s = (const char *) 0;
	a.u = u;
	return a;
}
#define ENV_A(x) \
	_Generic((x), char *: env_as((const char *) (size_t) (x)), const char *: env_as((const char *) (size_t) (x)), \
	    default: env_au((unsigned long long) (x)))

extern int env_snprintf(char *buf, size_t size, const char *fmt, int n, env_parg a0, env_parg a1, env_parg a2, env_parg a3,
    env_parg a4, env_parg a5, env_parg a6, env_parg a7, env_parg a8, env_parg a9);

#define ENV_Z env_au(0)
#define ENV_SNP0(b, z, f) env_snprintf(b, z, f, 0, ENV_Z, ENV_Z, ENV_Z, ENV_Z, ENV_Z, ENV_Z, ENV_Z, ENV_Z, ENV_Z, ENV_Z)
#define ENV_SNP1(b, z, f, a) env_snprintf(b, z, f, 1, ENV_A(a), ENV_Z, ENV_Z, ENV_Z, ENV_Z, ENV_Z, ENV_Z, ENV_Z, ENV_Z, ENV_Z)
#define ENV_SNP2(b, z, f, a, c) env_snprintf(b, z, f, 2, ENV_A(a), ENV_A(c), ENV_Z, ENV_Z, ENV_Z, ENV_Z, ENV_Z, ENV_Z, ENV_Z, ENV_Z)
#define ENV_SNP3(b, z, f, a, c, d) \
	env_snprintf(b, z, f, 3, ENV_A(a), ENV_A(c), ENV_A(d), ENV_Z, ENV_Z, ENV_Z, ENV_Z, ENV_Z, ENV_Z, ENV_Z)
#define ENV_SNP4(b, z, f, a, c, d, e) \
	env_snprintf(b, z, f, 4, ENV_A(a), ENV_A(c), ENV_A(d), ENV_A(e), ENV_Z, ENV_Z, ENV_Z, ENV_Z, ENV_Z, ENV_Z)
#define ENV_SNP5(b, z, f, a, c, d, e, g) \
	env_snprintf(b, z, f, 5, ENV_A(a), ENV_A(c), ENV_A(d), ENV_A(e), ENV_A(g), ENV_Z, ENV_Z, ENV_Z, ENV_Z, ENV_Z)
#define ENV_SNP10(b, z, f, a, c, d, e, g, h, i, j, k, l)                                                         \
	env_snprintf(b, z, f, 10, ENV_A(a), ENV_A(c), ENV_A(d), ENV_A(e), ENV_A(g), ENV_A(h), ENV_A(i), ENV_A(j), \
	    ENV_A(k), ENV_A(l))
#define ENV_PICK(_1, _2, _3, _4, _5, _6, _7, _8, _9, _10, _11, _12, _13, NAME, ...) NAME
#define snprintf(...)                                                                                          \
	ENV_PICK(__VA_ARGS__, ENV_SNP10, ENV_SNP9, ENV_SNP8, ENV_SNP7, ENV_SNP6, ENV_SNP5, ENV_SNP4, ENV_SNP3, \
	    ENV_SNP2, ENV_SNP1, ENV_SNP0, ENV_BAD, ENV_BAD)(__VA_ARGS__)
#endif
#endif

/* env_misc.c - panic / print / log entry points.  nni_panic is a property
 * violation (the library must never panic on the inputs a harness admits). */
#include "vh.h"
#include <stdarg.h>

void
nni_panic(const char *fmt, ...)
{
	(void) fmt;
	CHECK(0, "nni_panic reached");
	ASSUME(0);
#if VH_NATIVE
	abort();
#endif
}
void
nni_println(const char *msg)
{
	(void) msg;
}
void
nni_plat_printf(const char *fmt, ...)
{
	(void) fmt;
}
void
nni_plat_abort(void)
{
	CHECK(0, "nni_plat_abort reached");
	ASSUME(0);
}

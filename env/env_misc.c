/* env_misc.c - panic / print / log entry points.  nni_panic is a property
 * violation (the library must never panic on the inputs a harness admits). */
#include "vh.h"
#include <stdarg.h>

void
nni_panic(const char *fmt, ...)
{
	(void) fmt;
	CHECK(0, "nni_panic reached");
	ASSUME(0);
#if VH_NATIVE
	abort();
#endif
}
void
nni_println(const char *msg)
{
	(void) msg;
}
void
nni_plat_printf(const char *fmt, ...)
{
	(void) fmt;
}
void
nni_plat_abort(void)
{
	CHECK(0, "nni_plat_abort reached");
	ASSUME(0);
}

/* ---- statistics and logging: empty bodies (never the subject) ---------- */
#include "core/nng_impl.h"
#ifdef NNG_ENABLE_STATS
void
nni_stat_init(nni_stat_item *item, const nni_stat_info *info)
{
	(void) item;
	(void) info;
}
void
nni_stat_add(nni_stat_item *parent, nni_stat_item *child)
{
	(void) parent;
	(void) child;
}
void
nni_stat_inc(nni_stat_item *item, uint64_t n)
{
	(void) item;
	(void) n;
}
void
nni_stat_dec(nni_stat_item *item, uint64_t n)
{
	(void) item;
	(void) n;
}
void
nni_stat_set_value(nni_stat_item *item, uint64_t n)
{
	(void) item;
	(void) n;
}
void
nni_stat_set_id(nni_stat_item *item, int id)
{
	(void) item;
	(void) id;
}
void
nni_stat_set_bool(nni_stat_item *item, bool b)
{
	(void) item;
	(void) b;
}
void
nni_stat_set_string(nni_stat_item *item, const char *s)
{
	(void) item;
	(void) s;
}
void
nni_stat_unregister(nni_stat_item *item)
{
	(void) item;
}
void
nni_stat_register(nni_stat_item *item)
{
	(void) item;
}
#endif
void
nng_log_warn(const char *id, const char *fmt, ...)
{
	(void) id;
	(void) fmt;
}
void
nng_log_err(const char *id, const char *fmt, ...)
{
	(void) id;
	(void) fmt;
}
void
nng_log_info(const char *id, const char *fmt, ...)
{
	(void) id;
	(void) fmt;
}
void
nng_log_debug(const char *id, const char *fmt, ...)
{
	(void) id;
	(void) fmt;
}
void
nng_log_notice(const char *id, const char *fmt, ...)
{
	(void) id;
	(void) fmt;
}
int
nni_plat_pipe_open(int *wfd, int *rfd)
{
	(void) wfd;
	(void) rfd;
	return (NNG_ENOTSUP);
}
void
nni_plat_pipe_raise(int fd)
{
	(void) fd;
}
void
nni_plat_pipe_clear(int fd)
{
	(void) fd;
}
void
nni_plat_pipe_close(int a, int b)
{
	(void) a;
	(void) b;
}

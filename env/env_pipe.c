/* env_pipe.c - the transport side of a pipe as protocols see it
 * (core/pipe.c nni_pipe_send/recv/close + a transport's p_send/p_recv):
 * each direction holds at most one outstanding aio, started with the real
 * contract (reset, nni_aio_start with a cancel function that completes it);
 * the harness completes it later with a result of its choosing. */
#include "env_pipe.h"

void
env_pipe_init(nni_pipe *p, uint32_t id, uint16_t peer)
{
	static const struct nni_pipe zero;
	*p = zero; /* struct assignment: keeps field sensitivity in symex (memset does not) */
	p->id   = id;
	p->peer = peer;
}
uint32_t
nni_pipe_id(nni_pipe *p)
{
	return (p->id);
}
uint16_t
nni_pipe_peer(nni_pipe *p)
{
	return (p->peer);
}
void
nni_pipe_close(nni_pipe *p)
{
	p->closed = true;
	p->close_calls++;
}
void
nni_pipe_bump_error(nni_pipe *p, int err)
{
	(void) p;
	(void) err;
}
void
nni_pipe_bump_rx(nni_pipe *p, size_t n)
{
	(void) p;
	(void) n;
}
void
nni_pipe_bump_tx(nni_pipe *p, size_t n)
{
	(void) p;
	(void) n;
}
static void
env_pipe_send_cancel(nni_aio *aio, void *arg, nng_err rv)
{
	nni_pipe *p = arg;
	if (p->send_aio == aio) {
		p->send_aio = NULL;
		p->wire_msg = NULL;
		nni_aio_finish_error(aio, rv);
	}
}
static void
env_pipe_recv_cancel(nni_aio *aio, void *arg, nng_err rv)
{
	nni_pipe *p = arg;
	if (p->recv_aio == aio) {
		p->recv_aio = NULL;
		nni_aio_finish_error(aio, rv);
	}
}
void
nni_pipe_send(nni_pipe *p, nni_aio *aio)
{
	env_aio_submit(aio);
	nni_aio_reset(aio);
	p->sends++;
	CHECK(nni_aio_get_msg(aio) != NULL, "nni_pipe_send without a message");
	if (!nni_aio_start(aio, env_pipe_send_cancel, p)) {
		return;
	}
	CHECK(p->send_aio == NULL, "protocol issued a second transport send while one is outstanding on the pipe");
	p->send_aio = aio;
	p->wire_msg = nni_aio_get_msg(aio);
}
void
nni_pipe_recv(nni_pipe *p, nni_aio *aio)
{
	env_aio_submit(aio);
	nni_aio_reset(aio);
	p->recvs++;
	if (!nni_aio_start(aio, env_pipe_recv_cancel, p)) {
		return;
	}
	CHECK(p->recv_aio == NULL, "protocol issued a second transport receive while one is outstanding on the pipe");
	p->recv_aio = aio;
}
void
env_pipe_send_done(nni_pipe *p, nng_err rv)
{
	nni_aio *aio = p->send_aio;
	CHECK(aio != NULL, "harness: send_done without an outstanding send");
	ASSUME(aio != NULL);
	p->send_aio = NULL;
	if (rv == 0) {
		nni_msg *m = nni_aio_get_msg(aio);
		size_t   n = nni_msg_len(m);
		nni_aio_set_msg(aio, NULL);
		nni_msg_free(m);
		p->wire_msg = NULL;
		nni_aio_finish(aio, 0, n);
	} else {
		p->wire_msg = NULL;
		nni_aio_finish_error(aio, rv);
	}
}
void
env_pipe_recv_done(nni_pipe *p, nni_msg *msg, nng_err rv)
{
	nni_aio *aio = p->recv_aio;
	CHECK(aio != NULL, "harness: recv_done without an outstanding receive");
	ASSUME(aio != NULL);
	p->recv_aio = NULL;
	if (rv == 0) {
		nni_msg_set_pipe(msg, p->id);
		nni_aio_finish_msg(aio, msg);
	} else {
		nni_aio_finish_error(aio, rv);
	}
}
/* ---- socket-level entry points protocols reach for ---------------------- */
void
nni_sock_bump_tx(nni_sock *s, uint64_t n)
{
	(void) s;
	(void) n;
}
void
nni_sock_bump_rx(nni_sock *s, uint64_t n)
{
	(void) s;
	(void) n;
}
void
nni_sock_add_stat(nni_sock *s, nni_stat_item *item)
{
	(void) s;
	(void) item;
}

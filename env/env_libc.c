/* env_libc.c - C-locale models of the libc pieces the encoded nng units use
 * and that CBMC has no (or no tractable) body for.  Only compiled into the
 * symbolic build; the native replay build uses the real libc.
 *   ctype   : glibc's macros go through __ctype_b_loc() (no body); harnesses
 *             are built with -D__NO_CTYPE so these functions are called.
 *   strtol  : base 10 (and 16) with optional sign and leading blanks.
 *   snprintf: see env_printf.h (non-variadic model selected by macro); %s %u %d
 *             %x %c %% only; returns the untruncated length like C99.
 *   getservbyname: returns NULL (service names are outside every claim).
 */
#include "vh.h"
#if !VH_NATIVE
#include <stdarg.h>
#include <stddef.h>
#include <limits.h>

int
isdigit(int c)
{
	return c >= '0' && c <= '9';
}
int
isxdigit(int c)
{
	return (c >= '0' && c <= '9') || (c >= 'a' && c <= 'f') || (c >= 'A' && c <= 'F');
}
int
isalpha(int c)
{
	return (c >= 'a' && c <= 'z') || (c >= 'A' && c <= 'Z');
}
int
isalnum(int c)
{
	return isalpha(c) || isdigit(c);
}
int
isupper(int c)
{
	return c >= 'A' && c <= 'Z';
}
int
islower(int c)
{
	return c >= 'a' && c <= 'z';
}
int
isspace(int c)
{
	return c == ' ' || (c >= '\t' && c <= '\r');
}
int
isprint(int c)
{
	return c >= 0x20 && c <= 0x7e;
}
int
tolower(int c)
{
	return (c >= 'A' && c <= 'Z') ? c + ('a' - 'A') : c;
}
int
toupper(int c)
{
	return (c >= 'a' && c <= 'z') ? c - ('a' - 'A') : c;
}

long
strtol(const char *s, char **end, int base)
{
	long        v   = 0;
	int         neg = 0;
	const char *p   = s;
	int         any = 0;
	while (isspace((unsigned char) *p))
		p++;
	if (*p == '+' || *p == '-') {
		neg = (*p == '-');
		p++;
	}
	if (base == 16 && p[0] == '0' && (p[1] == 'x' || p[1] == 'X') && isxdigit((unsigned char) p[2]))
		p += 2;
	for (;;) {
		int c = (unsigned char) *p;
		int d;
		if (isdigit(c))
			d = c - '0';
		else if (base == 16 && isxdigit(c))
			d = (tolower(c) - 'a') + 10;
		else
			break;
		if (d >= base)
			break;
		if (v > (LONG_MAX - d) / base) {
			v = LONG_MAX; /* saturate (ERANGE) */
		} else {
			v = v * base + d;
		}
		any = 1;
		p++;
	}
	if (end != NULL)
		*end = (char *) (any ? p : s);
	return neg ? -v : v;
}
unsigned long
strtoul(const char *s, char **end, int base)
{
	return (unsigned long) strtol(s, end, base);
}
unsigned long long
strtoull(const char *s, char **end, int base)
{
	/* non-negative values that fit a long: all the encoded units feed it (Content-Length of a few digits) */
	return (unsigned long long) strtol(s, end, base);
}

/* memmove with a symbolic length on an array inside a struct is modelled by
 * CBMC as a whole-object byte update (measured on url.c: 4.4M variables, 110 s
 * for one call).  A byte loop whose forward direction writes dst[i] with the
 * concrete loop counter keeps the accesses field- and index-sensitive. */
void *
memmove(void *dst, const void *src, size_t n)
{
	unsigned char       *d = dst;
	const unsigned char *s = src;
	if (n == 0 || d == s)
		return dst;
	if (__CPROVER_POINTER_OBJECT(d) != __CPROVER_POINTER_OBJECT(s) || d < s) {
		for (size_t i = 0; i < n; i++)
			d[i] = s[i];
	} else {
		for (size_t i = n; i > 0; i--)
			d[i - 1] = s[i - 1];
	}
	return dst;
}

/* memcpy as a byte loop with concrete indices, for the same reason as memmove:
 * CBMC's built-in turns a copy into an array inside a struct into an update of
 * the whole enclosing object, after which no field of it is constant any more */
void *
memcpy(void *dst, const void *src, size_t n)
{
	unsigned char       *d = dst;
	const unsigned char *s = src;
	for (size_t i = 0; i < n; i++)
		d[i] = s[i];
	return dst;
}

/* memcmp as a byte loop: no access for n == 0, so memcmp(NULL, p, 0) (sub.c
 * with the empty topic; harmless on every platform, DESIGN R6) is not flagged */
int
memcmp(const void *a, const void *b, size_t n)
{
	const unsigned char *x = a, *y = b;
	for (size_t i = 0; i < n; i++) {
		if (x[i] != y[i])
			return x[i] < y[i] ? -1 : 1;
	}
	return 0;
}

struct servent;
struct servent *
getservbyname(const char *name, const char *proto)
{
	(void) name;
	(void) proto;
	return NULL;
}

static void
env_putc(char *buf, size_t size, size_t *pos, char c)
{
	if (buf != NULL && size > 0 && *pos < size - 1)
		buf[*pos] = c;
	(*pos)++;
}
static void
env_putu(char *buf, size_t size, size_t *pos, unsigned long long v, unsigned base)
{
	char tmp[24];
	int  n = 0;
	do {
		unsigned d = (unsigned) (v % base);
		tmp[n++]   = (char) (d < 10 ? '0' + d : 'a' + (d - 10));
		v /= base;
	} while (v != 0 && n < 24);
	while (n > 0)
		env_putc(buf, size, pos, tmp[--n]);
}
#include "env_printf.h"
#undef snprintf
int
env_snprintf(char *buf, size_t size, const char *fmt, int n, env_parg a0, env_parg a1, env_parg a2, env_parg a3,
    env_parg a4, env_parg a5, env_parg a6, env_parg a7, env_parg a8, env_parg a9)
{
	size_t   pos = 0;
	int      k   = 0;
	int      terminated = 0;
	env_parg a[10];
	a[0] = a0, a[1] = a1, a[2] = a2, a[3] = a3, a[4] = a4;
	a[5] = a5, a[6] = a6, a[7] = a7, a[8] = a8, a[9] = a9;
	for (const char *f = fmt; *f; f++) {
		terminated = 0;
		if (*f != '%') {
			env_putc(buf, size, &pos, *f);
			continue;
		}
		f++;
		while (*f == 'l' || *f == 'z')
			f++;
		if (*f == '%') {
			env_putc(buf, size, &pos, '%');
			continue;
		}
		__CPROVER_assert(k < n && k < 10, "PROP env_libc: printf consumes only the arguments given");
		switch (*f) {
		case 's': {
			/* writes go to base+i with i the (concrete) loop counter, and the
			 * terminating NUL is copied too: an output buffer that lives inside
			 * a struct (url->u_static) is then never written at a symbolic
			 * offset, which would make every field of the struct symbolic */
			size_t base = pos, i;
			for (i = 0;; i++) {
				char   c = a[k].s[i];
				size_t w = base + i;
				if (buf != NULL && size > 0) {
					if (w < size - 1)
						buf[w] = c;
					else if (w == size - 1)
						buf[w] = '\0';
				}
				if (c == '\0')
					break;
			}
			pos        = base + i;
			terminated = 1;
			k++;
			continue;
		}
		case 'u':
			env_putu(buf, size, &pos, a[k].u, 10);
			break;
		case 'x':
			env_putu(buf, size, &pos, a[k].u, 16);
			break;
		case 'd': {
			long long v = (long long) a[k].u;
			if (v < 0) {
				env_putc(buf, size, &pos, '-');
				env_putu(buf, size, &pos, (unsigned long long) (-(v + 1)) + 1, 10);
			} else {
				env_putu(buf, size, &pos, (unsigned long long) v, 10);
			}
			break;
		}
		case 'c':
			env_putc(buf, size, &pos, (char) a[k].u);
			break;
		default:
			__CPROVER_assert(0, "PROP env_libc: unsupported printf conversion in encoded unit");
			break;
		}
		k++;
	}
	if (!terminated && buf != NULL && size > 0)
		buf[pos < size ? pos : size - 1] = '\0';
	return (int) pos;
}
#endif

/* env_aio.c - sequential model of nng's aio framework (core/aio.c +
 * core/taskq.c + core/reap.c) for protocol / transport / queue harnesses,
 * with the completion-contract monitor built in.
 *
 * Fidelity: start/abort/close/stop/finish follow core/aio.c statement by
 * statement except that (a) there is no expire thread: the harness calls
 * env_aio_expire() to play it, (b) callbacks are queued and run by the harness
 * (env_run_callbacks), which is where real task threads would run them,
 * (c) nni_aio_stop/fini/wait run a still-queued callback of that aio inline,
 * which is what "wait for the task" means sequentially - if that callback
 * needs a lock the caller holds, the lock monitor reports the real deadlock.
 * C02 checks the real core/aio.c against the same contract.
 *
 * Monitor: env_aio_submit() says "one completion owed"; a completion when
 * none is owed (double completion, completion of an aio never submitted) is a
 * CHECK failure.
 */
#include "env_aio.h"
#include <string.h>

#define ENV_MAXAIO 24
#define ENV_MAXCB 24
#define ENV_MAXREAP 16

static struct {
	nni_aio *aio;
	int      owed;      /* completions owed (0/1) */
	int      completed; /* completions since last submit */
} env_tab[ENV_MAXAIO];
static int env_ntab;

static nni_aio *env_cbq[ENV_MAXCB];
static int      env_cbq_head, env_cbq_tail;

int      env_aio_total_completions;
nni_time env_now          = 1000;
u32      env_random_value = 0;

nni_time
nni_clock(void)
{
	return env_now;
}
uint32_t
nni_random(void)
{
	return env_random_value;
}

static int
env_slot(nni_aio *aio)
{
	for (int i = 0; i < ENV_MAXAIO; i++) {
		if (i < env_ntab && env_tab[i].aio == aio)
			return i;
	}
	CHECK(env_ntab < ENV_MAXAIO, "env_aio: table large enough");
	ASSUME(env_ntab < ENV_MAXAIO);
	env_tab[env_ntab].aio       = aio;
	env_tab[env_ntab].owed      = 0;
	env_tab[env_ntab].completed = 0;
	return env_ntab++;
}

void
env_aio_submit(nni_aio *aio)
{
	int i = env_slot(aio);
	CHECK(env_tab[i].owed == 0, "aio submitted while a previous operation on it is still outstanding");
	env_tab[i].owed      = 1;
	env_tab[i].completed = 0;
}
int
env_aio_completed(nni_aio *aio)
{
	return env_tab[env_slot(aio)].completed;
}
int
env_aio_outstanding(nni_aio *aio)
{
	return env_tab[env_slot(aio)].owed;
}

static void
env_complete(nni_aio *aio)
{
	int i = env_slot(aio);
	if (aio->a_task.task_cb == NULL) {
		/* user aio: exactly one completion per announced submission */
		CHECK(env_tab[i].owed == 1, "aio completed although no operation is outstanding on it (double or stray completion)");
	} else {
		/* internal aio: providers such as core/msgqueue.c may complete it without
		 * arming it; what must never happen is a second completion before the
		 * callback of the previous one has run */
		CHECK(aio->a_task.task_busy == 0, "internal aio completed again before the callback of its previous completion ran (double completion)");
	}
	env_tab[i].owed = 0;
	env_tab[i].completed++;
	env_aio_total_completions++;
	if (aio->a_task.task_cb != NULL) {
		CHECK(env_cbq_tail < ENV_MAXCB, "env_aio: callback queue large enough");
		ASSUME(env_cbq_tail < ENV_MAXCB);
		env_cbq[env_cbq_tail++] = aio;
		aio->a_task.task_busy++;
	}
}

int
env_callbacks_pending(void)
{
	return env_cbq_tail - env_cbq_head;
}

int
env_run_callbacks(void)
{
	int n = 0;
	while (env_cbq_head < env_cbq_tail) {
		nni_aio *aio = env_cbq[env_cbq_head++];
		if (aio == NULL)
			continue; /* already run inline by stop/wait */
		aio->a_task.task_busy--;
		aio->a_task.task_cb(aio->a_task.task_arg);
		n++;
	}
	return n;
}

static void
env_run_callback_of(nni_aio *aio)
{
	for (int i = 0; i < ENV_MAXCB; i++) {
		if (i >= env_cbq_head && i < env_cbq_tail && env_cbq[i] == aio) {
			env_cbq[i] = NULL;
			aio->a_task.task_busy--;
			aio->a_task.task_cb(aio->a_task.task_arg);
		}
	}
}

/* ---- lifecycle --------------------------------------------------------- */
void
nni_aio_init(nni_aio *aio, nni_cb cb, void *arg)
{
	static const nni_aio zero;
	*aio = zero; /* struct assignment instead of memset: keeps field sensitivity in symex */
	aio->a_task.task_cb  = cb;
	aio->a_task.task_arg = arg;
	aio->a_expire        = NNI_TIME_NEVER;
	aio->a_timeout       = NNG_DURATION_INFINITE;
	aio->a_init          = true;
}

/* The real nni_aio_fini tears down the aio's task (mutex and condition variable destroyed) but leaves a_init set, so a
 * later close / stop / second fini of the same object works on destroyed synchronisation objects.  The model marks a
 * finalised aio (a_expire_q is not used by the model otherwise) and reports any later life-cycle call on it. */
#define ENV_AIO_DEAD(aio) ((aio) != NULL && !(aio)->a_init && (aio)->a_expire_q != NULL)
#define ENV_AIO_LIVE_OR_NEVER(aio) CHECK(!ENV_AIO_DEAD(aio), "aio used again after nni_aio_fini (its task has been torn down)")

static void
env_cancel_with(nni_aio *aio, nng_err rv)
{
	nni_aio_cancel_fn fn  = aio->a_cancel_fn;
	void             *arg = aio->a_cancel_arg;
	aio->a_cancel_fn      = NULL;
	aio->a_cancel_arg     = NULL;
	if (fn != NULL) {
		fn(aio, arg, rv);
	}
}

void
nni_aio_close(nni_aio *aio)
{
	ENV_AIO_LIVE_OR_NEVER(aio);
	if (aio != NULL && aio->a_init) {
		aio->a_stop = true;
		env_cancel_with(aio, NNG_ESTOPPED);
	}
}

void
nni_aio_wait(nni_aio *aio)
{
	if (aio != NULL && aio->a_init) {
		env_run_callback_of(aio);
		CHECK(env_tab[env_slot(aio)].owed == 0, "nni_aio_wait/stop would block forever: operation still outstanding and nobody will complete it");
	}
}

void
nni_aio_stop(nni_aio *aio)
{
	ENV_AIO_LIVE_OR_NEVER(aio);
	if (aio != NULL && aio->a_init) {
		aio->a_stop = true;
		env_cancel_with(aio, NNG_ESTOPPED);
		nni_aio_wait(aio);
	}
}

void
nni_aio_fini(nni_aio *aio)
{
	ENV_AIO_LIVE_OR_NEVER(aio);
	if (aio != NULL && aio->a_init) {
		aio->a_stop = true;
		env_cancel_with(aio, NNG_ESTOPPED);
		env_run_callback_of(aio);
		aio->a_init     = false;
		aio->a_expire_q = (nni_aio_expire_q *) aio; /* finalised */
	}
}

nng_err
nni_aio_alloc(nni_aio **aio_p, nni_cb cb, void *arg)
{
	nni_aio *aio;
	if ((aio = NNI_ALLOC_STRUCT(aio)) == NULL) {
		return (NNG_ENOMEM);
	}
	nni_aio_init(aio, cb, arg);
	*aio_p = aio;
	return (NNG_OK);
}

void
nni_aio_free(nni_aio *aio)
{
	if (aio != NULL) {
		nni_aio_fini(aio);
		NNI_FREE_STRUCT(aio);
	}
}
void
nni_aio_free_cb(void *aio)
{
	nni_aio_free((nni_aio *) aio);
}

/* ---- reaping ----------------------------------------------------------- */
static struct {
	nni_cb fn;
	void  *item;
} env_reapq[ENV_MAXREAP];
static int env_nreap;

void
nni_reap(nni_reap_list *rl, void *item)
{
	CHECK(env_nreap < ENV_MAXREAP, "env_aio: reap queue large enough");
	ASSUME(env_nreap < ENV_MAXREAP);
	env_reapq[env_nreap].fn   = rl->rl_func;
	env_reapq[env_nreap].item = item;
	env_nreap++;
}
void
nni_aio_reap(nni_aio *aio)
{
	if (aio != NULL && aio->a_init) {
		CHECK(env_nreap < ENV_MAXREAP, "env_aio: reap queue large enough");
		ASSUME(env_nreap < ENV_MAXREAP);
		env_reapq[env_nreap].fn   = nni_aio_free_cb;
		env_reapq[env_nreap].item = aio;
		env_nreap++;
	}
}
/* for harnesses that know which destructor is due: calling it directly avoids a
 * function-pointer call that CBMC expands over every void(*)(void *) in the program */
int
env_reap_pending(void)
{
	return env_nreap;
}
void *
env_reap_take(int i)
{
	void *it = env_reapq[i].item;
	for (int k = i; k + 1 < ENV_MAXREAP; k++) {
		if (k + 1 < env_nreap)
			env_reapq[k] = env_reapq[k + 1];
	}
	env_nreap--;
	return it;
}
int
env_reap_run(void)
{
	int n = 0;
	for (int i = 0; i < ENV_MAXREAP; i++) {
		if (i < env_nreap) {
			env_reapq[i].fn(env_reapq[i].item);
			n++;
		}
	}
	env_nreap = 0;
	return n;
}

/* ---- start / abort / finish ------------------------------------------- */
/* "the operation has finished, its result is final until the aio is reset or started again": an abort
 * arriving then has no effect (real aio.c: a_done, decided on the real code by the C02 schedules).  The
 * model keeps its own latch in a field of the structure that it does not use otherwise (a_expiring: the
 * model has no expiry thread holding aios), so that it does not depend on how the real aio.c names its own. */
#define ENV_DONE(aio) ((aio)->a_expiring)
void
nni_aio_reset(nni_aio *aio)
{
	aio->a_result           = NNG_OK;
	aio->a_count            = 0;
	aio->a_abort            = false;
	ENV_DONE(aio)           = false;
	aio->a_expire_ok        = false;
	aio->a_sleep            = false;
	aio->a_skipped_callback = NULL;
	for (unsigned i = 0; i < NNI_NUM_ELEMENTS(aio->a_outputs); i++) {
		aio->a_outputs[i] = NULL;
	}
}

bool
nni_aio_start(nni_aio *aio, nni_aio_cancel_fn cancel, void *data)
{
	bool timeout = false;

	/* an internal aio (one with a callback) handed to a real provider such as
	 * core/msgqueue.c is announced by the provider's own nni_aio_start; user
	 * aios and pipe transfers are announced explicitly (env_aio_submit) */
	if (aio->a_task.task_cb != NULL) {
		int i_ = env_slot(aio);
		if (env_tab[i_].owed == 0) {
			env_tab[i_].owed      = 1;
			env_tab[i_].completed = 0;
		}
	}

	if (!aio->a_sleep && !aio->a_use_expire) {
		switch (aio->a_timeout) {
		case NNG_DURATION_ZERO:
			timeout = true;
			break;
		case NNG_DURATION_INFINITE:
		case NNG_DURATION_DEFAULT:
			aio->a_expire = NNI_TIME_NEVER;
			break;
		default:
			aio->a_expire = nni_clock() + aio->a_timeout;
			break;
		}
	} else if (aio->a_use_expire && aio->a_expire <= nni_clock()) {
		timeout = true;
	}
	if (!aio->a_sleep) {
		aio->a_expire_ok = false;
	}
	aio->a_skipped_callback = NULL;

	if (aio->a_stop) {
		aio->a_sleep     = false;
		aio->a_expire_ok = false;
		aio->a_count     = 0;
		aio->a_result    = NNG_ESTOPPED;
		ENV_DONE(aio)    = true;
		env_complete(aio);
		return (false);
	}
	if (aio->a_abort) {
		aio->a_sleep     = false;
		aio->a_abort     = false;
		ENV_DONE(aio)    = true;
		aio->a_expire_ok = false;
		aio->a_count     = 0;
		env_complete(aio);
		return (false);
	}
	aio->a_result = NNG_OK;
	ENV_DONE(aio) = false;
	if (timeout) {
		aio->a_sleep     = false;
		aio->a_result    = aio->a_expire_ok ? NNG_OK : NNG_ETIMEDOUT;
		ENV_DONE(aio)    = true;
		aio->a_expire_ok = false;
		aio->a_count     = 0;
		env_complete(aio);
		return (false);
	}
	CHECK(aio->a_cancel_fn == NULL, "nni_aio_start on an aio that already has a cancel function (operation in progress)");
	aio->a_cancel_fn  = cancel;
	aio->a_cancel_arg = data;
	return (true);
}

void
nni_aio_abort(nni_aio *aio, nng_err rv)
{
	if (aio != NULL && aio->a_init) {
		nni_aio_cancel_fn fn  = aio->a_cancel_fn;
		void             *arg = aio->a_cancel_arg;
		aio->a_cancel_fn      = NULL;
		aio->a_cancel_arg     = NULL;
		if (fn == NULL) {
			if (!ENV_DONE(aio)) {
				aio->a_abort  = true;
				aio->a_result = rv;
			}
		} else {
			fn(aio, arg, rv);
		}
	}
}

void
env_aio_expire(nni_aio *aio)
{
	/* what nni_aio_expire_loop does for one expired aio */
	nng_err rv;
	if (aio->a_expire_ok) {
		aio->a_expire_ok = false;
		rv               = 0;
	} else {
		rv = NNG_ETIMEDOUT;
	}
	nni_aio_cancel_fn fn  = aio->a_cancel_fn;
	void             *arg = aio->a_cancel_arg;
	aio->a_cancel_fn      = NULL;
	aio->a_cancel_arg     = NULL;
	if (aio->a_sleep) {
		aio->a_result = rv;
		ENV_DONE(aio) = true;
		aio->a_sleep  = false;
		env_complete(aio);
	} else if (fn != NULL) {
		fn(aio, arg, rv);
	}
}

static void
env_finish_impl(nni_aio *aio, nng_err rv, size_t count, nni_msg *msg)
{
	bool *skipped_cb;
	aio->a_result     = rv;
	aio->a_count      = count;
	ENV_DONE(aio)     = true;
	aio->a_cancel_fn  = NULL;
	aio->a_cancel_arg = NULL;
	if (msg) {
		aio->a_msg = msg;
	}
	aio->a_expire           = NNI_TIME_NEVER;
	aio->a_sleep            = false;
	aio->a_use_expire       = false;
	skipped_cb              = aio->a_skipped_callback;
	aio->a_skipped_callback = NULL;
	if (skipped_cb != NULL) {
		int i = env_slot(aio);
		CHECK(env_tab[i].owed == 1, "aio completed although no operation is outstanding on it (double or stray completion)");
		env_tab[i].owed = 0;
		env_tab[i].completed++;
		env_aio_total_completions++;
		*skipped_cb = true;
	} else {
		env_complete(aio);
	}
}

void
nni_aio_finish(nni_aio *aio, nng_err result, size_t count)
{
	env_finish_impl(aio, result, count, NULL);
}
void
nni_aio_finish_sync(nni_aio *aio, nng_err result, size_t count)
{
	env_finish_impl(aio, result, count, NULL);
}
void
nni_aio_finish_error(nni_aio *aio, nng_err result)
{
	env_finish_impl(aio, result, 0, NULL);
}
void
nni_aio_finish_msg(nni_aio *aio, nni_msg *msg)
{
	CHECK(msg != NULL, "nni_aio_finish_msg with a NULL message");
	env_finish_impl(aio, 0, nni_msg_len(msg), msg);
}
void
nni_aio_skip_callback(nni_aio *aio, bool *skipped_callback)
{
	*skipped_callback       = false;
	aio->a_skipped_callback = skipped_callback;
}

static void
env_sleep_cancel(nng_aio *aio, void *arg, nng_err rv)
{
	(void) arg;
	if (!aio->a_sleep) {
		return;
	}
	aio->a_sleep = false;
	nni_aio_finish_error(aio, rv);
}

void
nni_sleep_aio(nng_duration ms, nng_aio *aio)
{
	nni_aio_reset(aio);
	aio->a_expire_ok = true;
	aio->a_sleep     = true;
	switch (aio->a_timeout) {
	case NNG_DURATION_DEFAULT:
	case NNG_DURATION_INFINITE:
		break;
	default:
		if ((ms == NNG_DURATION_INFINITE) || (ms > aio->a_timeout)) {
			aio->a_expire_ok = false;
			ms               = aio->a_timeout;
		}
	}
	aio->a_expire = ms == NNG_DURATION_INFINITE ? NNI_TIME_NEVER : nni_clock() + ms;
	env_aio_submit(aio);
	(void) nni_aio_start(aio, env_sleep_cancel, NULL);
}

/* ---- plain accessors (as in core/aio.c) -------------------------------- */
void
nni_aio_set_timeout(nni_aio *aio, nni_duration when)
{
	aio->a_timeout    = when;
	aio->a_use_expire = false;
}
void
nni_aio_set_expire(nni_aio *aio, nni_time expire)
{
	aio->a_expire     = expire;
	aio->a_use_expire = true;
}
nng_duration
nni_aio_get_timeout(nni_aio *aio)
{
	return (aio->a_timeout);
}
void
nni_aio_set_msg(nni_aio *aio, nni_msg *msg)
{
	aio->a_msg = msg;
}
nni_msg *
nni_aio_get_msg(nni_aio *aio)
{
	return (aio->a_msg);
}
void
nni_aio_set_input(nni_aio *aio, unsigned index, void *data)
{
	if (index < NNI_NUM_ELEMENTS(aio->a_inputs)) {
		aio->a_inputs[index] = data;
	}
}
void *
nni_aio_get_input(nni_aio *aio, unsigned index)
{
	if (index < NNI_NUM_ELEMENTS(aio->a_inputs)) {
		return (aio->a_inputs[index]);
	}
	return (NULL);
}
void
nni_aio_set_output(nni_aio *aio, unsigned index, void *data)
{
	if (index < NNI_NUM_ELEMENTS(aio->a_outputs)) {
		aio->a_outputs[index] = data;
	}
}
void *
nni_aio_get_output(nni_aio *aio, unsigned index)
{
	if (index < NNI_NUM_ELEMENTS(aio->a_outputs)) {
		return (aio->a_outputs[index]);
	}
	return (NULL);
}
nng_err
nni_aio_result(nni_aio *aio)
{
	return (aio->a_result);
}
size_t
nni_aio_count(nni_aio *aio)
{
	return (aio->a_count);
}
bool
nni_aio_busy(nni_aio *aio)
{
	return env_tab[env_slot(aio)].owed != 0 || aio->a_task.task_busy != 0;
}
void
nni_aio_list_init(nni_list *list)
{
	NNI_LIST_INIT(list, nni_aio, a_prov_node);
}
void
nni_aio_list_append(nni_list *list, nni_aio *aio)
{
	nni_aio_list_remove(aio);
	nni_list_append(list, aio);
}
void
nni_aio_list_remove(nni_aio *aio)
{
	nni_list_node_remove(&aio->a_prov_node);
}
int
nni_aio_list_active(nni_aio *aio)
{
	return (nni_list_node_active(&aio->a_prov_node));
}
void
nni_aio_completions_init(nni_aio_completions *clp)
{
	*clp = NULL;
}
void
nni_aio_completions_add(nni_aio_completions *clp, nni_aio *aio, nng_err result, size_t count)
{
	CHECK(!nni_aio_list_active(aio), "aio added to a completion list while still on a provider list");
	aio->a_reap_node.rn_next = *clp;
	aio->a_result            = result;
	aio->a_count             = count;
	*clp                     = aio;
}
void
nni_aio_completions_run(nni_aio_completions *clp)
{
	nni_aio *aio;
	nni_aio *cl = *clp;
	*clp        = NULL;
	while ((aio = cl) != NULL) {
		cl                       = (void *) aio->a_reap_node.rn_next;
		aio->a_reap_node.rn_next = NULL;
		nni_aio_finish_sync(aio, aio->a_result, aio->a_count);
	}
}
void *
nni_aio_get_prov_data(nni_aio *aio)
{
	return (aio->a_prov_data);
}
void
nni_aio_set_prov_data(nni_aio *aio, void *data)
{
	aio->a_prov_data = data;
}
void
nni_aio_get_iov(nni_aio *aio, unsigned *nio_p, nni_iov **iov_p)
{
	*nio_p = aio->a_nio;
	*iov_p = aio->a_iov;
}
void
nni_aio_normalize_timeout(nni_aio *aio, nng_duration dur)
{
	if (aio->a_timeout == NNG_DURATION_DEFAULT) {
		aio->a_timeout = dur;
	}
}
void
nni_aio_bump_count(nni_aio *aio, size_t n)
{
	aio->a_count += n;
}
nng_err
nni_aio_set_iov(nni_aio *aio, unsigned nio, const nni_iov *iov)
{
	if (nio > NNI_NUM_ELEMENTS((aio->a_iov))) {
		return (NNG_EINVAL);
	}
	if (iov != &aio->a_iov[0]) {
		for (unsigned i = 0; i < nio; i++) {
			aio->a_iov[i] = iov[i];
		}
	}
	aio->a_nio = nio;
	return (NNG_OK);
}
/* The iov arithmetic below is the *specification* (consume n bytes from the
 * front of the vector); C01's iov harness proves the real
 * nni_aio_iov_advance / nni_aio_iov_count equivalent to it. */
/* as core/aio.c: keeps the running byte count of one system call within INT_MAX */
bool
nni_aio_iov_clamp_len(size_t *len, size_t *count)
{
	size_t headroom = (size_t) 0x7fffffff - *count;
	bool   clamped  = *len > headroom;
	if (clamped) {
		*len = headroom;
	}
	*count += *len;
	return clamped;
}
size_t
nni_aio_iov_count(nni_aio *aio)
{
	size_t residual = 0;
	for (unsigned i = 0; i < aio->a_nio; i++) {
		residual += aio->a_iov[i].iov_len;
	}
	return (residual);
}
size_t
nni_aio_iov_advance(nni_aio *aio, size_t n)
{
	while (n > 0 && aio->a_nio > 0) {
		if (aio->a_iov[0].iov_len > n) {
			aio->a_iov[0].iov_len -= n;
			aio->a_iov[0].iov_buf = ((uint8_t *) aio->a_iov[0].iov_buf) + n;
			return (0);
		}
		n -= aio->a_iov[0].iov_len;
		aio->a_nio--;
		for (unsigned i = 0; i < aio->a_nio; i++) {
			aio->a_iov[i] = aio->a_iov[i + 1];
		}
		aio->a_iov[aio->a_nio].iov_buf = NULL;
		aio->a_iov[aio->a_nio].iov_len = 0;
	}
	return (n);
}

/* env_aio.h - harness side of the aio model (env_aio.c) */
#ifndef ENV_AIO_H
#define ENV_AIO_H
#include "core/nng_impl.h"
#include "vh.h"

/* the harness (or env_pipe) announces that `aio` has been handed to a
 * provider: exactly one completion is now owed */
extern void env_aio_submit(nni_aio *aio);
/* completions seen since the last submit (0 or 1; 2 is a CHECK failure) */
extern int  env_aio_completed(nni_aio *aio);
extern int  env_aio_outstanding(nni_aio *aio);
/* run queued callbacks (internal aios with a callback) until none is left;
 * returns the number run */
extern int  env_run_callbacks(void);
extern int  env_callbacks_pending(void);
/* the expiry thread's action for one aio (harness decides when) */
extern void env_aio_expire(nni_aio *aio);
/* deferred destruction (nni_reap / nni_aio_reap) */
extern int  env_reap_run(void);
extern int  env_reap_pending(void);
extern void *env_reap_take(int i);
extern int  env_aio_total_completions;
extern nni_time env_now; /* what nni_clock() returns */
extern u32      env_random_value;
#endif

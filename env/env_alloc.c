/* env_alloc.c - model of the platform allocator (platform/posix/posix_alloc.c +
 * core/alloc.c).  Same contract as the real one: size 0 yields NULL, zalloc
 * zero-fills, free takes the size.  Adds
 *   - sized-free accounting (nni_free must be given the allocation size),
 *   - optional single-fault injection: the env_alloc_fail_at-th allocation
 *     (0-based) returns NULL; -1 = allocations succeed (stated assumption). */
#include "vh.h"
#include <stdlib.h>
#include <string.h>

int env_alloc_fail_at = -1; /* which allocation fails */
int env_alloc_count   = 0;  /* allocations attempted so far */
int env_alloc_failed  = 0;  /* a failure was injected */
int env_msg_failed    = 0;  /* ... by the message model (env_msg.c); defined here because every query links this file */
int env_idmap_failed  = 0;  /* ... by the id-map model (env_idmap.c) */
int env_alloc_live    = 0;  /* live blocks */
size_t env_alloc_limit    = 0; /* if non-zero: requests above it fail (observed through env_alloc_last_req) */
size_t env_alloc_last_req = 0;
size_t env_alloc_last_refused = 0;
int env_alloc_small_only = 0; /* harness promise (checked): bit0 every nni_alloc, bit1 every nni_zalloc request is <= 24 bytes */

#if VH_NATIVE
#define ENV_MAXBLK 4096
static struct {
	void  *p;
	size_t sz;
} env_blk[ENV_MAXBLK];
static void
env_blk_add(void *p, size_t sz)
{
	for (int i = 0; i < ENV_MAXBLK; i++)
		if (env_blk[i].p == NULL) {
			env_blk[i].p  = p;
			env_blk[i].sz = sz;
			return;
		}
}
static size_t
env_blk_del(void *p)
{
	for (int i = 0; i < ENV_MAXBLK; i++)
		if (env_blk[i].p == p) {
			env_blk[i].p = NULL;
			return env_blk[i].sz;
		}
	return (size_t) -1;
}
#endif

static void *
env_do_alloc(size_t sz, int zero)
{
	void *p;
	if (sz == 0) {
		return NULL;
	}
	env_alloc_last_req = sz;
	if (env_alloc_limit != 0 && sz > env_alloc_limit && (sz > 512 || !zero)) {
		env_alloc_last_refused = sz;
		return NULL; /* huge request: observed, refused (keeps object sizes concrete) */
	}
	if (env_alloc_limit != 0 && sz > env_alloc_limit && sz <= 512) {
		/* fall through: structs up to 512 bytes are still served */
	}
	if (env_alloc_count++ == env_alloc_fail_at) {
		env_alloc_failed = 1;
		return NULL;
	}
#if !VH_NATIVE
	/* A heap object of symbolic size is what exhausts the bit-blaster (DESIGN
	 * R3).  Small sizes are split into one allocation site per concrete size:
	 * a concrete request takes exactly one branch; a symbolic request that the
	 * solver knows to be small becomes a pointer to one of <= 24 fixed-size
	 * objects instead of one object of symbolic size.  Opt-in (env_alloc_small_only):
	 * for harnesses whose symbolic sizes are small by construction the split is
	 * slower than one symbolic-size object (measured on lmq/msgq resize). */
#define ENV_CASE(n)                                   \
	case n:                                       \
		p = zero ? calloc(1, n) : malloc(n);  \
		break;
	switch (env_alloc_small_only ? sz : (size_t) 0) {
		ENV_CASE(1) ENV_CASE(2) ENV_CASE(3) ENV_CASE(4) ENV_CASE(5) ENV_CASE(6) ENV_CASE(7) ENV_CASE(8)
		ENV_CASE(9) ENV_CASE(10) ENV_CASE(11) ENV_CASE(12) ENV_CASE(13) ENV_CASE(14) ENV_CASE(15) ENV_CASE(16)
		ENV_CASE(17) ENV_CASE(18) ENV_CASE(19) ENV_CASE(20) ENV_CASE(21) ENV_CASE(22) ENV_CASE(23) ENV_CASE(24)
	default:
		if ((env_alloc_small_only & (zero ? 2 : 1)) != 0) {
			/* proof obligation, then cut: the harness claims every request
			 * is <= 24 bytes, so no symbolic-size object is ever created */
			CHECK(0, "allocation request above 24 bytes in a harness that declared small allocations only");
			ASSUME(0);
		}
		p = zero ? calloc(1, sz) : malloc(sz);
		break;
	}
#else
	p = zero ? calloc(1, sz) : malloc(sz);
#endif
	ASSUME(p != NULL);
	env_alloc_live++;
#if VH_NATIVE
	env_blk_add(p, sz);
#endif
	return p;
}

void *
nni_alloc(size_t sz)
{
	return env_do_alloc(sz, 0);
}

void *
nni_zalloc(size_t sz)
{
	return env_do_alloc(sz, 1);
}

void
nni_free(void *ptr, size_t size)
{
	if (ptr == NULL) {
		return;
	}
#if VH_NATIVE
	{
		size_t real = env_blk_del(ptr);
		CHECK(real != (size_t) -1, "nni_free of a block not obtained from nni_alloc");
		CHECK(real == size, "nni_free size differs from allocation size");
	}
#else
	CHECK(__CPROVER_POINTER_OFFSET(ptr) == 0, "nni_free of an interior pointer");
	CHECK(__CPROVER_OBJECT_SIZE(ptr) == size, "nni_free size differs from allocation size");
#endif
	env_alloc_live--;
	free(ptr);
}

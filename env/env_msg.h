#ifndef ENV_MSG_H
#define ENV_MSG_H
#include "core/nng_impl.h"
#include "vh.h"
#ifndef ENV_MSG_CAP
#define ENV_MSG_CAP 24 /* largest body the model carries */
#endif
#define ENV_MSG_HEADROOM 72 /* a full backtrace (64) + 8 can be inserted / pulled up */
#define ENV_MSG_STORE (ENV_MSG_HEADROOM + ENV_MSG_CAP)
struct nng_msg {
	u8     hdr[64];
	size_t hlen;
	u8     store[ENV_MSG_STORE];
	size_t off;
	size_t len;
	int    refcnt;
	u32    pipe;
	int    id;  /* allocation sequence number (monitor use) */
	int    tag; /* set by harnesses, copied by dup (monitor use) */
};
extern int env_msg_live, env_msg_allocs, env_msg_seq, env_msg_fail_at, env_msg_failed;
#endif

/* env_msg.c - the message model: nng_msg as the pair of byte strings that C17
 * shows the real core/message.c to implement (header <= 64 bytes, body in a
 * fixed window of ENV_MSG_CAP bytes with ENV_MSG_HEADROOM bytes of headroom),
 * one fixed-size heap object per message.  Used instead of the real message.c
 * in protocol / transport harnesses (assume-guarantee, DESIGN 3.2).
 * Monitors: reference count never underflows, a freed message is never
 * touched again (CBMC pointer checks on the heap object), env_msg_live counts
 * live messages for leak assertions. */
#include "env_msg.h"
#include <stdlib.h>
#include <string.h>

int env_msg_live   = 0;
int env_msg_allocs = 0;
int env_msg_seq    = 0;
int env_msg_fail_at = -1; /* C20: the n-th nni_msg_alloc/nni_msg_dup (0-based) fails with NNG_ENOMEM */
extern int env_msg_failed; /* env_alloc.c */

int
nni_msg_alloc(nni_msg **mp, size_t sz)
{
	nni_msg *m;
	if (env_msg_fail_at >= 0 && env_msg_allocs == env_msg_fail_at) {
		env_msg_fail_at = -1;
		env_msg_failed  = 1;
		return (NNG_ENOMEM);
	}
	CHECK(sz <= ENV_MSG_CAP, "env_msg: body size within the model's capacity");
	ASSUME(sz <= ENV_MSG_CAP);
	m = malloc(sizeof(*m));
	ASSUME(m != NULL);
	{
		static const struct nng_msg zero;
		*m = zero; /* struct assignment: keeps the fields constant for symex (memset does not) */
	}
	m->off    = ENV_MSG_HEADROOM;
	m->len    = sz;
	m->refcnt = 1;
	m->id     = ++env_msg_seq;
	env_msg_live++;
	env_msg_allocs++;
	*mp = m;
	return (0);
}
void
nni_msg_free(nni_msg *m)
{
	if (m == NULL)
		return;
	CHECK(m->refcnt > 0, "message freed more often than it was referenced");
	if (--m->refcnt == 0) {
		env_msg_live--;
		free(m);
	}
}
void
nni_msg_clone(nni_msg *m)
{
	CHECK(m->refcnt > 0, "clone of a dead message");
	m->refcnt++;
}
int
nni_msg_dup(nni_msg **dup, const nni_msg *src)
{
	if (env_msg_fail_at >= 0 && env_msg_allocs == env_msg_fail_at) {
		env_msg_fail_at = -1;
		env_msg_failed  = 1;
		return (NNG_ENOMEM);
	}
	nni_msg *m = malloc(sizeof(*m));
	ASSUME(m != NULL);
	*m        = *src;
	m->refcnt = 1;
	m->id     = ++env_msg_seq;
	env_msg_live++;
	env_msg_allocs++;
	*dup = m;
	return (0);
}
nni_msg *
nni_msg_unique(nni_msg *m)
{
	nni_msg *m2;
	if (m->refcnt == 1)
		return (m);
	if (nni_msg_dup(&m2, m) != 0)
		m2 = NULL;
	nni_msg_free(m);
	return (m2);
}
bool
nni_msg_shared(nni_msg *m)
{
	return (m->refcnt > 1);
}
void *
nni_msg_header(nni_msg *m)
{
	return (m->hdr);
}
size_t
nni_msg_header_len(const nni_msg *m)
{
	return (m->hlen);
}
void *
nni_msg_body(nni_msg *m)
{
	return (m->store + m->off);
}
size_t
nni_msg_len(const nni_msg *m)
{
	return (m->len);
}
size_t
nni_msg_capacity(nni_msg *m)
{
	return (ENV_MSG_STORE - m->off);
}
int
nni_msg_reserve(nni_msg *m, size_t c)
{
	(void) m;
	CHECK(c <= ENV_MSG_CAP, "env_msg: reserve within the model's capacity");
	return (0);
}
int
nni_msg_realloc(nni_msg *m, size_t sz)
{
	CHECK(sz <= ENV_MSG_STORE - m->off, "env_msg: realloc within the model's capacity");
	ASSUME(sz <= ENV_MSG_STORE - m->off);
	m->len = sz;
	return (0);
}
int
nni_msg_append(nni_msg *m, const void *data, size_t n)
{
	CHECK(m->off + m->len + n <= ENV_MSG_STORE, "env_msg: append within the model's capacity");
	ASSUME(m->off + m->len + n <= ENV_MSG_STORE);
	if (data != NULL)
		for (size_t i = 0; i < n; i++)
			m->store[m->off + m->len + i] = ((const u8 *) data)[i];
	m->len += n;
	return (0);
}
int
nni_msg_insert(nni_msg *m, const void *data, size_t n)
{
	CHECK(n <= m->off, "env_msg: insert within the model's headroom");
	ASSUME(n <= m->off);
	m->off -= n;
	m->len += n;
	if (data != NULL)
		for (size_t i = 0; i < n; i++)
			m->store[m->off + i] = ((const u8 *) data)[i];
	return (0);
}
int
nni_msg_trim(nni_msg *m, size_t n)
{
	if (n > m->len)
		return (NNG_EINVAL);
	m->off += n;
	m->len -= n;
	return (0);
}
int
nni_msg_chop(nni_msg *m, size_t n)
{
	if (n > m->len)
		return (NNG_EINVAL);
	m->len -= n;
	return (0);
}
void
nni_msg_clear(nni_msg *m)
{
	m->len = 0;
}
uint32_t
nni_msg_trim_u32(nni_msg *m)
{
	u32 v;
	CHECK(m->len >= 4, "nni_msg_trim_u32 on a body shorter than 4 bytes");
	ASSUME(m->len >= 4);
	const u8 *p = m->store + m->off;
	v           = ((u32) p[0] << 24) | ((u32) p[1] << 16) | ((u32) p[2] << 8) | p[3];
	m->off += 4;
	m->len -= 4;
	return (v);
}
/* ---- header: 64 bytes, byte addressed ---- */
int
nni_msg_header_append(nni_msg *m, const void *data, size_t n)
{
	if (n + m->hlen > sizeof(m->hdr))
		return (NNG_EINVAL);
	for (size_t i = 0; i < n; i++)
		m->hdr[m->hlen + i] = ((const u8 *) data)[i];
	m->hlen += n;
	return (0);
}
int
nni_msg_header_insert(nni_msg *m, const void *data, size_t n)
{
	if (n + m->hlen > sizeof(m->hdr))
		return (NNG_EINVAL);
	for (size_t i = m->hlen; i > 0; i--)
		m->hdr[i - 1 + n] = m->hdr[i - 1];
	for (size_t i = 0; i < n; i++)
		m->hdr[i] = ((const u8 *) data)[i];
	m->hlen += n;
	return (0);
}
int
nni_msg_header_trim(nni_msg *m, size_t n)
{
	if (n > m->hlen)
		return (NNG_EINVAL);
	for (size_t i = 0; i + n < m->hlen; i++)
		m->hdr[i] = m->hdr[i + n];
	m->hlen -= n;
	return (0);
}
int
nni_msg_header_chop(nni_msg *m, size_t n)
{
	if (n > m->hlen)
		return (NNG_EINVAL);
	m->hlen -= n;
	return (0);
}
void
nni_msg_header_clear(nni_msg *m)
{
	m->hlen = 0;
}
void
nni_msg_header_append_u32(nni_msg *m, uint32_t v)
{
	/* the real function panics when the header would become full; C13's
	 * header-capacity harness checks that guard on the real message.c */
	CHECK(m->hlen + 4 < sizeof(m->hdr), "nni_msg_header_append_u32 would hit the header over-run panic");
	ASSUME(m->hlen + 4 <= sizeof(m->hdr));
	m->hdr[m->hlen + 0] = (u8) (v >> 24);
	m->hdr[m->hlen + 1] = (u8) (v >> 16);
	m->hdr[m->hlen + 2] = (u8) (v >> 8);
	m->hdr[m->hlen + 3] = (u8) v;
	m->hlen += 4;
}
uint32_t
nni_msg_header_trim_u32(nni_msg *m)
{
	u32 v;
	CHECK(m->hlen >= 4, "nni_msg_header_trim_u32 on a header shorter than 4 bytes");
	ASSUME(m->hlen >= 4);
	v = ((u32) m->hdr[0] << 24) | ((u32) m->hdr[1] << 16) | ((u32) m->hdr[2] << 8) | m->hdr[3];
	nni_msg_header_trim(m, 4);
	return (v);
}
uint32_t
nni_msg_header_peek_u32(nni_msg *m)
{
	return ((u32) m->hdr[0] << 24) | ((u32) m->hdr[1] << 16) | ((u32) m->hdr[2] << 8) | m->hdr[3];
}
void
nni_msg_header_poke_u32(nni_msg *m, uint32_t v)
{
	m->hdr[0] = (u8) (v >> 24);
	m->hdr[1] = (u8) (v >> 16);
	m->hdr[2] = (u8) (v >> 8);
	m->hdr[3] = (u8) v;
}
void
nni_msg_set_pipe(nni_msg *m, uint32_t pid)
{
	m->pipe = pid;
}
uint32_t
nni_msg_get_pipe(const nni_msg *m)
{
	return (m->pipe);
}
nni_msg *
nni_msg_pull_up(nni_msg *m)
{
	/* header merged in front of the body, message made unique.  As in core/message.c a shared message has to
	 * be duplicated; when that allocation fails NULL is returned and the original is NOT consumed */
	if (m->refcnt != 1 && env_msg_fail_at >= 0 && env_msg_allocs == env_msg_fail_at) {
		env_msg_fail_at = -1;
		env_msg_failed  = 1;
		return (NULL);
	}
	nni_msg *u = nni_msg_unique(m);
	size_t   h = u->hlen;
	CHECK(h <= u->off, "env_msg: pull_up within the model's headroom");
	ASSUME(h <= u->off);
	u->off -= h;
	u->len += h;
	for (size_t i = 0; i < h; i++)
		u->store[u->off + i] = u->hdr[i];
	u->hlen = 0;
	return (u);
}
static nng_sockaddr env_msg_addr;
const nng_sockaddr *
nni_msg_address(const nni_msg *m)
{
	(void) m;
	return (&env_msg_addr);
}
void
nni_msg_set_address(nng_msg *m, const nng_sockaddr *a)
{
	(void) m;
	(void) a;
}

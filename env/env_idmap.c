/* env_idmap.c - the id-map model: nni_id_map as a finite map of at most
 * ENV_IDMAP_MAX live (key,value) pairs with the real nni_id_alloc cursor
 * arithmetic.  C18 shows the real core/idhash.c to implement exactly this
 * specification; protocol harnesses use the model (the real table costs
 * 33-58 GB per skeleton, DESIGN section 1). */
#include "core/nng_impl.h"
#include "vh.h"
#include <stdlib.h>
#define ENV_IDMAP_MAX 6
/* C20: the real table grows by allocating (id_resize); the env_idmap_fail_at-th insertion of a NEW key (0-based, counted
 * over nni_id_set and nni_id_alloc of all maps) fails with NNG_ENOMEM and changes nothing, as a failed grow does */
int        env_idmap_fail_at = -1;
int        env_idmap_inserts = 0;
extern int env_idmap_failed; /* env_alloc.c */
struct nni_id_entry {
	uint64_t key;
	uint32_t skips;
	void    *val;
};
/* tables come from a static, typed pool: values read back from a calloc'd
 * table reach symex as byte_extract expressions, i.e. never as constants, and a
 * non-constant context pointer makes every intrusive-list test symbolic */
#define ENV_IDMAP_POOL 4
static nni_id_entry env_pool[ENV_IDMAP_POOL][ENV_IDMAP_MAX];
static int          env_pool_used;
static nni_id_entry *
env_tab(nni_id_map *m)
{
	if (m->id_entries == NULL) {
		CHECK(env_pool_used < ENV_IDMAP_POOL, "env_idmap: pool large enough");
		ASSUME(env_pool_used < ENV_IDMAP_POOL);
		m->id_entries = env_pool[env_pool_used++];
		for (int i = 0; i < ENV_IDMAP_MAX; i++) {
			m->id_entries[i].key = 0;
			m->id_entries[i].val = NULL;
		}
		m->id_cap = ENV_IDMAP_MAX;
	}
	return m->id_entries;
}
void
nni_id_map_init(nni_id_map *m, uint64_t lo, uint64_t hi, bool randomize)
{
	if (lo == 0)
		lo = 1;
	if (hi == 0)
		hi = 0xffffffffu;
	m->id_entries = NULL;
	m->id_count   = 0;
	m->id_cap     = 0;
	m->id_dyn_val = 0;
	m->id_min_val = lo;
	m->id_max_val = hi;
	m->id_random  = randomize;
}
void
nni_id_map_fini(nni_id_map *m)
{
	if (m->id_entries != NULL) {
		m->id_entries = NULL;
		m->id_count   = 0;
	}
}
void *
nni_id_get(nni_id_map *m, uint64_t id)
{
	if (m->id_count == 0)
		return NULL;
	nni_id_entry *t = env_tab(m);
	for (int i = 0; i < ENV_IDMAP_MAX; i++)
		if (t[i].val != NULL && t[i].key == id)
			return t[i].val;
	return NULL;
}
int
nni_id_set(nni_id_map *m, uint64_t id, void *val)
{
	nni_id_entry *t = env_tab(m);
	for (int i = 0; i < ENV_IDMAP_MAX; i++)
		if (t[i].val != NULL && t[i].key == id) {
			t[i].val = val;
			return 0;
		}
	if (env_idmap_fail_at >= 0 && env_idmap_inserts++ == env_idmap_fail_at) {
		env_idmap_fail_at = -1;
		env_idmap_failed  = 1;
		return NNG_ENOMEM;
	}
	for (int i = 0; i < ENV_IDMAP_MAX; i++)
		if (t[i].val == NULL) {
			t[i].key = id;
			t[i].val = val;
			m->id_count++;
			return 0;
		}
	CHECK(0, "env_idmap: more live ids than the model holds");
	ASSUME(0);
	return NNG_ENOMEM;
}
int
nni_id_remove(nni_id_map *m, uint64_t id)
{
	if (m->id_count == 0)
		return NNG_ENOENT;
	nni_id_entry *t = env_tab(m);
	for (int i = 0; i < ENV_IDMAP_MAX; i++)
		if (t[i].val != NULL && t[i].key == id) {
			t[i].val = NULL;
			t[i].key = 0;
			m->id_count--;
			return 0;
		}
	return NNG_ENOENT;
}
int
nni_id_alloc(nni_id_map *m, uint64_t *idp, void *val)
{
	uint64_t id;
	int      rv;
	if (m->id_count > (m->id_max_val - m->id_min_val))
		return NNG_ENOMEM;
	if (m->id_dyn_val == 0) {
		if (m->id_random)
			m->id_dyn_val = nni_random() % (m->id_max_val - m->id_min_val + 1) + m->id_min_val;
		else
			m->id_dyn_val = m->id_min_val;
	}
	for (int guard = 0; guard <= ENV_IDMAP_MAX; guard++) {
		id = m->id_dyn_val;
		m->id_dyn_val++;
		if (m->id_dyn_val > m->id_max_val)
			m->id_dyn_val = m->id_min_val;
		if (nni_id_get(m, id) == NULL)
			break;
	}
	rv = nni_id_set(m, id, val);
	if (rv == 0)
		*idp = id;
	return rv;
}
int
nni_id_alloc32(nni_id_map *m, uint32_t *idp, void *val)
{
	uint64_t id = 0;
	int      rv = nni_id_alloc(m, &id, val);
	*idp        = (uint32_t) id;
	return rv;
}
bool
nni_id_visit(nni_id_map *m, uint64_t *keyp, void **valp, uint32_t *cursor)
{
	uint32_t index = *cursor;
	if (m->id_entries == NULL)
		return false;
	while (index < ENV_IDMAP_MAX) {
		if (m->id_entries[index].val != NULL) {
			if (valp != NULL)
				*valp = m->id_entries[index].val;
			if (keyp != NULL)
				*keyp = m->id_entries[index].key;
			*cursor = index + 1;
			return true;
		}
		index++;
	}
	*cursor = index;
	return false;
}
uint32_t
nni_id_count(const nni_id_map *m)
{
	return m->id_count;
}
void
nni_id_map_sys_fini(void)
{
}

/* vh.h - harness vocabulary shared by the symbolic (goto-cc/CBMC) build and the
 * native replay build (gcc + ASan/UBSan) of every harness under /verif/harness.
 *
 *   ND(type)       a fresh symbolic value (CBMC) / the next value of the
 *                  counterexample being replayed (native)
 *   ASSUME(c)      constrain inputs (CBMC) / replay must satisfy it (native)
 *   CHECK(c,msg)   the property (CBMC assertion) / replay failure (native)
 *   WITNESS(name)  reachability witness: must be reported FAILED by CBMC,
 *                  otherwise the harness is vacuous; recorded in native runs
 */
#ifndef VH_H
#define VH_H
#include <stdbool.h>
#include <stddef.h>
#include <stdint.h>

typedef uint8_t  u8;
typedef uint16_t u16;
typedef uint32_t u32;
typedef uint64_t u64;
typedef int32_t  i32;
typedef int64_t  i64;
typedef size_t   usz;
typedef int      vint;
typedef _Bool    vbool;

#ifdef VH_CBMC
u8    nondet_u8(void);
u16   nondet_u16(void);
u32   nondet_u32(void);
u64   nondet_u64(void);
i32   nondet_i32(void);
i64   nondet_i64(void);
usz   nondet_usz(void);
vint  nondet_vint(void);
vbool nondet_vbool(void);
#define ND(type) ({ type vh_nd_val = nondet_##type(); vh_nd_val; })
#define ASSUME(c) __CPROVER_assume(c)
#define CHECK(c, msg) __CPROVER_assert((c), "PROP " msg)
#define WITNESS(name) __CPROVER_assert(0, "WITNESS " name)
#define VH_NATIVE 0
#else
#include <stdio.h>
#include <stdlib.h>
extern uint64_t vh_next(const char *type, unsigned bits);
extern void     vh_check_fail(const char *msg, const char *file, int line);
extern void     vh_assume_fail(const char *cond, const char *file, int line);
extern void     vh_witness(const char *name);
#define ND(type) ((type) vh_next(#type, (unsigned) (8 * sizeof(type))))
#define ASSUME(c)                                        \
	do {                                             \
		if (!(c))                                \
			vh_assume_fail(#c, __FILE__, __LINE__); \
	} while (0)
#define CHECK(c, msg)                                          \
	do {                                                   \
		if (!(c))                                      \
			vh_check_fail(msg, __FILE__, __LINE__); \
	} while (0)
#define WITNESS(name) vh_witness(name)
#define VH_NATIVE 1
#define __CPROVER_assume(c) ASSUME(c)
#define __CPROVER_assert(c, m) CHECK(c, m)
#endif

/* SCHECK: a check that keeps its full strength in an allocation-fault pass (memory safety, locks, exactly-once
 * completion, leaks, the reported result of the failing call).  In a fault pass (-DVH_FAULTPASS, harness TU only) a plain
 * CHECK - a functional expectation written for the fault-free library, e.g. "the message is delivered" - stops
 * applying once the injected fault has fired: the documented best-effort loss makes it legitimately false. */
#ifdef VH_FAULTPASS
extern int env_alloc_failed, env_msg_failed, env_idmap_failed;
#define VH_FAULT_FIRED (env_alloc_failed || env_msg_failed || env_idmap_failed)
#if VH_NATIVE
#define SCHECK(c, msg)                                         \
	do {                                                   \
		if (!(c))                                      \
			vh_check_fail(msg, __FILE__, __LINE__); \
	} while (0)
#undef CHECK
#define CHECK(c, msg)                                          \
	do {                                                   \
		if (!VH_FAULT_FIRED && !(c))                   \
			vh_check_fail(msg, __FILE__, __LINE__); \
	} while (0)
#else
#define SCHECK(c, msg) __CPROVER_assert((c), "PROP " msg)
#undef CHECK
#define CHECK(c, msg) __CPROVER_assert(VH_FAULT_FIRED || (c), "PROP " msg)
#endif
#else
#define SCHECK(c, msg) CHECK(c, msg)
#define VH_FAULT_FIRED 0
#endif

/* fill a byte buffer with symbolic bytes */
#define ND_BYTES(buf, n)                                  \
	do {                                              \
		for (size_t vh_i_ = 0; vh_i_ < (size_t) (n); vh_i_++) \
			((u8 *) (buf))[vh_i_] = ND(u8);   \
	} while (0)

#endif

/* native side of vh.h: feeds the values of a CBMC counterexample, in trace
 * order, to the same harness source compiled with gcc + sanitizers. */
#include "vh.h"
#ifndef VH_CBMC
#include <string.h>
static FILE *vh_f;
static int   vh_exhausted;
uint64_t
vh_next(const char *type, unsigned bits)
{
	unsigned long long v = 0;
	(void) type;
	if (vh_f == NULL) {
		const char *p = getenv("VH_VALUES");
		if (p == NULL || (vh_f = fopen(p, "r")) == NULL) {
			fprintf(stderr, "REPLAY-ERROR: no VH_VALUES\n");
			exit(3);
		}
	}
	if (vh_exhausted || fscanf(vh_f, "%llu", &v) != 1) {
		/* values CBMC left unconstrained / beyond the trace: 0 */
		vh_exhausted = 1;
		v            = 0;
	}
	if (bits < 64)
		v &= ((1ull << bits) - 1);
	return (uint64_t) v;
}
void
vh_check_fail(const char *msg, const char *file, int line)
{
	printf("REPLAY-FAIL: %s (%s:%d)\n", msg, file, line);
	fflush(stdout);
	exit(1);
}
void
vh_assume_fail(const char *cond, const char *file, int line)
{
	printf("REPLAY-DIVERGED: assumption %s (%s:%d)\n", cond, file, line);
	fflush(stdout);
	exit(77);
}
void
vh_witness(const char *name)
{
	printf("REPLAY-WITNESS: %s\n", name);
}
extern void harness(void);
int
main(void)
{
	harness();
	printf("REPLAY-PASS\n");
	return 0;
}
#endif

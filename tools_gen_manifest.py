#!/usr/bin/env python3
"""Regenerates MANIFEST.json from the props/*.py modules (their MANIFEST dicts)
and NOT_APPLICABLE below.  Run after adding/changing a check."""
import importlib, json, os, sys
sys.path.insert(0, os.path.dirname(os.path.abspath(__file__)))
ALL = ["C%02d" % i for i in range(1, 21)]
checks = []
na = []
for pid in ALL:
    try:
        mod = importlib.import_module("props.%s" % pid)
    except ModuleNotFoundError:
        na.append({"property_id": pid, "reason": "check not built yet (work in progress in this tree); see DESIGN.md section 4 for the plan"})
        continue
    m = getattr(mod, "MANIFEST", None)
    if m is None or m.get("not_applicable"):
        na.append({"property_id": pid, "reason": (m or {}).get("not_applicable", "no check registered")})
        continue
    c = {
        "property_id": pid,
        "quick_cmd": "./check %s --tier quick" % pid,
        "thorough_cmd": "./check %s --tier thorough" % pid,
        "evidence_file": "/verif/evidence/%s.json" % pid,
        "replay_cmd_template": "./check %s --replay {path}" % pid,
        "engine": "cbmc",
        "level_claimed": {"category": getattr(mod, "LEVEL", "model_checking"), "text": m["text"], "design_ref": m.get("design_ref", "DESIGN.md section 4, " + pid)},
        "level_note": m["note"],
        "technique": m.get("technique", "bounded symbolic execution of the real C translation units with CBMC 6.11 (SAT), harness per unit, witness twins, native replay of counterexamples"),
    }
    checks.append(c)
man = {
    "version": 1,
    "setup_cmd": "python3 -m vp.setup",
    "hooks": {
        "guard": "NNG_VERIF",
        "enable": "none needed: harnesses #include the real .c files from /repo/src, so statics are reachable without hooks; the guard name is reserved",
        "baseline_off_cmd": "cmake -G Ninja -S /repo -B /repo/_build && cmake --build /repo/_build -j16 && ctest --test-dir /repo/_build -j8 --timeout 900",
        "source_commits": [],
        "add_only": True,
    },
    "engines": [
        {"name": "cbmc", "path": "/verif/vp/core.py", "serves_properties": [c["property_id"] for c in checks],
         "kind_free_text": "CBMC 6.11 bounded model checker over goto-cc builds of the real nng translation units; python driver enumerates concrete shapes, solver decides all symbolic scalars; gcc+ASan/UBSan native replay of counterexamples"},
    ],
    "checks": checks,
    "not_applicable": na,
    "notes": "All checks rebuild their encodings from /repo's working tree on every run. Exit 0 = held within stated bounds; exit 1 + VIOLATION line = replayed counterexample; exit 2 = inconclusive (timeout, vacuous harness, non-reproducing trace) - never reported as success.",
}
with open(os.path.join(os.path.dirname(os.path.abspath(__file__)), "MANIFEST.json"), "w") as f:
    json.dump(man, f, indent=1)
print("checks:", [c["property_id"] for c in checks], "n/a:", [n["property_id"] for n in na])
